"""C03 - compilation is total: any text yields a function or a compile error.

Theorems (coq/props/C03.v): termination of scanning for every byte string (progress, Eof absorbing, finite token
stream ending with the only Eof), slices only on character boundaries, interpolation depth bounded, the parser model
DECIDES every source (general fuel sufficiency: never POutOfFuel with default_fuel; answers independent of the fuel)
and "a first error carries a line >= 1"; the Pratt table, the token-kind enumeration and the keyword
table of the model are EQUAL to the ones regenerated from compiler.rs / scanner.rs (coq/gen/Rules.v, Tokens.v).
Tie: every generated text goes through the real `compiler::compile` (harness command `c03`, one Vm per batch, release
build for all inputs and the debug build - overflow checks, debug assertions - for a subset) and through
`YV.ParseRun.run_parse_hex` (vm_compute).  Oracle per text:
  (T) terminates within the watchdog   (P) no panic / crash          -> VIOLATION
  (E) Err has >= 1 message, each `[module "main", line N] Error…: …` with 1 <= N <= newlines+1   -> VIOLATION
  (F) Ok although the language definition (model) reports an error  -> VIOLATION
  (A) Err although the model accepts / first message differs from the model's first error -> correspondence broken
  (X) a sample of accepted texts is run: a panic/crash of the interpreter on an accepted text -> VIOLATION
"""
import glob
import json
import os
import re
import time

import yvlib
from yvlib import hx, log

LEVEL = "proof"
TRUSTED = [
    "Coq 8.16.1 kernel (coqc), vm_compute; no native_compute, no extraction",
    "translator/translate_c03.py + rustlex.py (RULES array, Precedence, TokenKind, identifier_type read at token level)",
    "the harness `yv` (command c03, Rust) and tools/*.py (Python); Rust's catch_unwind and the harness watchdog",
    "modelled, not verified: Rust String slicing semantics (char boundaries), HashMap iteration order for >= 2 unsupported attributes",
]
ASSUMPTIONS = [
    "inputs are valid UTF-8 (a Rust String cannot hold anything else); the scanner theorems hold for every byte string",
    "the parser model has no panic-mode recovery: it defines the accepted language and the FIRST error; the recovery loop, later "
    "messages and code-emission limits (jump/loop/constant sizes) are covered by the tie only ((T),(P),(E))",
    "nesting is exercised up to depth 200 (the stated bound); the harness runs each case on a 256 MiB stack, except the length-scale "
    "family (flat repetition up to 200 000 units), which compiles on a 1 MiB stack and confirms an overflow on the CLI's 8 MiB stack; "
    "chains that are flat in the text but nested in the grammar (else-if, assignment, unary, lambda, && and || - right-recursive as in "
    "clox) count as nesting",
]

SCRIPTS = os.path.join(yvlib.REPO, "yarel", "tests", "scripts")
CODE_LIMIT = ("Loop body too large.", "Too many constants in one chunk.", "Too much code in block.",
              "Too much code to jump over.")
MSG_RE = re.compile(r'\A\[module "main", line (\d+)\] Error( at end| at \'.*\')?: .+\Z', re.S)
CASE_MS = 2000
REDO_MAX = 120
REDO_BIG_MAX = 400
SCALE = float(os.environ.get("C03_SCALE", "1"))     # developer option: scales the random families (mutation runs)

# canonical lexeme of every token kind, in the order of enum TokenKind (Error: an unexpected character, Eof: cut)
LEX = ["(", ")", "{", "}", "[", "]", ",", ".", "..", "-", "-=", "+", "+=", ":", ";", "/", "/=", "*", "*=", "!", "!=", "=",
       "==", ">", ">=", "<", "<=", "&", "&=", "|", "|=", "^", "^=", "%", "%=", ">>", ">>=", "<<", "<<=", "&&", "||", "~",
       "#", "x", '"s"', '"a${', "1", "Self", "catch", "class", "else", "false", "finally", "for", "fn", "if", "import", "as",
       "in", "nil", "return", "self", "super", "break", "continue", "throw", "true", "try", "var", "while", "@", None]
OPENERS = ["var", "fn", "class", "if", "while", "for", "return", "{", "#", "try", "import", "break", "continue", "throw",
           "print", "x", "}", ";"]
EXTRA = ["print", "y", "C", "new", '"s${x}t"', "1.5", "|x|", "#[static]", "#[constructor(new)]", "é", "_", "0", '""',
         "init", "f", "\n", "// c\n", "${", '"']
INSERTS = ["é", "€", "😀", "\x00", '"', "\\", "$", "{", "}", "${", "\\x", "\\u", "\\U", "'", "\n", "//", "\r", "\t",
           "\\xff", "\\u00e9", "\u0301", "\ufeff"]

TOK_RE = re.compile(r'''(?P<ws>[ \t\r\n]+)|(?P<com>//[^\n]*)|(?P<str>"(?:\\.|[^"\\])*"?)|(?P<num>\d+(?:\.\d+)?)|'''
                    r'''(?P<id>[A-Za-z_][A-Za-z_0-9]*)|(?P<op><<=|>>=|\.\.|&&|\|\||<<|>>|[-+*/%^&|!=<>]=|.)''', re.S)


# ---------------------------------------------------------------------------------------------------------
# corpus and generators (every random choice comes from ctx.rng)

def corpus_files():
    fs = sorted(glob.glob(os.path.join(SCRIPTS, "**", "*.yl"), recursive=True))
    out = []
    for f in fs:
        if os.path.isfile(f):
            with open(f, "rb") as fh:
                b = fh.read()
            try:
                out.append((os.path.relpath(f, SCRIPTS), b.decode("utf-8")))
            except UnicodeDecodeError:
                pass
    return out


def pieces(src):
    """[(kind, text)] covering src exactly"""
    return [(m.lastgroup, m.group(0)) for m in TOK_RE.finditer(src)]


def line_prefixes(src):
    ls = src.split("\n")
    res = []
    for k in range(len(ls) + 1):
        res.append("\n".join(ls[:k]))
        if 0 < k < len(ls):
            res.append("\n".join(ls[:k]) + "\n")
    return res


def char_prefixes(rng, src, n):
    if not src:
        return []
    hot = [i for i, c in enumerate(src) if c in '"${}\\/'] or [0]
    res = []
    for _ in range(n):
        if rng.random() < 0.5:
            i = rng.choice(hot) + rng.choice([0, 1, 1, 2])
        else:
            i = rng.randint(0, len(src))
        res.append(src[:max(0, min(len(src), i))])
    return res


def token_mutant(rng, src):
    ps = pieces(src)
    idx = [i for i, (k, _) in enumerate(ps) if k not in ("ws", "com")]
    if not idx:
        return src + rng.choice(LEX[:-1])
    for _ in range(rng.choice([1, 1, 1, 2, 3])):
        idx = [i for i, (k, _) in enumerate(ps) if k not in ("ws", "com")]
        if not idx:
            break
        i = rng.choice(idx)
        op = rng.choice(["delete", "swap", "dup", "replace", "replace", "insert"])
        sep = "" if rng.random() < 0.2 else " "
        if op == "delete":
            ps[i] = ("ws", " ")
        elif op == "swap" and len(idx) > 1:
            j = rng.choice(idx)
            ps[i], ps[j] = ps[j], ps[i]
        elif op == "dup":
            ps.insert(i, ("x", ps[i][1] + sep))
        elif op in ("replace", "insert"):
            k = rng.randrange(len(LEX))
            if LEX[k] is None:      # Eof: the text ends here
                ps = ps[:i]
            elif op == "replace":
                ps[i] = ("x", sep + LEX[k] + sep)
            else:
                ps.insert(i, ("x", sep + LEX[k] + sep))
        else:
            ps[i] = ("ws", " ")
    return "".join(t for _, t in ps)


def char_mutant(rng, src):
    s = src
    for _ in range(rng.choice([1, 1, 2, 3])):
        spans = [m.span() for m in re.finditer(r'"(?:\\.|[^"\\])*"', s)]
        if spans and rng.random() < 0.6:
            a, b = rng.choice(spans)
            i = rng.randint(a, b)
        else:
            i = rng.randint(0, len(s))
        r = rng.random()
        if r < 0.75:
            s = s[:i] + rng.choice(INSERTS) + s[i:]
        elif r < 0.9 and i < len(s):
            s = s[:i] + s[i + 1:]
        elif i < len(s):
            s = s[:i] + rng.choice(INSERTS) + s[i + 1:]
    return s


def random_tokens(rng):
    n = rng.randint(1, 40) if rng.random() < 0.9 else rng.randint(40, 300)
    vocab = [l for l in LEX if l is not None] + EXTRA
    out = []
    for _ in range(n):
        r = rng.random()
        out.append(rng.choice(OPENERS) if r < 0.3 else rng.choice(vocab))
    return (" " if rng.random() < 0.9 else "").join(out)


def gen_expr(rng, d):
    if d <= 0 or rng.random() < 0.3:
        return rng.choice(["1", "x", "y", "nil", "true", '"s"', '"a${x}b"', "self", "2.5", "f", "[]", "{}"])
    k = rng.randrange(13)
    e = lambda: gen_expr(rng, d - 1)
    if k == 0:
        return "%s %s %s" % (e(), rng.choice(["+", "-", "*", "/", "%", "==", "!=", "<", "<=", ">", ">=", "&", "|", "^", "<<",
                                              ">>", "&&", "||", ".."]), e())
    if k == 1:
        return "%s%s" % (rng.choice(["-", "!", "~"]), e())
    if k == 2:
        return "(%s)" % ", ".join(e() for _ in range(rng.choice([1, 1, 2, 3])))
    if k == 3:
        return "[%s]" % ", ".join(e() for _ in range(rng.randint(0, 3)))
    if k == 4:
        return "{%s}" % ", ".join("%s: %s" % (e(), e()) for _ in range(rng.randint(0, 2)))
    if k == 5:
        return "%s(%s)" % (rng.choice(["f", "x", "print"]), ", ".join(e() for _ in range(rng.randint(0, 3))))
    if k == 6:
        return "%s.%s" % (e(), rng.choice(["len", "m", "x"]))
    if k == 7:
        return "%s.%s(%s)" % (e(), rng.choice(["len", "m", "push"]), ", ".join(e() for _ in range(rng.randint(0, 2))))
    if k == 8:
        return "%s[%s]" % (e(), e())
    if k == 9:
        return "|%s| %s" % (", ".join(rng.sample(["a", "b", "c"], rng.randint(0, 2))), e())
    if k == 10:
        return "|| { %s }" % gen_block(rng, d - 1)
    if k == 11:
        return '"p${%s}q${%s}"' % (e(), e())
    return "%s %s %s" % (rng.choice(["x", "y", "x.f", "x[0]"]), rng.choice(["=", "+=", "-=", "*=", "/=", "%=", "&=", "|=", "^=", "<<=", ">>="]), e())


def gen_stmt(rng, d, in_loop=False, in_fn=False, in_class=False):
    k = rng.randrange(16)
    e = lambda: gen_expr(rng, 2)
    b = lambda **kw: "{ %s }" % gen_block(rng, d - 1, **kw)
    if d <= 0 or k < 3:
        return e() + ";"
    if k == 3:
        return "var %s%s;" % (rng.choice(["x", "y", "z", "w"]), rng.choice(["", " = " + e()]))
    if k == 4:
        return "if %s %s%s" % (e(), b(in_loop=in_loop, in_fn=in_fn), rng.choice(["", " else " + b(in_loop=in_loop, in_fn=in_fn),
                                                                                   " else if %s %s" % (e(), b(in_loop=in_loop, in_fn=in_fn))]))
    if k == 5:
        return "while %s %s" % (e(), b(in_loop=True, in_fn=in_fn))
    if k == 6:
        return "for %s in %s %s" % (rng.choice(["i", "x"]), e(), b(in_loop=True, in_fn=in_fn))
    if k == 7:
        return "fn %s(%s) %s" % (rng.choice(["f", "g"]), ", ".join(rng.sample(["a", "b", "c"], rng.randint(0, 3))), b(in_fn=True))
    if k == 8:
        ms = []
        for _ in range(rng.randint(0, 3)):
            at = rng.choice(["", "", "#[static] "])
            ps = ([] if at else ["self"]) + rng.sample(["a", "b"], rng.randint(0, 2))
            ms.append("%sfn %s(%s) %s" % (at, rng.choice(["m", "init", "n"]), ", ".join(ps), b(in_fn=True)))
        return "%sclass %s { %s }" % (rng.choice(["", "#[constructor(new)] ", "#[derive(C)] ", "#[constructor(new), derive(C)] "]),
                                      rng.choice(["C", "D"]), " ".join(ms))
    if k == 9:
        return "try %s%s%s" % (b(in_loop=in_loop, in_fn=in_fn), rng.choice([" catch e " + b(in_loop=in_loop, in_fn=in_fn), ""]),
                               rng.choice(["", " finally " + b(in_loop=in_loop, in_fn=in_fn)]))
    if k == 10:
        return rng.choice(["break;", "continue;"]) if (in_loop or rng.random() < 0.15) else e() + ";"
    if k == 11:
        return ("return%s;" % rng.choice(["", " " + e()])) if (in_fn or rng.random() < 0.15) else e() + ";"
    if k == 12:
        return "throw %s;" % e()
    if k == 13:
        return b(in_loop=in_loop, in_fn=in_fn)
    if k == 14:
        return "print(%s);" % e()
    return "#[%s] fn h() {}" % rng.choice(["static", "constructor(new)", "foo", "derive(Vec)"])


def gen_block(rng, d, **kw):
    return " ".join(gen_stmt(rng, d, **kw) for _ in range(rng.randint(0, 3)))


def gen_program(rng):
    return "\n".join(gen_stmt(rng, rng.randint(1, 4)) for _ in range(rng.randint(1, 5)))


def ladders(rng, quick):
    depths = [1, 2, 8, 9, 60, 200] if quick else [1, 2, 3, 7, 8, 9, 10, 17, 50, 100, 150, 199, 200]
    res = []
    for d in depths:
        fam = {
            "paren": ("(" * d + "1", ")" * d + ";"),
            "vec": ("[" * d + "1", "]" * d + ";"),
            "block": ("{" * d, "}" * d),
            "map": ("var m = " + "{1: " * d + "1", "}" * d + ";"),
            "lambda": ("var l = " + "|x| " * d + "x", ";"),
            "lambdablock": ("var l = " + "|| { return " * d + "1", ";}" * d + ";"),
            "fn": ("".join("fn f%d() { " % i for i in range(d)), "}" * d),
            "class": ("".join("class C%d { fn m(self) { " % i for i in range(d)), "} }" * d),
            "if": ("if x { " * d, "}" * d),
            "elseif": ("if x {}" + " else if x {}" * d, " else {}"),
            "while": ("while x { " * d + "break;", "}" * d),
            "try": ("try { " * d, "} catch e {}" * d),
            "unary": ("var u = " + "-" * d + "1", ";"),
            "call": ("f" + "(f" * d, ")" * d + ";"),
            "index": ("x" + "[x" * d, "]" * d + ";"),
            "dot": ("x" + ".y" * d, ";"),
            "binary": ("1" + " + 1" * d, ";"),
            "tuple": ("(" * d + "1,", ")" * d + ";"),
        }
        for name, (a, b) in fam.items():
            res.append(("ladder:%s:%d" % (name, d), a + b))
            cut = rng.randint(0, len(b))
            res.append(("ladder:%s:%d:cut" % (name, d), a + b[:cut]))
    for d in range(1, 12):      # interpolation: depth 9 is the documented error
        res.append(("ladder:interp:%d" % d, 'var s = ' + '"a${' * d + "1" + '}b"' * d + ";"))
        res.append(("ladder:interp:%d:cut" % d, 'var s = ' + '"a${' * d))
        res.append(("ladder:interpbrace:%d" % d, 'var s = ' + '"${ {1: ' * d + "1" + '}[1] }"' * d + ";"))
    return res


def limits(rng):
    res = []
    for n in (254, 255, 256, 257):
        ids = ["a%d" % i for i in range(n)]
        nums = ", ".join("1" for _ in range(n))
        res.append(("limit:params:%d" % n, "fn f(%s) {}" % ", ".join(ids)))
        res.append(("limit:lambdaparams:%d" % n, "var l = |%s| 1;" % ", ".join(ids)))
        res.append(("limit:methodparams:%d" % n, "class C { fn m(self, %s) {} }" % ", ".join(ids)))
        res.append(("limit:args:%d" % n, "f(%s);" % nums))
        res.append(("limit:invokeargs:%d" % n, "x.m(%s);" % nums))
        res.append(("limit:superargs:%d" % n, "class A {} #[derive(A)] class B { fn m(self) { super.m(%s); } }" % nums))
        res.append(("limit:vec:%d" % n, "var v = [%s];" % nums))
        res.append(("limit:tuple:%d" % n, "var t = (%s);" % nums))
        res.append(("limit:map:%d" % n, "var m = {%s};" % ", ".join("%d: 1" % i for i in range(n))))
        res.append(("limit:interp:%d" % n, 'var s = "%s";' % ("${1}" * (n // 2) + "x" * (n % 2))))
        res.append(("limit:interpparts:%d" % n, 'var s = "%s";' % ("a${1}" * ((n + 1) // 2))))
        res.append(("limit:locals:%d" % n, "fn f() { %s }" % " ".join("var %s;" % i for i in ids)))
        res.append(("limit:localsblock:%d" % n, "{ %s }" % " ".join("var %s = 1;" % i for i in ids)))
        res.append(("limit:upvalues:%d" % n, "fn a() { %s fn b() { %s fn c() { %s } } }" % (
            " ".join("var p%d;" % i for i in range(200)), " ".join("var q%d;" % i for i in range(n - 200)),
            " ".join("p%d;" % i for i in range(200)) + " " + " ".join("q%d;" % i for i in range(n - 200)))))
    # very long lines (model-sized; the 100 kB versions are in big_inputs)
    res.append(("long:binary", "var x = " + " + ".join(["1"] * 600) + ";"))
    res.append(("long:ident", "var " + "a" * 3000 + " = 1;"))
    res.append(("long:string", 'var s = "' + "é" * 1500 + '";'))
    res.append(("long:comment", "// " + "€" * 1500 + "\nvar x = 1;"))
    res.append(("long:statements", "x;" * 700))
    res.append(("long:number", "var n = " + "9" * 150 + "." + "9" * 150 + ";"))
    res.append(("long:calls", "f" + "()" * 600 + ";"))
    return res


def attribute_inputs(rng):
    """duplicate attributes with and without arguments, on one line and across lines, for functions, classes and
    methods (the site `attributes_declaration` reports: at the duplicate's NAME token); at most one unsupported
    attribute per list (HashMap order)"""
    res = []
    targets = [("fn", "%s\nfn f() {}"), ("class", "%s\nclass C {}"), ("method", "class C {\n  %s\n  fn m(self) {}\n}"),
               ("stmt", "%s\nvar x = 1;"), ("eof", "%s")]
    lists = [
        "#[static, static]", "#[foo, foo]", "#[constructor(new), constructor(new)]", "#[constructor(new), constructor(other)]",
        "#[derive(A), derive(B)]", "#[constructor(new), derive(A), constructor(new)]", "#[foo(a, b), foo]", "#[foo, foo(a, b)]",
        "#[foo(a), foo(a)]", "#[static,\n  static]", "#[constructor(new),\n  constructor(\n    new\n  )]",
        "#[foo(a,\n b),\n\n foo(a,\n b)\n]", "#[\n  derive(A)\n  ,\n  derive(A)\n]", "#[static, static, static]",
        "#[static, static", "#[static, static)", "#[foo(a), foo(", "#[foo(a), foo(a", "#[foo(a), foo(a)", "#[foo(a), foo(1)]",
        "#[constructor(new), static, constructor(new)] ", "#[static] #[static]", "#[static]\n#[static]",
        "#[constructor(new), constructor]", "#[constructor, constructor(new)]", "#[a, static, static]",
        # several unsupported attributes in one list: WHICH one is reported depends on the HashMap order (documented
        # nondeterminism); the oracle compares up to canon_msgs / nondeterministic_attrs
        "#[bar(new, b), derive(new, A), static(new, A), constructor(new)]", "#[a, b, c, d, e, f, g, h]",
        "#[a,\n b,\n c,\n d]", "#[static, derive(A), constructor(new), foo, bar, baz]", "#[x(a), y(b), z(c)]",
    ]
    for tn, tpl in targets:
        for i, l in enumerate(lists):
            res.append(("attr:%s:%d" % (tn, i), tpl % l))
    names = ["static", "constructor", "derive", "foo", "bar"]
    for _ in range(120):
        n = rng.randint(2, 4)
        seen_unsupported = False
        items = []
        for _ in range(n):
            nm = rng.choice(names if not seen_unsupported else names[:3] + [x for x in items[:1] if False])
            if nm in ("foo", "bar"):
                if seen_unsupported:
                    nm = rng.choice(names[:3])
                else:
                    seen_unsupported = nm
            args = rng.choice(["", "", "(%s)" % ", ".join(rng.sample(["new", "A", "b"], rng.randint(1, 2))), "()"])
            items.append(nm + args)
        if rng.random() < 0.8:
            items.append(rng.choice(items).split("(")[0] + rng.choice(["", "(new)", "(A, b)"]))     # a duplicate
        if seen_unsupported:
            items = [x for x in items if not x.startswith(("foo", "bar")) or x.split("(")[0] == seen_unsupported]
        sep = rng.choice([", ", ",\n  ", " ,", ",\n\n"])
        tn, tpl = rng.choice(targets)
        res.append(("attr:%s:rand" % tn, tpl % ("#[" + sep.join(items) + "]")))
    return res


EXTRA_CONSTRUCTS = [
    ("for_range", "for i in 0..3 { print(i); }"), ("for_vec_use", "for i in [1, 2, 3] { print(i); } return v0;"),
    ("block_var", "{ var y = 1; print(y); }"), ("nested_fn_params", "fn g(a, b, c) { return a + b + c; } print(g(1, 2, 3));"),
    ("try_finally", "try { var t = 1; } finally { var u = 2; }"), ("try_catch_finally", "try { var t = 1; } catch e { var c = e; } finally { var u = 2; }"),
    ("lambda_expr", "var g = |a| a + 1;"), ("while_local", "while false { var t = 1; }"), ("if_else_vars", "if v0 { var a = 1; } else { var b = 2; }"),
    ("compound", "v0 += 1; v1 -= v0;"), ("interp", 'print("a${v0}b${v1}");'), ("two_vars", "var y = 1; var z = 2;"),
    ("class_in_fn_with_method_locals", "class K { fn m(self, a) { var t = a; for i in [1] { var u = i; } return t; } }"),
    ("for_no_body_var_after", "for i in [1] {} var late = 1; print(late);"), ("import_plain", 'import "m";'),
    ("static_method", "class S { #[static] fn s(a) { return a; } } print(S.s(1));"),
]


def boundary_inputs(quick):
    """programs AT the compiler's limits, each limit followed by every statement kind that declares or uses something.
    The program builders are C04's (tools/props/C04.py: boundary_program, params_program, COUNT_FAMILIES, _captures,
    JUMP_FAMILIES, CONST_FAMILY).  -> (texts the parser model judges, texts judged on (T),(P),(E) only)"""
    from props import C04
    modelled, implonly = [], []
    ks = [254, 255, 256] if quick else list(range(248, 259))
    constructs = [(n, c) for n, c, _ in C04.BOUNDARY_CONSTRUCTS] + EXTRA_CONSTRUCTS
    for name, construct in constructs:
        for k in ks:
            # quick: the construct as the last declaration at 254/255/256, followed by one more declaration at 255
            tails = (("last", "then_var") if k == 255 else ("last",)) if quick else C04.BOUNDARY_TAILS
            for tail in tails:
                src, _ = C04.boundary_program(name, construct, [], k, tail)
                modelled.append(("boundary:locals:%s:%s:%d" % (name, tail, k), src))
            # the same in a block at script level (locals of the script function) and inside a method / lambda block
            pre = "".join("var v%d = %d;" % (i, i) for i in range(k))
            body = construct % {"last": k - 1} if "%(" in construct else construct
            if "return" not in body and (not quick or k in (255, 256)):
                modelled.append(("boundary:blocklocals:%s:%d" % (name, k), C04.BOUNDARY_PRELUDE + "{ %s %s print(v0); }" % (pre, body)))
            if not quick or k == 255:
                modelled.append(("boundary:methodlocals:%s:%d" % (name, k), C04.BOUNDARY_PRELUDE + "class W { fn w(self) { %s %s } }" % (pre, body)))
                modelled.append(("boundary:lambdalocals:%s:%d" % (name, k), C04.BOUNDARY_PRELUDE + "var w = || { %s %s };" % (pre, body)))
    for k in ([253, 254, 255, 256, 257] if quick else range(250, 259)):
        for tail in C04.BOUNDARY_TAILS:
            modelled.append(("boundary:params:%s:%d" % (tail, k), C04.params_program(k, tail)[0]))
    for name, construct in constructs:
        for k in ([254, 255] if quick else range(252, 258)):
            ps = ", ".join("v%d" % i for i in range(k))
            body = construct % {"last": k - 1} if "%(" in construct else construct
            modelled.append(("boundary:params+:%s:%d" % (name, k), C04.BOUNDARY_PRELUDE + "fn f(%s) { %s }" % (ps, body)))
    for name, limit, build in C04.COUNT_FAMILIES:
        for d in (-1, 0, 1, 2):
            modelled.append(("boundary:count:%s:%d" % (name, limit + d), build(limit + d)))
    for n in ((255, 256, 257, 258) if quick else range(250, 262)):
        modelled.append(("boundary:captures:%d" % n, C04._captures(n)))
    # constants in one chunk: literals (C04's family) and NAMES (identifier constants: globals read, defined, assigned,
    # property and method names)
    cname, climit, cbuild, _ = C04.CONST_FAMILY
    for n in (climit - 1, climit, climit + 1, climit + 2):
        implonly.append(("boundary:constants:literals:%d" % n, cbuild(n)))
        implonly.append(("boundary:constants:names_read:%d" % n, "".join("g%d;" % i for i in range(n))))
        implonly.append(("boundary:constants:names_defined:%d" % n, "".join("var g%d;" % i for i in range(n))))
        implonly.append(("boundary:constants:properties:%d" % n, "var o;" + "".join("o.p%d;" % i for i in range(n - 1))))
        implonly.append(("boundary:constants:mixed_then_use:%d" % n, "".join("%d.5;" % i for i in range(n - 3)) + "var a = 1; var b = a; print(b);"))
    # jumps / loops around 65535 bytes: sweep the body size over the bound (2 bytes per `nil;`, 3 per `-nil;`)
    for name, build, _ in C04.JUMP_FAMILIES:
        for na in ((32760, 32764, 32765, 32766, 32767, 32768, 32770) if quick else range(32756, 32772)):
            for nb in (0, 1):
                implonly.append(("boundary:jump:%s:%d:%d" % (name, na, nb), build(na, nb)))
    return modelled, implonly


def code_size_inputs():
    """rejection depends on the emitted code size: outside the parser model, compared on (T),(P),(E) only"""
    res = []
    for n in (65533, 65536, 65540):
        res.append(("codesize:constants:%d" % n, "\n".join("%d.5;" % i for i in range(n))))
    body = "x = x + 1; " * 9000       # > 65535 bytes of code
    res.append(("codesize:jump", "var x = 0; if x { %s }" % body))
    res.append(("codesize:loop", "var x = 0; while x { %s }" % body))
    res.append(("codesize:elsejump", "var x = 0; if x {} else { %s }" % body))
    res.append(("codesize:and", "var x = 0; x && (%s 1);" % ("x + " * 30000)))
    # too big for vm_compute in the time budget: compared on (T),(P),(E) as well
    res.append(("big:binary", "var x = " + " + ".join(["1"] * 30000) + ";"))
    res.append(("big:ident", "var " + "a" * 100000 + " = 1;"))
    res.append(("big:string", 'var s = "' + "é" * 50000 + '";'))
    res.append(("big:unterminated", 'var s = "' + "😀" * 50000))
    res.append(("big:comment", "// " + "€" * 50000 + "\nvar x = 1;"))
    res.append(("big:statements", "x;" * 40000))
    res.append(("big:number", "var n = " + "9" * 5000 + "." + "9" * 5000 + ";"))
    res.append(("big:calls", "f" + "()" * 20000 + ";"))
    res.append(("big:errors", "var = ;\n" * 20000))
    res.append(("big:lines", "\n" * 200000 + "x"))
    return res


# ---------------------------------------------------------------------------------------------------------
# the scanner's byte positions: every character width at every offset after every scanner state

MB = ["é", "ॐ", "🙂"]                                   # 2-, 3- and 4-byte characters
SIG_GEN = ["4", "g", '"'] + MB                          # after an operator / keyword / number / comment stem
SIG_STR = ["4", "a", "g", "+", '"', "$", "{", "\\", "\n"] + MB     # inside a string literal
SIG_STR3 = ["4", "g", '"'] + MB                         # the alphabet of the length-3 continuations (quick)


def _words(sig, n):
    res = [""]
    out = []
    for _ in range(n):
        res = [w + c for w in res for c in sig]
        out += res
    return out


def scanner_stems():
    """-> (generic stems, string stems): one text per scanner state that looks at the NEXT character(s):
    every non-empty prefix of every lexeme of the 72 token kinds (operators, keywords, literals), numbers with and
    without a fraction, comments, whitespace; and - after an opening quote - every state of `string()` /
    `read_escaped_bytes()`: plain, after a backslash, after the x / u / U escape introducers and 0..7 hex digits, after `$`, `${`, after the `}`
    that resumes a string, after a multi-byte character, on a later line"""
    gen = []

    def add(x):
        if x and x not in gen:
            gen.append(x)
    for l in LEX:
        if l and not l.startswith('"'):
            for k in range(1, len(l) + 1):
                add(l[:k])
    for x in ["1.", "1.5", "12", "/", "//", "// c", "#[", "_", "x1", "Se", "tr", "tru", " ", "\n", "\r", "\t", "é", "🙂", "x.", "x =", "(", "|x|"]:
        add(x)
    hexd = "0001f642"
    st = ["", "a", "é", "🙂", "\\", "\\n", "$", "${", "${x}", "a${x}b", "a\nb", "\\$", "\\\\"]
    for e, n in (("x", 2), ("u", 4), ("U", 8)):
        for k in range(n):
            st.append("\\" + e + hexd[8 - n:8 - n + k])
    st += ["\\xg", "\\x+", "\\u00e9\\x", "é\\x", "${x}\\x", "${x}\\u00", "a\n\\U0001f6", "\\x41\\x", "\\xe9\\u"]
    return gen, st


def scanner_boundary_inputs(quick):
    """SMALL-SCOPE ENUMERATION of the scanner's look-ahead: after every stem, EVERY word up to length 2 (string states:
    3) over an alphabet with one representative per class the scanner distinguishes - hex digit, hex letter that is
    also an escape, other letter, `+` (accepted by from_str_radix), quote, `$`, `{`, backslash, newline - and per UTF-8
    width (2, 3, 4 bytes), followed by the end of the text or by a closing tail.  No random choice."""
    gstems, sstems = scanner_stems()
    cases = []
    gw = _words(SIG_GEN, 2)
    for stem in gstems:
        for w in gw:
            for tail in ("", " 1;"):
                cases.append(("scanbyte:gen:%s" % stem.strip()[:8], stem + w + tail))
    sw = _words(SIG_STR, 2) + ([x for x in _words(SIG_STR3, 3) if len(x) == 3] if quick else [x for x in _words(SIG_STR, 3) if len(x) == 3])
    sw2 = _words(SIG_STR, 2)
    for stem in sstems:
        for w in sw:
            for tail in ("", '";'):
                cases.append(("scanbyte:str:%s" % stem[:8], '"' + stem + w + tail))
        # the same states inside other contexts: after tokens on an earlier line, and in a string nested in an interpolation
        for w in sw2:
            cases.append(("scanbyte:strctx:%s" % stem[:8], 'var s =\n "' + stem + w + '";'))
            cases.append(("scanbyte:strnest:%s" % stem[:8], '"p${ "' + stem + w + '" }q";'))
    seen = set()
    out = []
    for f, t in cases:
        if t not in seen:
            seen.add(t)
            out.append((f, t))
    return out


# ---------------------------------------------------------------------------------------------------------
# implementation side

class Impl:
    __slots__ = ("kind", "msgs", "detail")

    def __init__(self, kind, msgs=None, detail=""):
        self.kind, self.msgs, self.detail = kind, msgs or [], detail

    def __repr__(self):
        return "%s %s %s" % (self.kind, self.detail, self.msgs[:2])


def _parse_batch(rec, n):
    res = []
    cur = None
    for l in rec.lines:
        f = l.split(" ")
        if f[0] == "I":
            cur = {"r": None, "m": [], "x": None}
            res.append(cur)
        elif cur is None:
            continue
        elif f[0] == "R":
            cur["r"] = f[1:]
        elif f[0] == "M":
            cur["m"].append(yvlib.unhx(f[1]).decode("utf-8", "replace") if len(f) > 1 else "")
        elif f[0] == "X":
            cur["x"] = f[1:]
    out = []
    for c in res:
        r = c["r"]
        if r is None:
            break
        if r[0] == "ok":
            im = Impl("ok", detail=" ".join(r[1:]))
        elif r[0] == "err":
            im = Impl("err", c["m"], r[1])
        else:
            im = Impl("panic", detail=yvlib.unhx(r[1]).decode("utf-8", "replace") if len(r) > 1 else "")
        if c["x"]:
            im.detail += " X " + " ".join(c["x"][:1]) + ((" " + yvlib.unhx(c["x"][1]).decode("utf-8", "replace")) if c["x"][0] == "panic" and len(c["x"]) > 1 else "")
        out.append(im)
    return out if (not rec.crashed and len(out) == n) else None


def run_impl(binary, srcs, opts="-", batch=40):
    """compile every text; returns a list of Impl (kind ok|err|panic|crash|timeout)"""
    chunks = []
    cur, size = [], 0
    for i, s in enumerate(srcs):
        cur.append(i)
        size += len(s)
        if len(cur) >= batch or size > 200000:
            chunks.append(cur)
            cur, size = [], 0
    if cur:
        chunks.append(cur)
    lines = ["c03 %s %s" % (opts, " ".join(hx(srcs[i]) for i in c)) for c in chunks]
    out = [None] * len(srcs)
    if batch > 40:
        # the enumerated families: large batches in waves; when batches keep failing (a compiler that hangs or aborts on
        # a large part of the enumeration) the remaining waves are not run - the re-runs below give the failing texts
        recs, failed = [], 0
        for w in range(0, len(lines), 32):
            part = yvlib.run_harness(binary, lines[w:w + 32], case_timeout_ms=CASE_MS + 20 * batch)
            failed += sum(1 for c, r in zip(chunks[w:w + 32], part) if _parse_batch(r, len(c)) is None)
            recs.extend(part)
            if failed >= 8:
                break
        for c in chunks[len(recs):]:
            for i in c:
                out[i] = Impl("skipped")
        chunks = chunks[:len(recs)]
    else:
        recs = yvlib.run_harness(binary, lines, case_timeout_ms=CASE_MS if batch == 1 else CASE_MS + 50 * batch)
    redo = []
    for c, r in zip(chunks, recs):
        p = _parse_batch(r, len(c))
        if p is None:
            if batch == 1:
                out[c[0]] = Impl("timeout" if r.crashed == "timeout" else "crash", detail=str(r.crashed))
            else:
                redo.extend(c)
        else:
            for i, im in zip(c, p):
                out[i] = im
    if redo and batch > 40:
        # a failing LARGE batch (the enumerated families) is first re-run in small batches, which re-run text by text;
        # bounded: a compiler that hangs on a large part of the enumeration must cost a minute, not an hour
        for i in redo[REDO_BIG_MAX:]:
            out[i] = Impl("skipped")
        redo = redo[:REDO_BIG_MAX]
        sub = run_impl(binary, [srcs[i] for i in redo], opts, batch=20)
        for i, im in zip(redo, sub):
            out[i] = im
        redo = []
    if redo:
        # a failing batch is re-run text by text; bounded, so that a compiler that hangs on most inputs costs minutes, not hours
        for i in redo[REDO_MAX:]:
            out[i] = Impl("skipped")
        redo = redo[:REDO_MAX]
        sub = run_impl(binary, [srcs[i] for i in redo], opts, batch=1)
        for i, im in zip(redo, sub):
            out[i] = im
    # a timeout or a process crash is believed only when it REPRODUCES: the text is re-run alone, twice (machine load,
    # a harness binary being relinked by a concurrent build, a failed 256 MiB stack allocation must not produce an
    # alarm; a genuine hang / abort is deterministic and survives both re-runs)
    sus = [i for i, im in enumerate(out) if im.kind in ("timeout", "crash")]
    if sus and batch == 1:
        first = sus[:10]
        pending = list(first)
        for _attempt in range(2):
            if not pending:
                break
            again = yvlib.run_harness(binary, ["c03 %s %s" % (opts, hx(srcs[i])) for i in pending], case_timeout_ms=CASE_MS, shards=4)
            still = []
            for i, r in zip(pending, again):
                p = _parse_batch(r, 1)
                if p is not None:
                    out[i] = p[0]
                else:
                    still.append(i)
            pending = still
        if not pending:
            # none of the first ten reproduced: the rest are not judged rather than believed
            for i in sus[10:]:
                out[i] = Impl("skipped")
    return out


# ---------------------------------------------------------------------------------------------------------
# model side

def unesc(s):
    b = bytearray()
    i = 0
    while i < len(s):
        if s.startswith("\\x", i) and i + 4 <= len(s):
            b.append(int(s[i + 2:i + 4], 16))
            i += 4
        else:
            b.extend(s[i].encode())
            i += 1
    return b.decode("utf-8", "replace")


def model_message(m):
    """'ERR <line> <at> <msg>' -> the message the compiler prints"""
    _, line, at, msg = m.split(" ", 3)
    where = " at end" if at == "end" else "" if at == "none" else " at '%s'" % unesc(at[4:])
    return '[module "main", line %s] Error%s: %s' % (line, where, unesc(msg))


def run_model(srcs, tag):
    terms = ['run_parse_hex "%s"' % s.encode("utf-8").hex() for s in srcs]
    return yvlib.coq_eval(["YV:ParseRun"], terms, shard_size=60, tag="C03" + tag, preamble="Open Scope string_scope.")


def at_class(m):
    at = m.split(" ", 3)[2]
    if at in ("end", "none"):
        return at
    lex = unesc(at[4:])
    if re.fullmatch(r"[A-Za-z_][A-Za-z_0-9]*", lex):
        return lex if lex in LEX else "identifier"
    if re.fullmatch(r"\d+(\.\d+)?", lex):
        return "number"
    return lex if lex in LEX else "string"


# ---------------------------------------------------------------------------------------------------------
# oracle

# The ONLY nondeterminism of compile: `check_supported_attributes` iterates a HashMap (RandomState: the order differs
# from process to process, also between two runs of the same build) and reports - panic mode - the first unsupported
# attribute it meets.  Which of several unsupported attributes of one list is named (and on which line) is therefore
# not determined by the text; that an `Unsupported <kind> attribute` message is reported is.
UNSUPPORTED_RE = re.compile(r'\A\[module "main", line \d+\] Error at \'([^\']*)\': Unsupported (\w+) attribute \'([^\']*)\'\.\Z', re.S)


def canon_msgs(msgs):
    """multiset of messages with every order-dependent message reduced to what is determined"""
    out = []
    for m in msgs:
        g = UNSUPPORTED_RE.match(m)
        out.append("<unsupported %s attribute>" % g.group(2) if g else m)
    return sorted(out)


def nondeterministic_attrs(impl_msg, model_msg, src=""):
    """first messages differ only in WHICH unsupported attribute of the list is named"""
    a, b = UNSUPPORTED_RE.match(impl_msg), UNSUPPORTED_RE.match(model_msg)
    return bool(a and b and a.group(2) == b.group(2) and a.group(1) == a.group(3) and
                re.search(r"(?<![A-Za-z0-9_])%s(?![A-Za-z0-9_])" % re.escape(a.group(1)), src))


def judge(ctx, tag, src, im, mo, st, model_applies=True):
    """one text: implementation result `im`, model verdict `mo` (string or None)"""
    nl = src.count("\n")
    if im.kind == "skipped":
        st["skipped"] += 1
        return
    if im.kind in ("timeout", "crash", "panic"):
        what = {"timeout": "compile does not terminate within %d ms" % CASE_MS, "crash": "compile crashes the process",
                "panic": "compile panics"}[im.kind]
        st["viol"].append(dict(what=what, input=src, expected="a function or a compile error", actual="%s %s" % (im.kind, im.detail), family=tag,
                               model=mo, cls=im.kind))
        return
    if " X panic" in im.detail or " X crash" in im.detail:
        st["viol"].append(dict(what="an accepted text panics the interpreter when run", input=src, expected="runnable function",
                               actual=im.detail, family=tag, cls="runpanic"))
    if im.kind == "err":
        bad = None
        if not im.msgs:
            bad = "Err without a message"
        for m in im.msgs:
            g = MSG_RE.match(m)
            if not g:
                bad = "message without the located shape: %r" % m[:200]
            elif not (1 <= int(g.group(1)) <= nl + 1):
                bad = "line %s outside 1..%d: %r" % (g.group(1), nl + 1, m[:200])
        if bad:
            st["viol"].append(dict(what="compile error without a located message (" + bad + ")", input=src, expected="[module \"main\", line N] Error…: … with 1 <= N <= %d" % (nl + 1),
                                   actual=im.msgs[:5], family=tag, cls="shape"))
            return
    if not model_applies:
        st[st.get("implonly_key", "codesize")] += 1
        return
    if mo is None:
        st["model_failed"] += 1
        return
    if mo == "FUEL":
        st["fuel"] += 1
        st["fuel_samples"].append(src[:200])
        return
    if im.kind == "err" and (im.msgs[0].endswith(CODE_LIMIT) or all(m.endswith(CODE_LIMIT) for m in im.msgs)) and \
            (mo == "OK" or im.msgs[0].endswith(CODE_LIMIT)):
        st["codesize"] += 1
        return
    if mo == "OK":
        if im.kind == "ok":
            st["agree_ok"] += 1
            st["accepted"].add(src)
        else:
            st["corr"].append("compile rejects a text of the defined language: %r -> %r (family %s)" % (src[:300], im.msgs[:2], tag))
    else:
        want = model_message(mo)
        if im.kind == "ok":
            st["viol"].append(dict(what="compile returns a function for a text the language definition rejects (an error is reported by the model: %s)" % want,
                                   input=src, expected=want, actual="Ok " + im.detail, family=tag, cls="okerr", model=mo))
        elif im.msgs[0] == want:
            st["agree_err"] += 1
            st["errclasses"].add((mo.split(" ", 3)[3], at_class(mo)))
            st["recovered"] += len(im.msgs) > 1
        elif nondeterministic_attrs(im.msgs[0], want, src):
            st["attr_nondet"] += 1
        else:
            st["corr"].append("first error differs: %r -> impl %r | model %r (family %s)" % (src[:300], im.msgs[0][:200], want[:200], tag))


def new_stats():
    return {"viol": [], "corr": [], "fuel": 0, "fuel_samples": [], "codesize": 0, "model_failed": 0, "agree_ok": 0, "agree_err": 0,
            "accepted": set(), "errclasses": set(), "attr_nondet": 0, "recovered": 0, "skipped": 0, "scanbyte_implonly": 0}


def check_texts(ctx, cases, st, tag, debug_subset=None, model_applies=True, batch=40):
    """cases: [(family, text)].  Release build for all, debug build for `debug_subset` indices."""
    srcs = [s for _, s in cases]
    rel = ctx.harness("release")
    big = any(len(s) > 20000 for s in srcs)
    impl = run_impl(rel, srcs, batch=1 if big else batch)
    model = run_model(srcs, tag) if model_applies else [None] * len(srcs)
    for (fam, s), im, mo in zip(cases, impl, model):
        judge(ctx, fam, s, im, mo, st, model_applies)
    if debug_subset and len(st["viol"]) < 5:
        dbg = ctx.harness("debug")
        sub = [cases[i] for i in debug_subset]
        dimpl = run_impl(dbg, [s for _, s in sub], batch=1 if big else (25 if batch == 40 else batch))
        for (fam, s), im, i in zip(sub, dimpl, debug_subset):
            r = impl[i]
            if im.kind in ("timeout", "skipped"):
                # the debug build is ~50x slower: a timeout there is re-judged on the release result only
                continue
            if im.kind in ("crash", "panic"):
                judge(ctx, fam + ":debug", s, im, model[i], st, model_applies)
            elif r.kind in ("ok", "err") and (im.kind, len(im.msgs), canon_msgs(im.msgs)) != (r.kind, len(r.msgs), canon_msgs(r.msgs)):
                # two processes are compared up to the documented nondeterminism (canon_msgs)
                st["corr"].append("debug and release builds disagree on %r: %r vs %r" % (s[:200], im, r))
    return impl, model


# ---------------------------------------------------------------------------------------------------------
# the Pratt table through programs: a OP1 b OP2 c

def sexp(s):
    """parse the S-expression rendering of YV.ParseRun.show_ast (after 'OK ')"""
    toks = re.findall(r"\(|\)|[^\s()]+", s)
    pos = [0]

    def go():
        t = toks[pos[0]]
        pos[0] += 1
        if t == "(":
            l = []
            while toks[pos[0]] != ")":
                l.append(go())
            pos[0] += 1
            return l
        return t
    return go()


def operator_pairs(ctx, st, value_sets):
    with open(os.path.join(yvlib.COQ, "gen", "manifest.json")) as fh:
        man = json.load(fh)
    rows = [r.split(":") for r in man.get("c03_rules", [])]
    binops = [LEX[i] for i, r in enumerate(rows) if i < len(LEX) and LEX[i] and r[2] in ("binary", "and", "or", "dotdot")]
    unops = [LEX[i] for i, r in enumerate(rows) if i < len(LEX) and LEX[i] and r[1] == "unary"]
    shapes = [("bin", a, b) for a in binops for b in binops] + [("un", u, b) for u in unops for b in binops]
    exprs = [("%s %s %s %s %s" % ("A", a, "B", b, "C")) if k == "bin" else ("%sA %s B" % (a, b)) for k, a, b in shapes]
    inst = lambda e, vs: e.replace("A", vs[0]).replace("B", vs[1]).replace("C", vs[2])
    model = yvlib.coq_eval(["YV:ParseRun"], ['run_ast "%s;"' % inst(e, ("7", "3", "2")) for e in exprs], shard_size=60, tag="C03ops",
                           preamble="Open Scope string_scope.")
    rel = ctx.harness("release")
    progs, meta = [], []
    for (k, a, b), e, mo in zip(shapes, exprs, model):
        if mo is None or not mo.startswith("OK "):
            # not an expression of the language: the implementation must reject it too
            meta.append((k, a, b, e, None))
            continue
        tree = sexp(mo[3:])     # (expr@1 E)
        top = tree[1]
        if k == "bin":
            left = isinstance(top[1], list) and top[1][0] not in ("num",)
            grouped = ("(A %s B) %s C" % (a, b)) if left else ("A %s (B %s C)" % (a, b))
            other = ("A %s (B %s C)" % (a, b)) if left else ("(A %s B) %s C" % (a, b))
        else:
            inner = top[0] in ("neg", "not", "bitnot")
            grouped = ("%s(A %s B)" % (a, b)) if inner else ("(%sA) %s B" % (a, b))
            other = ("(%sA) %s B" % (a, b)) if inner else ("%s(A %s B)" % (a, b))
        meta.append((k, a, b, e, (grouped, other)))
    for m in meta:
        if m[4] is None:
            progs.append("print(%s);" % inst(m[3], value_sets[0]))
        else:
            for vs in value_sets:
                for t in (m[3], m[4][0], m[4][1]):
                    progs.append("print(%s);" % inst(t, vs))
    recs = yvlib.run_harness(rel, ["run gc=never " + hx(p) for p in progs], case_timeout_ms=CASE_MS)
    obs = lambda r: (r.result[0], r.output, (r.result[1], r.messages[:1]) if r.result[0] != "ok" else "")
    i = 0
    discr = 0
    for k, a, b, e, g in meta:
        if g is None:
            r = recs[i]
            i += 1
            if not (r.result[0] == "err" and r.result[1] == "CompileError"):
                st["viol"].append(dict(what="`%s` is not an expression of the defined language but compiles" % e, input=progs[i - 1],
                                       expected="compile error", actual=str(obs(r)), family="oppair", cls="okerr"))
            continue
        found = False
        for vs in value_sets:
            r0, r1, r2 = recs[i], recs[i + 1], recs[i + 2]
            i += 3
            if obs(r1) != obs(r2):
                found = True
                if obs(r0) != obs(r1):
                    st["viol"].append(dict(
                        what="operator grouping differs from the defined language: `%s` must mean `%s`" % (inst(e, vs), inst(g[0], vs)),
                        input="print(%s);" % inst(e, vs), expected=str(obs(r1)), actual=str(obs(r0)), family="oppair", cls="grouping"))
        discr += found
    return len(shapes), discr, len(progs)


VALUE_SETS = [("7", "3", "2"), ("2", "5", "3"), ("1", "0", "4"), ("true", "0", "false"), ("6", "1", "1")]


# ---------------------------------------------------------------------------------------------------------

def shrink_text(src, fails, budget=30):
    cur = src
    n = 2
    while len(cur) >= 2 and budget > 0:
        size = max(1, len(cur) // n)
        reduced = False
        for i in range(0, len(cur), size):
            cand = cur[:i] + cur[i + size:]
            if budget <= 0:
                break
            budget -= 1
            if fails(cand):
                cur = cand
                n = max(n - 1, 2)
                reduced = True
                break
        if not reduced:
            if size == 1:
                break
            n = min(n * 2, len(cur))
    return cur


def classify(ctx, src):
    """verdict class of one text, for shrinking and replay"""
    st = new_stats()
    check_texts(ctx, [("replay", src)], st, "shrink")
    return st


MB_TEMPLATES = [
    "%s;", "var s = %s;", "print(%s);", "import %s;", "import %s as m;", "import %s as", "#[%s] fn f() {}", "#[a(%s)] fn f() {}",
    "class %s {}", "class C { fn %s(self) {} }", "fn %s() {}", "fn f(%s) {}", "var %s;", "var x = y.%s;", "var m = {%s: 1};",
    "var m = {1: %s};", "f(%s, %s);", "%s.len();", "%s(1);", "%s[0];", "var v = [%s, %s];", "for %s in x {}", "for i in %s {}",
    "try {} catch %s {}", "throw %s;", "return %s;", "x = %s + %s;", "x += %s;", "if %s {}", "while %s { break; }", "|%s| 1;",
    "var t = (%s, 1);", "#[derive(%s)] class D {}", "#[constructor(%s)] class D {}", "super.%s;", "self.%s = 1;", "-%s;", "%s %s;",
    "%s = 1;", "%s", "%s +", "var x = 1; // %s\nvar y = %s;",
]


def multibyte_token_inputs():
    """a string / interpolation token (and a stray multi-byte character) whose text is non-ASCII in every syntactic
    position - legal or not: whatever the parser does with a token's text (messages `Error at '...'`, constants, import
    paths, names) sees characters of every width; judged by the full oracle (first message = the model's)"""
    toks = ['"é"', '"ॐa"', '"a🙂"', '"é${x}ॐ"', '"${"🙂"}"', '"\\u00e9é"', "é", "🙂x", '"é', '"a\nॐ"']
    res = []
    for tpl in MB_TEMPLATES:
        for t in toks:
            res.append(("mbtoken:%s" % tpl[:12].strip(), tpl.replace("%s", t)))
    return res


# ---------------------------------------------------------------------------------------------------------
# round 9: LENGTH scale (flat repetition, the CLI's real stack) and errors reported AT long / wide tokens

HOST_RECURSION_REF = ["compiler.rs|cycle|block,class_declaration,declaration,fn_declaration,for_statement,function,if_statement,method,"
                      "statement,try_statement,while_statement"]       # = ScanSites.host_recursion_ref
CLI_STACK_KIB = 8192    # the CLI compiles on the main thread: 8 MiB (ulimit -s); the harness case thread has 256 MiB
STACK_KIB = 1024        # the scale family compiles on a SMALL stack (Windows main thread: 1 MiB; Rust thread default: 2 MiB)
SCALE_MS = 20000        # watchdog of one scale text (debug build, loaded machine)
SLOW_DEBUG = ("fns", "methods", "lambdas", "var_distinct")     # 3-6 ms per unit on the debug build: smaller sizes there

# (name, prefix, unit, suffix, level): `prefix + unit * n + suffix`; level "scan" = only the scanner repeats (cheap: also
# at 50k / 200k), "parse" = one parser loop iteration per unit.  Every unit is FLAT: no unit is nested in the previous one.
FLAT = [
    ("comment_lines", "", "// c\n", "print(1);", "scan"),
    ("comment_blank_lines", "", "// c\n\n  \t", "print(1);", "scan"),
    ("comment_inline_run", "var x = 1", " // c\n // d\n", ";", "scan"),
    ("blank_lines", "", "\n", "print(1);", "scan"),
    ("crlf_lines", "", "\r\n", "print(1);", "scan"),
    ("spaces", "print(", " ", "1);", "scan"),
    ("tabs_mixed", "print(", " \t\r", "1);", "scan"),
    ("string_chars", 'var s = "', "aé", '";', "scan"),
    ("string_escapes", 'var s = "', "\\n\\x41\\u00e9", '";', "scan"),
    ("string_lines", 'var s = "', "a\n", '";', "scan"),
    ("string_dollars", 'var s = "', "$ ", '";', "scan"),
    ("ident_chars", "var ", "ab_1", " = 1;", "scan"),
    ("number_digits", "var n = 1", "90", ";", "scan"),
    ("fraction_digits", "var n = 1.", "90", ";", "scan"),
    ("unexpected_chars", "", "@", "", "scan"),
    ("unexpected_char_lines", "", "@\n", "", "scan"),
    ("unexpected_wide_chars", "", "é ", "", "scan"),
    ("comment_then_error_chars", "", "// c\n@\n", "", "scan"),
    ("statements", "", "x;\n", "", "parse"),
    ("statements_one_line", "", "1;", "", "parse"),
    ("empty_statements", "", ";", "", "parse"),
    ("var_same", "", "var v = 1;\n", "", "parse"),
    ("var_distinct", "", None, "", "parse"),
    ("prints", "", 'print("a");\n', "", "parse"),
    ("blocks", "", "{}\n", "", "parse"),
    ("block_statements", "{\n", "x;\n", "}", "parse"),
    ("fn_body_statements", "fn f() {\n", "x;\n", "}", "parse"),
    ("locals_in_blocks", "fn f() {\n", "{ var a = 1; }\n", "}", "parse"),
    ("ifs", "", "if x {}\n", "", "parse"),
    ("if_elses", "", "if x {} else {}\n", "", "parse"),
    ("whiles", "", "while x { break; }\n", "", "parse"),
    ("fors", "", "for i in x {}\n", "", "parse"),
    ("trys", "", "try {} catch e {} finally {}\n", "", "parse"),
    ("fns", "", "fn f() {}\n", "", "parse"),
    ("classes", "", "class C {}\n", "", "parse"),
    ("lambdas", "", "var l = |a| a;\n", "", "parse"),
    ("methods", "class C {\n", None, "}", "parse"),
    ("attribute_lists", "", "#[static]\n", "fn f() {}", "parse"),
    ("attributes", "#[", "a,\n", "a] fn f() {}", "parse"),
    ("returns", "fn f() {\n", "return;\n", "}", "parse"),
    ("throws", "", "throw 1;\n", "", "parse"),
    ("breaks", "while x {\n", "break;\ncontinue;\n", "}", "parse"),
    ("vec_elements", "var v = [", "1,\n", "1];", "parse"),
    ("tuple_elements", "var t = (", "1,\n", "1);", "parse"),
    ("map_entries", "var m = {", "1: 1,\n", "1: 1};", "parse"),
    ("call_args", "f(", "1,\n", "1);", "parse"),
    ("params", "fn f(", None, "z) {}", "parse"),
    ("lambda_params", "var l = |", None, "z| 1;", "parse"),
    ("binary_plus", "var b = 1", " + 1", ";", "parse"),
    ("binary_mixed", "var b = 1", " * 2 - 3 < 4\n == x & 1", ";", "parse"),
    ("dots", "x", ".y", ";", "parse"),
    ("calls", "f", "()", ";", "parse"),
    ("indexes", "x", "[0]", ";", "parse"),
    ("invokes", "x", ".m(1)\n", ";", "parse"),
    ("compound_statements", "var x = 0;\n", "x += 1;\n", "", "parse"),
    ("interp_parts", 'var s = "', "a${1}", 'b";', "parse"),
    ("interp_strings", "", 'print("a${x}b");\n', "", "parse"),
    ("strings_statements", "", '"é";\n', "", "parse"),
    ("error_statements", "", "var = ;\n", "", "parse"),
    ("error_closers", "", ")\n", "", "parse"),
    ("error_braces", "", "}\n", "", "parse"),
    ("error_operators", "", "+;\n", "", "parse"),
    ("error_unterminated_interp", "", 'var s = "a${;\n', "", "parse"),
    ("error_then_good", "", "var = ;\nvar y = 1;\n", "", "parse"),
]
FLAT_UNIT_FN = {
    "var_distinct": lambda i: "var v%d = %d;\n" % (i, i),
    "methods": lambda i: "fn m%d(self) {}\n" % i,
    "params": lambda i: "p%d,\n" % i,
    "lambda_params": lambda i: "p%d, " % i,
}
# flat in the TEXT but nested in the grammar (`else if` is an if statement inside an else branch, `a = a = 1` and
# `|a| |a| 1` are right-nested): the recursion is the documented one, bounded by the stated nesting depth
NESTED_IN_GRAMMAR = [
    ("elseif_chain", "if x {}", " else if x {}\n", " else {}"),
    ("assign_chain", "x", " = x", " = 1;"),
    ("unary_chain", "var u = ", "-", "1;"),
    ("lambda_chain", "var l = ", "|a| ", "a;"),
    # `and` / `or` call parse_precedence(And / Or) for their right operand (as in clox): `a && b && c` is a && (b && c),
    # one host recursion per operand; measured on the unchanged tree: 10 000 operands overflow a 1 MiB stack (debug build)
    ("logical_and_chain", "var b = x", " && x", ";"),
    ("logical_or_chain", "var b = x", " || x", ";"),
]
TAIL_ERROR = "\nvar = ;"           # an error AFTER the repetition: its line is a closed form of n


def flat_text(name, pre, unit, suf, n):
    f = FLAT_UNIT_FN.get(name)
    body = "".join(f(i) for i in range(n)) if f else unit * n
    return pre + body + suf


def scale_sizes(name, level, quick, unit_len=9):
    """-> (sizes for the debug build, further sizes for the release build only)"""
    if name in SLOW_DEBUG:
        return ([300], [1000, 10000]) if quick else ([300, 1000], [5000, 10000, 30000])
    if level == "scan":
        big = [200000] if unit_len <= 5 else []
        return ([10000, 50000] + big, [1000]) if quick else ([1000, 10000, 50000] + big, [500000] if big else [200000])
    return ([1000, 10000], [50000]) if quick else ([300, 1000, 10000, 30000], [50000])


def scale_inputs(quick):
    """-> [(family, text, size-3 text, debug build too?, (name, n, then_error))]: every flat construct at 1k / 10k
    (scanner-level constructs also 50k and 200k; 50k on the release build for the parser-level ones), each also followed by
    a syntax error; the grammar-nested chains at the stated bound"""
    res = []
    for name, pre, unit, suf, level in FLAT:
        ds, rs = scale_sizes(name, level, quick, len(unit or "123456789"))
        small = flat_text(name, pre, unit, suf, 3)
        for n in sorted(ds + rs):
            t = flat_text(name, pre, unit, suf, n)
            res.append(("scale:%s:%d" % (name, n), t, small, n in ds, (name, n, False)))
            res.append(("scale:%s:%d:then_error" % (name, n), t + TAIL_ERROR, small + TAIL_ERROR, n == max(ds) or (n in ds and not quick), (name, n, True)))
    for name, pre, unit, suf in NESTED_IN_GRAMMAR:
        for n in (100, 200):
            res.append(("scale:%s:%d" % (name, n), pre + unit * n + suf, pre + unit * 3 + suf, True, None))
    # NESTING at the stated bound on the small stack (the 256 MiB case thread hides a frame that grew): the 18 ladder
    # shapes at depth 200, closed form = the result at depth 2 (the :cut variants are the only users of the rng: dropped)
    lad = dict(c for c in ladders(_NoRng(), True) if not c[0].endswith(":cut"))
    for fam, t in lad.items():
        f = fam.split(":")
        if f[-1] == "200" and "ladder:%s:2" % f[1] in lad:
            res.append(("scale:nest:%s:200" % f[1], t, lad["ladder:%s:2" % f[1]], True, None))
    return res


class _NoRng:
    def randint(self, a, b):
        return a


LINE_RE = re.compile(r'\A\[module "main", line (\d+)\]')
COUNT_LIMIT_RE = re.compile(r"(Too many|Too much|too large|Cannot have more than|Can't have more than|more than \d+)")


def run_scale(binary, srcs, stack_kib):
    global CASE_MS
    old = CASE_MS
    CASE_MS = SCALE_MS
    try:
        return run_impl(binary, srcs, opts="stack=%d" % stack_kib, batch=6)
    finally:
        CASE_MS = old


def confirm_on_cli_stack(binary, key):
    """a text that overflows the SMALL stack is scaled up by the ratio of the stacks (x1.25) and compiled on the CLI's
    real stack: the violation that is reported is the one a user of the command-line tool sees"""
    name, n, then_error = key
    row = [r for r in FLAT if r[0] == name][0]
    big = flat_text(name, row[1], row[2], row[3], n * 10) + (TAIL_ERROR if then_error else "")
    if len(big) > 12_000_000:
        return None, None
    global CASE_MS
    old = CASE_MS
    CASE_MS = 90000
    try:
        return big, run_impl(binary, [big], opts="stack=%d" % CLI_STACK_KIB, batch=1)[0]
    finally:
        CASE_MS = old


def scale_family(ctx, st, quick):
    """LENGTH scale.  Oracle, size-independent: the host stack compile needs must not grow with the LENGTH of a flat text:
    every text is compiled on a thread with a SMALL stack (STACK_KIB = 1 MiB: the main-thread default of Windows, half of
    Rust's thread default; the harness's case thread has 256 MiB and hides this class) on the debug AND the release build;
    an overflow found there is re-built 10x longer and confirmed on the CLI's real 8 MiB stack.  (T),(P),(E); debug =
    release (kind, number of messages, messages); closed forms: the text at size n is accepted iff the text at size 3 is
    (which the model judges), unless a message names a documented count / code-size limit; a rejected text's first message
    is the size-3 message, at line 1 / at the closed-form line when the error follows the repetition."""
    cases = scale_inputs(quick)
    srcs = [c[1] for c in cases]
    smalls = sorted({c[2] for c in cases})
    # size 3: the full oracle (model first message, both builds)
    check_texts(ctx, [("scale:small", s) for s in smalls], st, "scalesmall", debug_subset=list(range(len(smalls))))
    rel = ctx.harness("release")
    dbg = ctx.harness("debug")
    small_impl = dict(zip(smalls, run_impl(rel, smalls)))
    # the stack option must be effective (an old harness binary would ignore it and compile on 256 MiB: the whole family
    # would be vacuous): 5000 nested parentheses - far beyond the stated bound - must overflow the small stack
    probe = run_scale(rel, ["(" * 5000 + "1" + ")" * 5000 + ";"], STACK_KIB)[0]
    if probe.kind != "crash":
        ctx.broken.append("length-scale family: the harness does not compile on a %d KiB stack (`c03 stack=` ignored? probe: %s) - family vacuous" % (STACK_KIB, probe.kind))
    t0 = time.time()
    rimpl = run_scale(rel, srcs, STACK_KIB)
    t1 = time.time()
    didx = [i for i, c in enumerate(cases) if c[3]]
    dpart = run_scale(dbg, [srcs[i] for i in didx], STACK_KIB)
    dimpl = [None] * len(cases)
    for i, d in zip(didx, dpart):
        dimpl[i] = d
    log("[C03] length scale: %d texts on the release build in %.0fs, %d on the debug build in %.0fs" % (len(srcs), t1 - t0, len(didx), time.time() - t1))
    for k in ("scale_texts", "scale_closed_form", "scale_debug_timeouts_not_judged"):
        st.setdefault(k, 0)
    confirmed = set()
    for (fam, t, small, _, key), r, d in zip(cases, rimpl, dimpl):
        st["scale_texts"] += 1
        bad = None
        for build, binary, im in (("debug", dbg, d), ("release", rel, r)):
            if im is None or im.kind == "skipped":
                continue
            if im.kind == "timeout" and build == "debug":
                st["scale_debug_timeouts_not_judged"] += 1
                continue
            if im.kind in ("crash", "panic", "timeout"):
                bad = (build, binary, im)
                break
        if bad:
            build, binary, im = bad
            if len(st["viol"]) >= 8 or (key and (key[0], build) in confirmed):
                continue
            v = dict(what="compile %s on a flat text of %d bytes (%s build, compiled on a thread with a %d KiB stack): the host stack / time needed "
                          "grows with the LENGTH of the text, not with its nesting" % (
                              {"crash": "crashes the process (stack overflow / abort)", "panic": "panics", "timeout": "does not terminate within %d ms" % SCALE_MS}[im.kind],
                              len(t), build, STACK_KIB),
                     input=t, expected="a function or a compile error", actual="%s %s" % (im.kind, im.detail), family=fam, cls="scalecrash",
                     stack_kib=STACK_KIB, build=build)
            if im.kind == "crash" and key:
                confirmed.add((key[0], build))
                big, cim = confirm_on_cli_stack(binary, key)
                if cim is not None and cim.kind == "crash":
                    v.update(input=big, stack_kib=CLI_STACK_KIB, actual="%s %s" % (cim.kind, cim.detail), family=fam + ":x10",
                             what="compile crashes the process (stack overflow) on a flat text of %d bytes on the %s build with the CLI's real stack of %d KiB "
                                  "(first seen at 1/10 of the length on a %d KiB stack): host recursion proportional to the LENGTH of the text" % (
                                      len(big), build, CLI_STACK_KIB, STACK_KIB))
                else:
                    v["not_confirmed_on_cli_stack"] = str(cim)
            st["viol"].append(v)
            continue
        if r.kind not in ("ok", "err"):
            continue
        nv = len(st["viol"])
        judge(ctx, fam, t, r, None, dict(st, implonly_key="scale_judged", scale_judged=0, viol=st["viol"]), model_applies=False)
        if len(st["viol"]) > nv:
            continue
        if d is not None and d.kind in ("ok", "err") and (d.kind, len(d.msgs), canon_msgs(d.msgs)) != (r.kind, len(r.msgs), canon_msgs(r.msgs)):
            st["corr"].append("debug and release builds disagree on %s: %r vs %r" % (fam, d, r))
            continue
        s = small_impl.get(small)
        if s is None or s.kind not in ("ok", "err") or any(COUNT_LIMIT_RE.search(m) for m in r.msgs):
            continue
        if r.kind != s.kind:
            st["viol"].append(dict(what="the result depends on the LENGTH of a flat repetition: %s at size 3, %s at this size, no limit named"
                                   % (s.kind, r.kind), input=t, expected="%s %s" % (s.kind, s.msgs[:1]), actual="%s %s" % (r.kind, r.msgs[:2]),
                                   family=fam, cls="scalekind", stack_kib=STACK_KIB, build="release"))
            continue
        if r.kind == "err":
            g0, g1 = LINE_RE.match(s.msgs[0]), LINE_RE.match(r.msgs[0])
            if fam.endswith(":then_error") and small_impl[small[:-len(TAIL_ERROR)]].kind == "ok":
                want = t.count("\n") + 1
            elif g0 and int(g0.group(1)) == 1:
                want = 1
            else:
                want = None
            if g0 and g1 and (s.msgs[0][g0.end():] != r.msgs[0][g1.end():] or (want is not None and int(g1.group(1)) != want)):
                st["viol"].append(dict(what="first message of a long flat text is not the size-3 message at the closed-form line %s" % want,
                                       input=t, expected=s.msgs[0], actual=r.msgs[0], family=fam, cls="scalemsg", stack_kib=STACK_KIB, build="release"))
                continue
        st["scale_closed_form"] += 1
    st["scale_cases"] = len(cases)
    return len(cases) + len(smalls)


def wide_token(width_char, shift, nbytes, kind="str"):
    """a token whose TEXT has `nbytes`+ bytes of multi-byte characters, the first one at byte offset `shift` (so that for
    every byte offset N one of the (width, shift) combinations has a character straddling N)"""
    body = "a" * shift + width_char * ((nbytes - shift) // len(width_char.encode()) + 1)
    if kind == "str":
        return '"%s"' % body
    if kind == "interp":
        return '"%s${x}%s"' % (body, body)
    if kind == "interp_tail":
        return '"a${x}%s"' % body
    return body                     # bare: unexpected characters (Error tokens)


ERRTOK_TEMPLATES = MB_TEMPLATES_EXTRA = [
    "print %s;", "var x = 1 %s;", "f(1 %s);", "[1 %s];", "{1 %s};", "class C { %s }", "class C { fn m(self) %s }", "fn f(a %s) {}",
    "fn %s", "var x %s", "if x %s", "while x { } %s", "for i %s", "try { } catch e %s", "try { } %s", "#[static %s] fn f() {}",
    "#[static] %s", "x.m(%s", "x[1 %s", "|a %s| 1;", "(1, %s", "import %s %s;", "return 1 %s;", "break %s;", "class %s", "super %s;",
    "x = \n\n %s %s;", "{ var y = 1 %s }", '"a${1 %s}b";', "1 +\n %s\n %s\n;", "var x = 1; } %s", "else %s", "%s\n%s\n%s",
]


def error_token_inputs(rng, files, quick):
    """an error INSIDE the error path: every error site the generators know (the 42 positions of MB_TEMPLATES, 33 more
    that are errors AT the inserted token, and token replacements / insertions in corpus scripts) with the reported token
    being LONG (100 .. 5000+ bytes) and NON-ASCII at every byte alignment - whatever error_at / synchronise / the
    scanner's error tokens do with a token's text (quote it, shorten it, pad it, find its column) meets every character
    width at every offset.  -> (texts for the model, texts judged on (T),(P),(E) + debug = release)"""
    sizes = [81, 100, 300, 1100] if quick else [17, 33, 65, 81, 100, 129, 257, 300, 1100, 5000, 70000]
    toks = []
    for nb in sizes:
        for ch in MB:
            for shift in (0, 1, 2, 3):
                for kind in ("str", "interp", "interp_tail", "bare"):
                    if quick and ((kind == "interp_tail" and shift > 1) or (kind == "bare" and (shift > 1 or nb > 300))):
                        continue
                    if nb >= 5000 and (ch != "é" or shift > 1 or kind != "str"):
                        continue
                    toks.append(wide_token(ch, shift, nb, kind))
    toks.append('"' + "a" * 300 + '"')
    toks.append("a" * 300)
    toks.append("9" * 300 + "." + "9" * 300)
    toks.append('"' + "é\n" * 100 + '"')
    toks.append('"' + "'" * 100 + "é" * 100 + '"')
    implonly, modelled = [], []
    tpls = MB_TEMPLATES + ERRTOK_TEMPLATES
    for i, tpl in enumerate(tpls):
        for j, t in enumerate(toks):
            # every template with every (width, shift) at 2 sizes; the full product in thorough
            if quick and (i + j) % 7 not in ((0,) if i < len(MB_TEMPLATES) else (0, 3)):
                continue
            if not quick and (i + j) % 3 != 0:
                continue
            implonly.append(("errtoken:%s" % tpl[:12].strip(), tpl.replace("%s", t)))
    for _ in range(300 if quick else 3000):
        src = rng.choice(files)[1]
        ps = pieces(src)
        idx = [i for i, (k, _) in enumerate(ps) if k not in ("ws", "com")]
        if not idx:
            continue
        i = rng.choice(idx)
        t = rng.choice(toks)
        if rng.random() < 0.5:
            ps[i] = ("x", " " + t + " ")
        else:
            ps.insert(i, ("x", " " + t + " "))
        implonly.append(("errtoken:corpus", "".join(x for _, x in ps)))
    small = [c for c in implonly if len(c[1]) < 700]
    modelled = rng.sample(small, min(len(small), 100 if quick else 1500))
    return modelled, implonly


def error_token_family(ctx, st, files, quick):
    modelled, implonly = error_token_inputs(ctx.rng, files, quick)
    st["implonly_key"] = "errtoken_implonly"
    st.setdefault("errtoken_implonly", 0)
    try:
        # check_texts runs a list that contains one text > 20 kB text by text: the few huge ones go separately
        small = [c for c in implonly if len(c[1]) <= 20000]
        huge = [c for c in implonly if len(c[1]) > 20000]
        check_texts(ctx, small, st, "errtoken", debug_subset=list(range(len(small))), model_applies=False, batch=100)
        if huge and len(st["viol"]) < 5:
            check_texts(ctx, huge, st, "errtokenbig", debug_subset=list(range(len(huge))), model_applies=False)
    finally:
        st.pop("implonly_key", None)
    if len(st["viol"]) < 5:
        check_texts(ctx, modelled, st, "errtokenm", batch=100)
    st["errtoken"] = len(implonly)
    st["errtoken_modelled"] = len(modelled)
    return len(implonly)


def scanner_family(ctx, st, quick):
    """the enumerated scanner-position texts: ALL on both builds, judged on (T),(P),(E) and debug = release; a sample
    (from ctx.rng) through the model as well ((F),(A): acceptance and first message)"""
    sb = scanner_boundary_inputs(quick)
    st["implonly_key"] = "scanbyte_implonly"
    try:
        check_texts(ctx, sb, st, "scanbyte", debug_subset=list(range(len(sb))), model_applies=False, batch=400)
    finally:
        st.pop("implonly_key", None)
    st["scanbyte"] = len(sb)
    st["scanbyte_modelled"] = 0
    if len(st["viol"]) < 5:
        n = min(len(sb), max(1, int((3000 if quick else 6000) * SCALE)))
        sample = ctx.rng.sample(sb, n)
        before = st["agree_ok"] + st["agree_err"]
        check_texts(ctx, sample, st, "scanbytem", batch=400)
        mbt = multibyte_token_inputs()
        check_texts(ctx, mbt, st, "mbtoken", debug_subset=list(range(len(mbt))), batch=100)
        st["scanbyte_modelled"] = n + len(mbt)
        st["scanbyte"] += len(mbt)
        st["scanbyte_agree"] = st["agree_ok"] + st["agree_err"] - before
    return len(sb)


def build_cases(ctx):
    rng = ctx.rng
    quick = ctx.quick()
    files = corpus_files()
    chosen = files if not quick else rng.sample(files, min(max(1, int(60 * SCALE)), len(files)))
    cases = []
    dist = {}

    def add(fam, text):
        cases.append((fam, text))
        k = fam.split(":")[0]
        dist[k] = dist.get(k, 0) + 1
    for name, src in chosen:
        for p in line_prefixes(src):
            add("lineprefix", p)
        for p in char_prefixes(rng, src, 8 if quick else 10):
            add("charprefix", p)
    nt, nc, nr, ng = (1300, 650, 300, 180) if quick else (12000, 5000, 2500, 2000)
    nt, nc, nr, ng = [max(1, int(x * SCALE)) for x in (nt, nc, nr, ng)]
    for _ in range(nt):
        add("tokmut", token_mutant(rng, rng.choice(files)[1]))
    for _ in range(nc):
        add("charmut", char_mutant(rng, rng.choice(files)[1]))
    for _ in range(nr):
        add("randtok", random_tokens(rng))
    for _ in range(ng):
        p = gen_program(rng)
        add("genprog", p)
        add("genprogmut", token_mutant(rng, p) if rng.random() < 0.7 else char_mutant(rng, p))
    return files, cases, dist


def enough(st):
    """the directed families found what a seeded tree needs: the random families are skipped (fail fast)"""
    return len(st["viol"]) >= 5 or any(v.get("cls") == "scalecrash" and not v.get("not_confirmed_on_cli_stack") for v in st["viol"])


def run(ctx):
    if ctx.replay_only:
        src = ctx.replay_only.get("input", "")
        if ctx.replay_only.get("stack_kib"):
            # a length-scale violation: the same build, the same stack
            im = run_scale(ctx.harness(ctx.replay_only.get("build", "debug")), [src], int(ctx.replay_only["stack_kib"]))[0]
            if im.kind in ("crash", "panic", "timeout"):
                ctx.violation(what="compile %s on a %d KiB stack" % (im.kind, int(ctx.replay_only["stack_kib"])), input=src,
                              expected="a function or a compile error", actual="%s %s" % (im.kind, im.detail))
            ctx.cov.update({"evaluations": 1, "distinct_nontrivial": 0, "rule": "replay of one input", "samples": [src[:400]]})
            return
        st = classify(ctx, src)
        for v in st["viol"][:1]:
            v.pop("cls", None)
            ctx.violation(**v)
        ctx.corr_broken.extend(st["corr"][:1])
        ctx.cov.update({"evaluations": 1, "distinct_nontrivial": 0, "rule": "replay of one input", "samples": [src[:400]]})
        return
    rng = ctx.rng
    quick = ctx.quick()
    st = new_stats()
    files, cases, dist = build_cases(ctx)
    corpus_texts = {s for _, s in files}
    # dedupe, keep order
    seen = set()
    uniq = []
    for fam, s in cases:
        if s not in seen:
            seen.add(s)
            uniq.append((fam, s))
    dbg = sorted(rng.sample(range(len(uniq)), min(len(uniq), 400 if quick else 3000)))
    log("[C03] %d texts (%d distinct), families %s" % (len(cases), len(uniq), dist))
    t0 = time.time()
    scanner_family(ctx, st, quick)
    log("[C03] scanner-position family judged in %.0fs (%d violations)" % (time.time() - t0, len(st["viol"])))
    if not enough(st):
        error_token_family(ctx, st, files, quick)
        log("[C03] error-token family (%d texts) judged at %.0fs (%d violations)" % (st.get("errtoken", 0), time.time() - t0, len(st["viol"])))
    if not enough(st):
        scale_family(ctx, st, quick)
        log("[C03] length-scale family (%d texts) judged at %.0fs (%d violations)" % (st.get("scale_cases", 0), time.time() - t0, len(st["viol"])))
    SL = 2500
    dbgset = set(dbg)
    for a in range(0, len(uniq), SL):
        if enough(st):
            ctx.notes.append("the %d random / corpus texts were not judged: %d violations found by the directed families" % (len(uniq), len(st["viol"])))
            break
        part = uniq[a:a + SL]
        check_texts(ctx, part, st, "main%d" % (a // SL), debug_subset=[i - a for i in range(a, a + len(part)) if i in dbgset])
        if enough(st):
            ctx.notes.append("stopped after %d of %d texts: %d violations found" % (a + len(part), len(uniq), len(st["viol"])))
            break
    log("[C03] main texts judged in %.0fs" % (time.time() - t0))
    # ladders and limits: both builds for all
    lad = ladders(rng, quick)
    lim = limits(rng)
    cs = code_size_inputs()
    if not enough(st):
        check_texts(ctx, lad, st, "ladders", debug_subset=list(range(len(lad))))
    if not enough(st):
        check_texts(ctx, lim, st, "limits", debug_subset=list(range(len(lim))))
    if not enough(st):
        check_texts(ctx, cs, st, "codesize", model_applies=False)
    try:
        bmod, bimpl = boundary_inputs(quick)
    except Exception as e:      # C04's builders are reused; without them the family is skipped, loudly
        bmod, bimpl = [], []
        ctx.broken.append("boundary family not built (tools/props/C04.py builders): %s" % e)
    if not enough(st):
        check_texts(ctx, bmod, st, "boundary", debug_subset=list(range(len(bmod))))
    if not enough(st):
        check_texts(ctx, bimpl, st, "boundaryimpl", debug_subset=list(range(0, len(bimpl), 4)), model_applies=False)
    st["boundary_inputs"] = len(bmod) + len(bimpl)
    log("[C03] boundary family (%d modelled, %d compiler-only) judged at %.0fs" % (len(bmod), len(bimpl), time.time() - t0))
    att = attribute_inputs(rng)
    if not enough(st):
        check_texts(ctx, att, st, "attrs", debug_subset=list(range(0, len(att), 3)))
    st["attr_inputs"] = len(att)
    st["dup_attr_agreements"] = sum(1 for m, _ in st["errclasses"] if m.startswith("Duplicate attribute"))
    st["kw"] = keyword_probes(ctx, st) if not enough(st) else 0
    log("[C03] ladders, limits, code-size inputs judged at %.0fs" % (time.time() - t0))
    # accepted texts must be runnable: no panic of the interpreter (a run that does not finish in time is not judged)
    acc = sorted(s for s in st["accepted"] if s not in corpus_texts and len(s) < 5000)
    sample = rng.sample(acc, min(len(acc), 300 if quick else 3000))
    rel = ctx.harness("release")
    runs = yvlib.run_harness(rel, ["c03 run=1 " + hx(s) for s in sample], case_timeout_ms=CASE_MS)
    run_timeouts = 0
    for s, r in zip(sample, runs):
        p = _parse_batch(r, 1)
        if p is None and r.crashed != "timeout":
            # a crash is believed only when it reproduces twice with the text alone (see run_impl)
            for _attempt in range(2):
                r = yvlib.run_harness(rel, ["c03 run=1 " + hx(s)], case_timeout_ms=CASE_MS, shards=1)[0]
                p = _parse_batch(r, 1)
                if p is not None or r.crashed == "timeout":
                    break
        if p is None:
            if r.crashed == "timeout":
                run_timeouts += 1
            else:
                st["viol"].append(dict(what="an accepted text crashes the interpreter when run", input=s, expected="runnable function",
                                       actual=str(r.crashed), family="run", cls="runcrash"))
        elif " X panic" in p[0].detail:
            st["viol"].append(dict(what="an accepted text panics the interpreter when run", input=s, expected="runnable function",
                                   actual=p[0].detail, family="run", cls="runpanic"))
    nshapes, discr, nprogs = operator_pairs(ctx, st, VALUE_SETS[:2] if quick else VALUE_SETS)
    log("[C03] run sample and operator pairs done at %.0fs" % (time.time() - t0))
    finish(ctx, st, uniq, lad, lim, cs, dist, corpus_texts, len(sample), run_timeouts, nshapes, discr, nprogs, len(dbg) + len(lad) + len(lim) + st.get("scanbyte", 0))


def finish(ctx, st, uniq, lad, lim, cs, dist, corpus_texts, nrun, run_timeouts, nshapes, discr, nprogs, ndebug):
    # shrink the first violation (bounded), keep at most 5
    viol = st["viol"]
    if viol:
        v = viol[0]
        cls = v.get("cls")
        if cls in ("timeout", "crash", "panic", "okerr", "shape") and v.get("family") != "oppair" and len(v["input"]) < 20000:
            budget = [30]

            def fails(cand):
                s2 = classify(ctx, cand)
                return any(x.get("cls") == cls for x in s2["viol"])
            small = shrink_text(v["input"], fails, 30)
            if small != v["input"]:
                s2 = classify(ctx, small)
                same = [x for x in s2["viol"] if x.get("cls") == cls]
                if same:
                    same[0]["shrunk_from"] = v["input"][:2000]
                    viol[0] = same[0]
    for v in viol[:5]:
        v = dict(v)
        v.pop("cls", None)
        if isinstance(v.get("input"), str) and len(v["input"]) > 100000:
            v["input_truncated"] = True
        ctx.violation(**v)
    for c in st["corr"][:8]:
        ctx.corr_broken.append(c)
    if len(st["corr"]) > 8:
        ctx.corr_broken.append("... %d more model/implementation disagreements" % (len(st["corr"]) - 8))
    if st["model_failed"]:
        ctx.corr_broken.append("model evaluation failed for %d texts (coq_eval)" % st["model_failed"])
    if st["fuel"]:
        ctx.broken.append("POutOfFuel verdicts: %d - contradicts C03_parse_fuel_enough (stale .vo or changed default_fuel?), e.g. %r" % (st["fuel"], st["fuel_samples"][:2]))
    novel = [s for s in st["accepted"] if s not in corpus_texts]
    total = len(uniq) + len(lad) + len(lim) + len(cs) + st.get("kw", 0) + st.get("attr_inputs", 0) + st.get("boundary_inputs", 0) + \
        st.get("scanbyte", 0) + st.get("scale_cases", 0) + st.get("errtoken", 0) + st.get("errtoken_modelled", 0)
    # comments of the RULES array vs the kind names (information only: a comment is not code)
    try:
        with open(os.path.join(yvlib.COQ, "gen", "manifest.json")) as fh:
            man = json.load(fh)
        names = [r.split(":")[0] for r in man.get("c03_rules", [])]
        kinds = [k.rstrip("_") for k in man.get("c03_token_kinds", [])]
        if names != kinds:
            ctx.notes.append("the `// Name` comments of the RULES array differ from the TokenKind order: %s" % [
                (a, b) for a, b in zip(names, kinds) if a != b][:5])
    except Exception as e:
        ctx.notes.append("manifest not readable: %s" % e)
    ctx.cov.update({
        "evaluations": total + nrun + nprogs,
        "distinct_nontrivial": len(st["errclasses"]) + len(novel),
        "rule": "non-trivial = a distinct (first-error message text, token kind at the error) combination on which compiler and model agree, "
                "plus a distinct accepted text (compiler Ok, model POk) that differs from every corpus file; both measured",
        "distinct_error_classes": len(st["errclasses"]),
        "distinct_accepted_noncorpus": len(novel),
        "agree_ok": st["agree_ok"], "agree_err": st["agree_err"], "err_with_recovery_messages": st["recovered"],
        "out_of_fuel": st["fuel"], "not_judged_after_many_failures": st["skipped"], "code_size_dependent": st["codesize"], "attr_order_nondeterministic": st["attr_nondet"],
        "scanner_position_texts": st.get("scanbyte", 0), "scanner_position_texts_through_model": st.get("scanbyte_modelled", 0),
        "scanner_position_model_agreements": st.get("scanbyte_agree", 0),
        "length_scale_texts": st.get("scale_cases", 0), "length_scale_closed_form_agreements": st.get("scale_closed_form", 0),
        "length_scale_stack_kib": STACK_KIB, "length_scale_debug_timeouts_not_judged": st.get("scale_debug_timeouts_not_judged", 0),
        "error_token_texts": st.get("errtoken", 0), "error_token_texts_through_model": st.get("errtoken_modelled", 0),
        "texts_by_family": dist, "keyword_probes": st.get("kw", 0), "attribute_inputs": st.get("attr_inputs", 0), "boundary_inputs": st.get("boundary_inputs", 0),
        "duplicate_attribute_error_classes": st.get("dup_attr_agreements", 0), "ladders": len(lad), "limits": len(lim), "code_size_inputs": len(cs),
        "debug_build_texts": ndebug, "run_sample": nrun, "run_timeouts_not_judged": run_timeouts,
        "operator_shapes": nshapes, "operator_shapes_discriminated": discr, "operator_programs": nprogs,
        "traces_validated_against_impl": st["agree_ok"] + st["agree_err"],
        "samples": [uniq[len(uniq) // 3][1][:300], uniq[-1][1][:300], sorted(st["errclasses"])[:12]],
    })


MODEL_KEYWORDS = ["as", "break", "catch", "class", "continue", "else", "false", "finally", "for", "fn", "if", "in", "import", "nil",
                  "return", "Self", "self", "super", "throw", "true", "try", "var", "while"]


def keyword_probes(ctx, st):  # noqa: E302
    """`var <word> = 1;` for every keyword of the current source and of the model: a word that is a keyword for one and an
    identifier for the other gives a concrete program on which compiler and language definition differ"""
    words = list(MODEL_KEYWORDS)
    try:
        with open(os.path.join(yvlib.COQ, "gen", "manifest.json")) as fh:
            for k in json.load(fh).get("c03_keywords", []):
                p, _, r, _ = k.split("|")
                if "?" not in p and "_" not in p and p + r not in words:
                    words.append(p + r)
    except Exception as e:
        ctx.notes.append("manifest not readable: %s" % e)
    cases = [("kwprobe", "var %s = 1;" % w) for w in words] + [("kwprobe", "%s;" % w) for w in words]
    check_texts(ctx, cases, st, "kw")
    return len(cases)


def search(ctx):
    """obligations / correspondences broken: look for a program whose parse by the real compiler differs from the
    language as defined (rules_ref, keyword table): keyword probes, all operator pairs with every value set, then the
    thorough generators"""
    st = new_stats()
    # directed first: the FULL enumeration of the scanner-position family (a changed slice / position row of
    # C03_scanner_positions shows up here as a panic or as a debug/release/model disagreement)
    nsb = scanner_family(ctx, st, False)
    ctx.notes.append("search: %d scanner-position texts (full enumeration), %d through the model" % (nsb, st.get("scanbyte_modelled", 0)))
    # a changed call cycle (C03_host_recursion): the length-scale family at the thorough sizes, small stack
    try:
        with open(os.path.join(yvlib.COQ, "gen", "manifest.json")) as fh:
            rec = json.load(fh).get("c03_host_recursion")
    except Exception:
        rec = None
    if rec != HOST_RECURSION_REF and len(st["viol"]) < 5:
        n = scale_family(ctx, st, False)
        ctx.notes.append("search: call cycles of scanner.rs / compiler.rs changed (%s): %d length-scale texts at the thorough sizes" % (rec, n))
    nk = keyword_probes(ctx, st)
    nshapes, discr, nprogs = operator_pairs(ctx, st, VALUE_SETS)
    for v in st["viol"][:5]:
        v.pop("cls", None)
        ctx.violation(**v)
    for c in st["corr"][:5]:
        if c not in ctx.corr_broken:
            ctx.corr_broken.append(c)
    ctx.notes.append("search: %d keyword probes, %d operator shapes, %d discriminated, %d programs" % (nk, nshapes, discr, nprogs))
    if ctx.violations or st["corr"] or not ctx.quick():
        return
    old = ctx.tier
    ctx.tier = "thorough"
    try:
        ctx.rng.seed(ctx.seed + 1)
        run(ctx)
    finally:
        ctx.tier = old
