"""C04 - accepted programs compile to code the interpreter can run blindly.

Theorems (coq/props/C04.v over Bytecode/Skeleton/Verifier/VerifierProofs/VerifierRun*.v): soundness of the
bytecode verifier (a checked annotation is an inductive invariant of the per-frame shape semantics: no
fetch outside the code, every constant/local/upvalue operand exists, one (height, handlers) shape per pc
when `unique`), operand widths, opcode numbering tie, jump-limit side condition (true since /repo 927c3c9; its refutation for the old constant is kept).

Tie = translation validation on EVERY run: the REAL compiler (harness `compile`, `corefns`) is run on the test
scripts, core.yl's methods, generated programs and a limit family sitting exactly on every encoding bound;
what it returns is re-encoded as a Gallina wire term and judged by the PROVED verifier under vm_compute
(`YV.VerifierWire.run_report_w` = `YV.VerifierRun.run_report_program` on the decoded program).
Oracle: compiler Ok => verifier OK with unique heights; one past a limit => compiler Err.  A flagged function is classified by (reason, instruction shape) into the known defect
classes of notes/C04-findings.json; anything else is a VIOLATION with the (shrunk) source as replay.
Round 7: family `operand_alias` (every operand form x every opcode number x every kind of function: an operand byte that
looks like an opcode in front of the epilogue and of every one-byte follower; verified AND run), regenerated table
gen/CodeReads.v (the compiler never reads the bytes it has emitted; the users of JUMP_SIZE_MAX agree), and the tie to the
Gallina model of the whole compiler (FullCompile.v: byte-identical dumps, `fullcompile_tie`)."""
import json
import os
import re

import yvlib
from yvlib import hx, log

LEVEL = "proof"
TRUSTED = [
    "Coq 8.16.1 kernel (coqc), vm_compute; no native_compute, no extraction",
    "translator/translate.py (constants of common.rs, OpCode enum + arg_sizes of chunk.rs, dispatch arms of vm.rs)",
    "the shape semantics Skeleton.v is a hand transcription of vm.rs (per-opcode stack effect, operand layout); "
    "its opcode numbering/names are re-tied to the regenerated enum on every run",
    "harness `yv` commands compile/corefns (dump of ObjFunction public fields), tools/props/C04.py "
    "(BFS renumbering, wire encoding, classification of flagged functions by a Python disassembler)",
    "translator/translate_c04.py (token-level tables of compiler.rs / vm.rs: add_local sites, operand arithmetic, add_constant sites, "
    "uses of chunk.code, comparisons with JUMP_SIZE_MAX)",
    "FullCompile.v is a hand transcription of compiler.rs; it is re-tied to the real compiler by byte-identical dumps on every run "
    "(tools/fullcompile_corr.py); its theorems restated in props/C04.v are about the MODEL",
]
ASSUMPTIONS = [
    "values are abstracted to shapes: kind-dependent panics (BuildString on non-strings, GetSuper on a non-class) are out of scope",
    "per-frame view: return_ip / handling_exception are treated as frame-local (cross-frame leaks are C08's)",
    "heights are relative to slot_base; the absolute bound (maxh * FRAMES_MAX <= STACK_MAX) is reported, not required",
]

FINDINGS_PATH = os.path.join(yvlib.VERIF, "notes", "C04-findings.json")

# ------------------------------------------------------------------------------------------------
# opcode table (python side: ONLY for classification/diagnostics; the verdict comes from Coq)

OPS = ["Constant", "Nil", "True", "False", "Pop", "CopyTop", "GetLocal", "SetLocal", "GetGlobal", "DefineGlobal",
       "SetGlobal", "GetUpvalue", "SetUpvalue", "GetProperty", "SetProperty", "GetClass", "GetSuper", "Equal",
       "Greater", "Less", "Add", "Subtract", "Multiply", "Divide", "BitwiseAnd", "BitwiseOr", "BitwiseXor", "Modulo",
       "LogicalNot", "BitwiseNot", "BitShiftLeft", "BitShiftRight", "Negate", "GetItem", "SetItem", "FormatString",
       "BuildHashMap", "BuildRange", "BuildString", "BuildTuple", "BuildVec", "IterNext", "Jump", "JumpIfFalse",
       "JumpIfStopIter", "Loop", "JumpFinally", "EndFinally", "PushExcHandler", "PopExcHandler", "Throw", "Call",
       "Invoke", "Construct", "SuperInvoke", "Closure", "CloseUpvalue", "Return", "DeclareClass", "DefineClass",
       "Inherit", "Method", "StaticMethod", "StartImport", "FinishImport"]
OPN = {n: i for i, n in enumerate(OPS)}
L16 = {"Constant", "GetGlobal", "DefineGlobal", "SetGlobal", "GetProperty", "SetProperty", "GetSuper", "Jump",
       "JumpIfFalse", "JumpIfStopIter", "Loop", "DeclareClass", "Method", "StaticMethod", "StartImport"}
L8 = {"GetLocal", "SetLocal", "GetUpvalue", "SetUpvalue", "BuildHashMap", "BuildString", "BuildTuple", "BuildVec",
      "Call", "Construct"}


class Fn:
    __slots__ = ("idx", "arity", "upv", "name", "code", "consts", "lines")

    def __init__(self, idx, arity, upv, name, code):
        self.idx, self.arity, self.upv, self.name, self.code = idx, arity, upv, name, code
        self.consts, self.lines = [], []


def parse_trees(lines):
    """F/C/LN lines of one record -> list of trees (each a list of Fn in the harness' depth-first numbering).
    A `P` line starts a new tree (corefns); `compile` yields one tree."""
    trees, cur, labels = [], None, []
    for l in lines:
        f = l.split(" ")
        if f[0] == "P":
            cur = []
            trees.append(cur)
            labels.append("%s.%s" % (yvlib.unhx(f[1]).decode(), yvlib.unhx(f[2]).decode()))
        elif f[0] == "F":
            if cur is None:
                cur = []
                trees.append(cur)
                labels.append("")
            fn = Fn(int(f[1]), int(f[2]), int(f[3]), "" if f[4] == "-" else yvlib.unhx(f[4]).decode("utf-8", "replace"),
                    b"" if f[5] == "-" else bytes.fromhex(f[5]))
            while len(cur) <= fn.idx:
                cur.append(None)
            cur[fn.idx] = fn
        elif f[0] == "C":
            cur[int(f[1])].consts = [c for c in f[2:] if c]
        elif f[0] == "LN":
            cur[int(f[1])].lines = [x for x in (f[2].split(",") if len(f) > 2 else []) if x != ""]
    return trees, labels


def bfs_order(tree):
    """depth-first numbered tree -> (list of Fn in breadth-first order, map dfs idx -> bfs idx)"""
    ren = {0: 0}
    order = [0]
    q = 0
    while q < len(order):
        fn = tree[order[q]]
        q += 1
        for c in fn.consts:
            if c[0] == "f":
                j = int(c[1:])
                if j not in ren:
                    ren[j] = len(order)
                    order.append(j)
    return [tree[i] for i in order], ren


def disasm(fn, tree_bfs=None, upv_of=None):
    """-> list of (pc, name, a, b, nx); stops at the first undecodable byte"""
    code = fn.code
    out = []
    pc = 0
    n = len(code)
    while pc < n:
        b = code[pc]
        if b >= len(OPS):
            out.append((pc, "?%d" % b, 0, 0, n))
            break
        nm = OPS[b]
        a = bb = 0
        if nm in L16:
            if pc + 3 > n:
                break
            a = code[pc + 1] | (code[pc + 2] << 8)
            nx = pc + 3
        elif nm in L8:
            if pc + 2 > n:
                break
            a = code[pc + 1]
            nx = pc + 2
        elif nm == "PushExcHandler":
            if pc + 5 > n:
                break
            a = code[pc + 1] | (code[pc + 2] << 8)
            bb = code[pc + 3] | (code[pc + 4] << 8)
            nx = pc + 5
        elif nm in ("Invoke", "SuperInvoke"):
            if pc + 4 > n:
                break
            a = code[pc + 1] | (code[pc + 2] << 8)
            bb = code[pc + 3]
            nx = pc + 4
        elif nm == "Closure":
            if pc + 3 > n:
                break
            a = code[pc + 1] | (code[pc + 2] << 8)
            k = 0
            if upv_of is not None and a < len(fn.consts) and fn.consts[a][0] == "f":
                k = upv_of(int(fn.consts[a][1:]))
            nx = pc + 3 + 2 * k
        else:
            nx = pc + 1
        out.append((pc, nm, a, bb, nx))
        pc = nx
    return out


def listing(fn, tree):
    ins = disasm(fn, upv_of=lambda j: tree[j].upv if j < len(tree) and tree[j] else 0)
    return ins


# ------------------------------------------------------------------------------------------------
# classification of a flagged function into the known defect classes (narrow, syntactic)

def try_regions(ins):
    """-> list of dicts {push, body_start, catch, fin, has_catch, has_finally, end} from PushExcHandler operands"""
    regs = []
    by_pc = {i[0]: k for k, i in enumerate(ins)}
    for (pc, nm, a, b, nx) in ins:
        if nm == "PushExcHandler":
            catch = nx + a
            fin = catch + b
            regs.append({"push": pc, "body": nx, "catch": catch, "fin": fin, "has_catch": b != 0,
                         "catch_is_pop": catch in by_pc and ins[by_pc[catch]][1] == "PopExcHandler"})
    # end of a finally region = the matching EndFinally (first EndFinally at/after fin not claimed by an inner region)
    for r in regs:
        r["end"] = None
        depth = 0
        for (pc, nm, a, b, nx) in ins:
            if pc < r["fin"]:
                continue
            if nm == "PushExcHandler":
                depth += 1
            elif nm == "EndFinally":
                if depth == 0:
                    r["end"] = pc
                    break
                depth -= 1
        # without a finally clause `fin` is simply the code after the statement: whether the EndFinally found belongs to
        # THIS handler cannot be told from the bytes (and does not matter to the VM); `end` is a conservative guess
    return regs


def loops_of(ins):
    """-> list of (start, loop_pc, exit) for every backward Loop"""
    res = []
    for (pc, nm, a, b, nx) in ins:
        if nm == "Loop":
            res.append((nx - a, pc, nx))
    return res



# ------------------------------------------------------------------------------------------------
JUMPS = ("Jump", "JumpIfFalse", "JumpIfStopIter")


def jump_targets(ins):
    t = set()
    for (q, nm, a, b, nx) in ins:
        if nm in JUMPS:
            t.add(nx + a)
        elif nm == "Loop":
            t.add(nx - a)
        elif nm == "PushExcHandler":
            t.add(nx + a)
            t.add(nx + a + b)
    return t


# ------------------------------------------------------------------------------------------------
# syntactic recognition of the classes that stay open (on the possibly repaired bytes)

def parse_verdict(s):
    """'OK maxh=..' | 'NONUNIQUE pc=.. .. pcs=a,b hs=..' | 'REJECT pc=.. reason=.. lenient=(..)' -> dict"""
    d = {"raw": s}
    main = s.split(" lenient=(")[0]
    f = main.split(" ")
    d["kind"] = f[0]
    for kv in f[1:]:
        if "=" in kv:
            k, v = kv.split("=", 1)
            d[k] = v
    for k in ("pc", "maxh", "mh", "mc", "st", "n"):
        if k in d:
            d[k] = int(d[k])
    if "pcs" in d:
        d["pcs"] = sorted(int(x) for x in d["pcs"].split(",") if x)
        d["pc"] = d["pcs"][0]
    if " lenient=(" in s:
        d["lenient"] = s.split(" lenient=(", 1)[1][:-1]
    return d


def residual_class(code, fn, tree, v):
    """OPEN known class (names of /verif/known_findings.json, recorded there under C08 and - for the shape
    consequences seen here - under C04) of verdict v for the function bytes `code`, or None.
    Every class is (reason set, instruction shape); all of them need a try statement with a `finally` clause or a
    `return` inside a try statement in the flagged function."""
    f2 = Fn(fn.idx, fn.arity, fn.upv, fn.name, code)
    f2.consts = fn.consts
    ins = listing(f2, tree)
    by_pc = {i[0]: k for k, i in enumerate(ins)}
    regs = try_regions(ins)
    loops = loops_of(ins)
    kind, pc, reason = v["kind"], v.get("pc", 0), v.get("reason")
    at = ins[by_pc[pc]][1] if pc in by_pc else None
    loop_reasons = ("TooManyStates", "FuelExhausted")

    def bodies_at(q):
        return [r for r in regs if r["body"] <= q < r["catch"] - 4]

    jfs = [(q, bodies_at(q)) for (q, nm, a, b, nx) in ins if nm == "JumpFinally"]
    finally_only = [r for r in regs if not r["has_catch"]]
    has_endfinally = any(i[1] == "EndFinally" for i in ins)
    # handling_exception_global: EndFinally reached on the normal path may rethrow (one flag per VM): the rethrow
    # edge pops a non-exception and unwinds to an enclosing handler of the same frame
    if at == "EndFinally" and reason in ("HandlerAboveStack", "StackUnderflow") and len(regs) >= 2:
        return "handling_exception_global"
    # return_in_try_catch_no_finally: JumpFinally whose innermost try has a catch clause: its target is the code
    # after the statement, reached with a pending return (falls through; next Return / EndFinally misbehaves)
    if any(bs and max(bs, key=lambda r: r["push"])["has_catch"] for q, bs in jfs) and (
            kind == "NONUNIQUE" or reason in ("ReturnPending", "ReturnWithHandlers", "HandlerAboveStack") + loop_reasons):
        return "return_in_try_catch_no_finally"
    # early_exit_skips_finally: return through two nested tries (only one level of JumpFinally), or a return inside
    # a finally block reached with a pending return
    if reason == "ReturnPending" and at == "Return" and any(
            r["fin"] <= pc and any(r["body"] <= q < r["catch"] for q, _ in jfs) for r in regs):
        return "early_exit_skips_finally"
    if any(len(bs) >= 2 for q, bs in jfs) and (
            kind == "NONUNIQUE" or reason in ("ReturnWithHandlers", "HandlerAboveStack", "ReturnPending") + loop_reasons):
        return "early_exit_skips_finally"
    # early exit (continue / break) from a finally block of a try whose body returns: the pending return survives
    # and is resumed by a later EndFinally
    for r in regs:
        if r["end"] is not None and any(r["body"] <= q < r["catch"] for q, _ in jfs):
            for (q, nm, a, b, nx) in ins:
                if r["fin"] <= q <= r["end"] and ((nm == "Loop" and nx - a <= r["push"]) or (nm == "Jump" and nx + a > r["end"])):
                    if kind == "NONUNIQUE" or reason in ("ReturnWithHandlers", "HandlerAboveStack", "ReturnPending") + loop_reasons:
                        return "early_exit_skips_finally"
    # finally_local: a finally region without catch is entered at h (normal) and h+1 (exception)
    if finally_only and has_endfinally:
        first = min(r["fin"] for r in finally_only)
        in_loop = any(st <= r["push"] < lp for r in finally_only for (st, lp, ex) in loops)
        if kind == "NONUNIQUE" and (pc >= first or in_loop):
            return "finally_local"
        if reason in loop_reasons and in_loop:
            return "finally_local"
        # (PopCaptured: on the h+1 path the scope-end Pop / CloseUpvalue sequence is applied one slot off)
        # (in_loop: a continue / fall-through at h+1 carries the shift to the whole enclosing loop)
        if reason in ("StackUnderflow", "HandlerAboveStack", "ReturnWithHandlers", "PopCaptured") and (pc >= first or in_loop):
            return "finally_local"
    # umbrella rule for interactions of the open classes above (documented in notes/C04.md): the function has a
    # finally clause or a return inside try, and the verdict is about heights / handlers / the pending return -
    # never about decoding, constants, locals, upvalues, jump targets, captured slots or parameters
    if (has_endfinally or jfs) and (kind == "NONUNIQUE" or reason in ("ReturnPending", "ReturnWithHandlers", "HandlerAboveStack") + loop_reasons):
        return "early_exit_skips_finally" if jfs else "finally_local"
    return None


# ------------------------------------------------------------------------------------------------
# pipeline: sources -> real compiler -> wire -> proved verifier -> classification

def rle_consts(fn, ren):
    out = []
    prev, cnt = None, 0
    for c in fn.consts:
        k = c[0] if c[0] in "snf" else "o"
        if k == "f":
            if prev:
                out.append(prev + (str(cnt) if cnt > 1 else ""))
                prev, cnt = None, 0
            out.append("f%d." % ren[int(c[1:])])
        elif k == prev:
            cnt += 1
        else:
            if prev:
                out.append(prev + (str(cnt) if cnt > 1 else ""))
            prev, cnt = k, 1
    if prev:
        out.append(prev + (str(cnt) if cnt > 1 else ""))
    return "".join(out)


def wire_with(tree, replace=None):
    """Gallina term of type `list YV.VerifierWire.wfn` (breadth-first numbering; code as primitive int literals of
    7 bytes each) for the function tree; `replace` maps a depth-first index to other code bytes"""
    fns, ren = bfs_order(tree)
    parts = []
    for fn in fns:
        code = replace.get(fn.idx, fn.code) if replace else fn.code
        pad = code + bytes((-len(code)) % 7)
        ints = ";".join("0x" + pad[i:i + 7].hex() for i in range(0, len(pad), 7))
        parts.append('(%d%%N,%d%%N,%d%%N,[%s]%%uint63,"%s"%%string)' % (fn.arity, fn.upv, len(code), ints, rle_consts(fn, ren)))
    return "[" + ";".join(parts) + "]", fns, ren


def echo_of(tree):
    """what YV.VerifierWire.echo_w must print for this tree (self-test of the wire format)"""
    fns, ren = bfs_order(tree)
    return "|".join("%d,%d:%s:%s" % (fn.arity, fn.upv, " ".join(str(b) for b in fn.code),
                                     "".join(("f%d." % ren[int(c[1:])]) if c[0] == "f" else (c[0] if c[0] in "sn" else "o")
                                             for c in fn.consts)) for fn in fns)


def load_findings():
    try:
        with open(FINDINGS_PATH) as fh:
            return {e["class"]: e for e in json.load(fh) if e.get("property") == "C04" and not str(e.get("status", "")).startswith("FIXED")}
    except Exception:
        return {}


IMPORTS = ["YV:VerifierRun", "YV:VerifierWire"]
PREAMBLE = "From Coq Require Import Uint63.\n"


def coq_reports(terms_sizes, tag):
    """terms_sizes: list of (term, size in bytes).  Big terms get a coqc process each, the small ones are spread
    evenly; order preserved."""
    from concurrent.futures import ThreadPoolExecutor
    big = [i for i, (_, sz) in enumerate(terms_sizes) if sz >= 20000]
    small = [i for i, (_, sz) in enumerate(terms_sizes) if sz < 20000]
    out = [None] * len(terms_sizes)

    def run_big():
        return yvlib.coq_eval(IMPORTS, [terms_sizes[i][0] for i in big], shard_size=1, tag=tag + "_big", preamble=PREAMBLE)

    def run_small():
        n = len(small)
        shard = max(1, min(150, (n + yvlib.NPROC - 1) // yvlib.NPROC))
        return yvlib.coq_eval(IMPORTS, [terms_sizes[i][0] for i in small], shard_size=shard, tag=tag + "_small", preamble=PREAMBLE)

    with ThreadPoolExecutor(max_workers=2) as ex:
        fb = ex.submit(run_big)
        fs = ex.submit(run_small)
        for i, v in zip(big, fb.result()):
            out[i] = v
        for i, v in zip(small, fs.result()):
            out[i] = v
    return out


class Item:
    """one compiled function tree with its provenance"""
    __slots__ = ("label", "src", "tree", "group", "fns", "ren", "head", "verdicts", "flags", "meta")

    def __init__(self, label, src, tree, group, meta=None):
        self.label, self.src, self.tree, self.group, self.meta = label, src, tree, group, meta
        self.fns = self.ren = self.head = None
        self.verdicts = []
        self.flags = []     # (bfs index, Fn, verdict dict, classes tuple | None)


def compile_sources(binary, sources, timeout_ms=60000):
    """-> list of ('ok', tree) | ('err', messages) | ('crash', why)"""
    recs = yvlib.run_harness(binary, ["compile " + hx(s) for s in sources], case_timeout_ms=timeout_ms)
    res = []
    for r in recs:
        rr = r.tagged("R")
        if r.crashed:
            res.append(("crash", r.crashed))
        elif rr and rr[0][0] == "ok":
            trees, _ = parse_trees(r.lines)
            res.append(("ok", trees[0]))
        elif rr and rr[0][0] == "err":
            res.append(("err", r.messages))
        elif rr and rr[0][0] == "panic":
            res.append(("crash", "panic " + r.result[1][:200]))
        else:
            res.append(("crash", "no result"))
    return res


def line_table_ok(tree):
    return all(fn is None or len(fn.lines) == len(fn.code) for fn in tree)


def judge(items, tag):
    """runs the proved verifier on every item, classifies every flagged function; fills item fields"""
    terms = []
    for it in items:
        w, it.fns, it.ren = wire_with(it.tree)
        terms.append(("run_report_w %s" % w, sum(len(f.code) for f in it.fns)))
    vals = coq_reports(terms, tag)
    for it, v in zip(items, vals):
        it.flags = []
        if v is None or v == "PARSE-ERROR" or ";" not in v:
            it.head = {"ALL": "?", "error": v}
            continue
        head, body = v.split(";", 1)
        it.head = dict(kv.split("=") for kv in head.split(" "))
        it.verdicts = [parse_verdict(x) for x in body.split("|")]
        for k, (fn, vd) in enumerate(zip(it.fns, it.verdicts)):
            if vd["kind"] != "OK":
                r = residual_class(fn.code, fn, it.tree, vd)
                it.flags.append((k, fn, vd, (r,) if r else None))
    return items


def stmt_ranges(lines):
    """line ranges [i, j] that form a brace-balanced statement (approximation good enough for shrinking)"""
    res = []
    for i in range(len(lines)):
        d = 0
        for j in range(i, len(lines)):
            l = re.sub(r'"(?:[^"\\]|\\.)*"', '""', lines[j]) if "${" not in lines[j] else re.sub(r'"[^"]*"', '""', lines[j])
            d += l.count("{") - l.count("}")
            if d < 0:
                break
            if d == 0:
                if lines[j].rstrip().endswith((";", "}")):
                    res.append((i, j))
                break
    return res


def shrink_source(src, fails, budget=30):
    lines = src.split("\n")
    changed = True
    while changed and budget > 0:
        changed = False
        for (i, j) in sorted(stmt_ranges(lines), key=lambda r: r[0] - r[1]):
            if budget <= 0:
                break
            cand = lines[:i] + lines[j + 1:]
            if not cand:
                continue
            budget -= 1
            if fails("\n".join(cand)):
                lines = cand
                changed = True
                break
    return "\n".join(lines)


# ------------------------------------------------------------------------------------------------
# limit family: programs sized to sit exactly on each encoding bound

def _first(tree, name, field="a", fn_idx=0, nth=0):
    ins = listing(tree[fn_idx], tree)
    hits = [i for i in ins if i[1] == name]
    if len(hits) <= nth:
        return None
    return hits[nth][2] if field == "a" else hits[nth][3]


def _stmts(na, nb):
    return "nil;" * na + "-nil;" * nb          # 2 bytes / 3 bytes each


def _expr(na, nb):
    return ("!" * nb) + "nil" + " == nil" * na   # 2 bytes per '== nil', 1 byte per '!'


JUMP_FAMILIES = [
    # name, builder(na, nb), probe(tree) -> measured operand
    ("if_then(JumpIfFalse)", lambda a, b: "if true {" + _stmts(a, b) + "}", lambda t: _first(t, "JumpIfFalse")),
    ("if_else(Jump)", lambda a, b: "if true {} else {" + _stmts(a, b) + "}", lambda t: _first(t, "Jump")),
    ("and(JumpIfFalse)", lambda a, b: "var x = true && " + _expr(a, b) + ";", lambda t: _first(t, "JumpIfFalse")),
    ("or(Jump)", lambda a, b: "var x = false || " + _expr(a, b) + ";", lambda t: _first(t, "Jump")),
    ("while_back(Loop)", lambda a, b: "while false {" + _stmts(a, b) + "}", lambda t: _first(t, "Loop")),
    ("for_back(Loop)", lambda a, b: "for i in 0..1 {" + _stmts(a, b) + "}", lambda t: _first(t, "Loop")),
    ("fn_while_back(Loop)", lambda a, b: "fn f(p) { var l = p; while l {" + _stmts(a, b) + "} return l; }",
     lambda t: _first(t, "Loop", fn_idx=1)),
    ("try_body(PushExcHandler.catch)", lambda a, b: "try {" + _stmts(a, b) + "} catch e {}", lambda t: _first(t, "PushExcHandler")),
    ("catch_block(PushExcHandler.finally)", lambda a, b: "try {} catch e {" + _stmts(a, b) + "}",
     lambda t: _first(t, "PushExcHandler", "b")),
    ("try_finally_body(PushExcHandler.catch)", lambda a, b: "try {" + _stmts(a, b) + "} finally {}",
     lambda t: _first(t, "PushExcHandler")),
]
JUMP_SIZES = [65534, 65535, 65536, 65537]
JUMP_LIMIT = 65535      # what a u16 operand can carry
# the exit jump of a while loop is always 4 bytes shorter than the Loop of the same statement (condition `false`:
# 1 byte): the largest exit jump that can compile is 65531
WHILE_EXIT = ("while_exit(JumpIfFalse;Loop=+4)", lambda a, b: "while false {" + _stmts(a, b) + "}",
              lambda t: _first(t, "JumpIfFalse"), 65531, [65530, 65531, 65532, 65533])


def _names(p, n):
    return ["%s%d" % (p, i) for i in range(n)]


def _captures(n):
    na = min(n, 200)
    nb = n - na
    a, b = _names("a", 200), _names("b", max(nb, 1))
    used = a[:na] + b[:nb]
    last = used[-1] if used else "a0"
    # the body also WRITES the last captured variable (SetUpvalue / compound assignment with the highest index)
    return ("fn o1() { %s fn o2() { %s fn inner() { var s = %s; %s = s; %s += 1; return s; } return inner; } return o2; }" % (
        "".join("var %s = 1;" % x for x in a), "".join("var %s = 2;" % x for x in b), " + ".join(used) if used else "0", last, last))


COUNT_FAMILIES = [
    # name, limit (largest count the encoding can carry), builder(n), sizes
    ("call_args", 255, lambda n: "fn f() {} f(%s);" % ", ".join(["nil"] * n)),
    ("invoke_args", 255, lambda n: "var o = 1; o.m(%s);" % ", ".join(["nil"] * n)),
    ("vec_elements", 255, lambda n: "while false { var v = [%s]; }" % ", ".join(["nil"] * n)),
    ("tuple_elements", 255, lambda n: "while false { var t = (%s); }" % ", ".join(["nil"] * n)),
    ("map_entries", 255, lambda n: "while false { var m = {%s}; }" % ", ".join("%d: nil" % i for i in range(n))),
    ("interpolation_parts", 255, lambda n: 'while false { var s = "%s"; }' % ("${1}" * n)),
    ("interpolation_parts_text", 255, lambda n: 'while false { var s = "%s"; }' % ("${1}x" * (n // 2) + ("${1}" if n % 2 else ""))),
    ("parameters", 255, lambda n: "fn f(%s) { return p0; }" % ", ".join(_names("p", n))),
    ("lambda_parameters", 255, lambda n: "var f = |%s| p0;" % ", ".join(_names("p", n))),
    ("method_parameters", 255, lambda n: "class K { fn m(self, %s) { return p0; } }" % ", ".join(_names("p", n))),
    ("locals", 255, lambda n: "fn f() { %s l%d = l0; l%d += 1; l%d -= l%d; return l%d; }" % (
        "".join("var %s = nil;" % x for x in _names("l", n)), n - 1, n - 1, n - 2, n - 1, n - 1)),
    # every instruction that names a slot, at the top of the slot range: n locals, then a closure capturing the two
    # highest (Closure descriptors, Get/SetUpvalue), a for loop whose variable and iterator sit above them
    # (SetLocal of for_statement), break / continue closing captured loop-body locals (CloseUpvalue)
    ("high_slots", 249, lambda n: "fn f(p) { %s l%d = p; l%d += 1; var g = || { l%d = l%d + 1; l%d += 2; return l%d; }; "
                                  "for i in 0..3 { var c = i; var h = || c; l%d = i; if i == 1 { continue; } if i == 2 { break; } } return g; }" % (
        "".join("var %s = nil;" % x for x in _names("l", n)), n - 1, n - 1, n - 1, n - 1, n - 2, n - 1, n - 1)),
    ("block_locals_in_loop", 255, lambda n: "fn f() { while false { %s } }" % "".join("var %s = nil;" % x for x in _names("l", n))),
    ("captured_variables", 256, _captures),
]
COUNT_DELTAS = [0, 1, 2]
CONST_FAMILY = ("constants", 65536, lambda n: "".join("%d;" % i for i in range(n)), [4096, 65535, 65536, 65537])


def limit_family(binary, quick=True):
    """-> (rows, items): rows = table of dicts; items = compiled trees to be verified (label = row key)"""
    rows, sources = [], []
    # calibration of the jump families: operand = base + ua*na + ub*nb
    cal_src = []
    for name, build, probe in JUMP_FAMILIES + [WHILE_EXIT[:3]]:
        cal_src += [build(10, 0), build(11, 0), build(10, 1)]
    if os.environ.get("C04_SKIP_JUMP_FAMILIES") == "1":
        cal_src = []
    cal = compile_sources(binary, cal_src)
    plans = []
    fams = [(n_, b_, p_, JUMP_LIMIT, JUMP_SIZES) for (n_, b_, p_) in JUMP_FAMILIES] + [WHILE_EXIT]
    if os.environ.get("C04_SKIP_JUMP_FAMILIES") == "1":      # developer knob (mutation experiments only)
        fams = []
    for k, (name, build, probe, jlimit, jsizes) in enumerate(fams):
        c = cal[3 * k:3 * k + 3]
        if any(x[0] != "ok" for x in c):
            rows.append({"family": name, "error": "calibration program did not compile"})
            continue
        d0, d1, d2 = [probe(x[1]) for x in c]
        if None in (d0, d1, d2):
            rows.append({"family": name, "error": "calibration: instruction not found"})
            continue
        ua, ub = d1 - d0, d2 - d0
        base = d0 - 10 * ua
        for size in jsizes:
            rest = size - base
            nb = 0
            while nb < 4 and (rest - ub * nb) % ua != 0:
                nb += 1
            na = (rest - ub * nb) // ua
            plans.append(("jump", name, jlimit, size, build(na, nb), probe))
    for name, limit, build in COUNT_FAMILIES:
        for d in COUNT_DELTAS:
            plans.append(("count", name, limit, limit + d, build(limit + d), None))
    name, limit, build, sizes = CONST_FAMILY
    for n in sizes:
        plans.append(("count", name, limit, n, build(n), None))
    res = compile_sources(binary, [p[4] for p in plans], timeout_ms=120000)
    items = []
    for (kind, name, limit, size, src, probe), r in zip(plans, res):
        row = {"family": name, "bound": limit, "size": size, "expected_compile": "ok" if size <= limit else "err",
               "compile": r[0], "verifier": "-", "src_len": len(src)}
        if r[0] == "err":
            row["message"] = (r[1][0] if r[1] else "")[:120]
        elif r[0] == "crash":
            row["message"] = str(r[1])[:120]
        else:
            tree = r[1]
            if probe:
                row["operand"] = probe(tree)
            row["line_table_ok"] = line_table_ok(tree)
            it = Item("limit:%s:%d" % (name, size), src if len(src) < 4000 else None, tree, "limit", row)
            if name == "constants" and quick and size > 20000:
                # const_at is a list lookup: 65536 constants cost ~n^2/2 steps under vm_compute (minutes).  Quick tier:
                # operand range checked here (diagnostic), the proved verifier runs on it in the thorough tier.
                fn0 = tree[0]
                bad = [i for i in listing(fn0, tree) if i[1] in L16 and i[1] not in JUMPS + ("Loop",) and i[2] >= len(fn0.consts)]
                row["verifier"] = "thorough-tier-only (python: %s constants, operands in range: %s)" % (len(fn0.consts), not bad)
                row["python_operands_ok"] = not bad
            else:
                items.append(it)
        rows.append(row)
    return rows, items, {(p[1], p[3]): p[4] for p in plans}


# ------------------------------------------------------------------------------------------------
# random program generator over the whole statement grammar (size bounded; every choice from ctx.rng)

class Var:
    __slots__ = ("name", "fdepth", "is_global")

    def __init__(self, name, fdepth, is_global):
        self.name, self.fdepth, self.is_global = name, fdepth, is_global


class Gen:
    """profile 'clean': the whole grammar minus the constructs with OPEN known defects (a `finally` clause; a
    `return` anywhere inside a try statement) - every function must verify;
    profile 'full': the whole grammar (flagged functions must fall into the open classes)."""

    BINOPS = ["+", "-", "*", "/", "%", "==", "!=", "<", "<=", ">", ">=", "&", "|", "^", "<<", ">>", "&&", "||"]

    def __init__(self, rng, profile="clean", size=30, maxdepth=5):
        self.rng = rng
        self.profile = profile
        self.budget = size
        self.maxdepth = maxdepth
        self.n = 0
        self.scopes = [[]]          # list of lists of Var (innermost last)
        self.fdepth = 0             # function nesting depth
        self.loop = [0]             # per function: loop nesting depth
        self.in_try = [0]           # per function: nesting of try statements (body, catch and finally blocks)
        self.in_class = []          # stack of dicts {has_super}
        self.fkind = ["script"]
        self.features = set()

    # -- names and scopes
    def fresh(self, p="v"):
        self.n += 1
        return "%s%d" % (p, self.n)

    def declare(self, name):
        is_global = (len(self.scopes) == 1 and self.fdepth == 0)
        v = Var(name, self.fdepth, is_global)
        self.scopes[-1].append(v)
        return v

    def visible(self):
        return [v for sc in self.scopes for v in sc]

    def pick_var(self):
        vs = self.visible()
        if not vs:
            return None
        if self.rng.random() < 0.45:
            outer = [v for v in vs if v.fdepth < self.fdepth and not v.is_global]
            if outer:
                self.features.add("capture")
                if any(v.fdepth < self.fdepth - 1 for v in outer):
                    self.features.add("capture_deep")
                if self.in_try[-1] > 0:
                    self.features.add("closure_in_try")
                return self.rng.choice(outer)
        return self.rng.choice(vs[-8:]) if self.rng.random() < 0.6 else self.rng.choice(vs)

    # -- expressions
    def atom(self):
        r = self.rng.random()
        if r < 0.45:
            v = self.pick_var()
            if v:
                return v.name
        if r < 0.6:
            return str(self.rng.choice([0, 1, 2, 3, 7, 10, 255, 256, 0.5, 1e3]))
        if r < 0.7:
            return self.rng.choice(['"s"', '"ab"', '""', '"x y"'])
        if r < 0.8:
            return self.rng.choice(["true", "false", "nil"])
        if r < 0.86 and self.in_class and self.fkind[-1] in ("method", "init"):
            return "self"
        return str(self.rng.randint(0, 99))

    def expr(self, d=0):
        rng = self.rng
        if d >= 3 or rng.random() < 0.3:
            return self.atom()
        k = rng.random()
        if k < 0.25:
            op = rng.choice(self.BINOPS)
            if op in ("&&", "||"):
                self.features.add("logic")
            return "%s %s %s" % (self.expr(d + 1), op, self.expr(d + 1))
        if k < 0.32:
            return "%s%s" % (rng.choice(["-", "!", "~"]), self.atom())
        if k < 0.42:
            return "(%s)" % self.expr(d + 1)
        if k < 0.55:
            f = self.atom() if rng.random() < 0.7 else "(%s)" % self.expr(d + 1)
            if not re.match(r"^[A-Za-z_(]", f):
                f = "print"
            return "%s(%s)" % (f, ", ".join(self.expr(d + 1) for _ in range(rng.randint(0, 3))))
        if k < 0.63:
            return "%s.%s(%s)" % (self.recv(), rng.choice(["m", "len", "push", "next", "go"]),
                                  ", ".join(self.expr(d + 1) for _ in range(rng.randint(0, 2))))
        if k < 0.68:
            return "%s.%s" % (self.recv(), rng.choice(["p", "q", "len"]))
        if k < 0.73:
            return "%s[%s]" % (self.recv(), self.expr(d + 1))
        if k < 0.79:
            return "[%s]" % ", ".join(self.expr(d + 1) for _ in range(rng.randint(0, 4)))
        if k < 0.83:
            n = rng.randint(0, 3)
            if n == 1:
                return "(%s,)" % self.expr(d + 1)
            return "(%s)" % ", ".join(self.expr(d + 1) for _ in range(n)) if n != 0 else "()"
        if k < 0.87:
            return "({%s})" % ", ".join("%s: %s" % (self.atom(), self.expr(d + 1)) for _ in range(rng.randint(0, 3)))
        if k < 0.93:
            self.features.add("interp")
            parts = []
            for _ in range(rng.randint(1, 3)):
                if rng.random() < 0.6:
                    parts.append(rng.choice(["a", " b ", "c:"]))
                inner = self.expr(d + 2) if rng.random() < 0.7 else self.atom()
                if '"' in inner and rng.random() < 0.5:
                    inner = "1"
                parts.append("${%s}" % inner)
            if rng.random() < 0.5:
                parts.append("z")
            return '"%s"' % "".join(parts)
        if k < 0.96:
            return "%s..%s" % (self.atom(), self.atom())
        return self.lambda_expr(d)

    def recv(self):
        a = self.atom()
        if not re.match(r"^[A-Za-z_]", a) or a in ("true", "false", "nil"):
            return "(%s)" % a
        return a

    def lambda_expr(self, d):
        self.features.add("lambda")
        params = [self.fresh("p") for _ in range(self.rng.randint(0, 3))]
        self.enter_fn("lambda", params)
        if self.rng.random() < 0.5 or self.budget <= 0:
            body = self.expr(d + 1)
            if body.startswith("{"):
                body = "(%s)" % body
            src = "|%s| %s" % (", ".join(params), body)
        else:
            body = self.block_items(self.rng.randint(1, 3), 1)
            src = "|%s| {\n%s\n}" % (", ".join(params), body)
        self.leave_fn()
        return "(%s)" % src

    # -- functions
    def enter_fn(self, kind, params):
        self.fdepth += 1
        self.loop.append(0)
        self.in_try.append(0)
        self.fkind.append(kind)
        self.scopes.append([])
        for p in params:
            if p != "self":
                self.declare(p)

    def leave_fn(self):
        self.scopes.pop()
        self.fkind.pop()
        self.in_try.pop()
        self.loop.pop()
        self.fdepth -= 1

    def block_items(self, n, depth):
        return "\n".join(self.statement(depth) for _ in range(n))

    def block(self, n, depth):
        self.scopes.append([])
        body = self.block_items(n, depth)
        self.scopes.pop()
        return "{\n%s\n}" % body

    def statement(self, depth):
        rng = self.rng
        self.budget -= 1
        small = depth >= self.maxdepth or self.budget <= 0
        k = rng.random()
        if small or k < 0.22:
            return self.simple_statement()
        n = rng.randint(1, 4)
        if k < 0.32:
            self.features.add("if")
            s = "if %s %s" % (self.expr(1), self.block(n, depth + 1))
            while rng.random() < 0.3:
                s += " else if %s %s" % (self.expr(1), self.block(rng.randint(0, 2), depth + 1))
            if rng.random() < 0.5:
                s += " else %s" % self.block(rng.randint(0, 3), depth + 1)
            return s
        if k < 0.42:
            self.features.add("while")
            c = self.expr(1)
            self.loop[-1] += 1
            b = self.block(n, depth + 1)
            self.loop[-1] -= 1
            return "while %s %s" % (c, b)
        if k < 0.52:
            self.features.add("for")
            it = rng.choice(["0..3", "[1, 2, 3]", self.expr(2)])
            self.scopes.append([])
            v = self.fresh("i")
            self.declare(v)
            self.loop[-1] += 1
            b = self.block(n, depth + 1)
            self.loop[-1] -= 1
            self.scopes.pop()
            return "for %s in %s %s" % (v, it, b)
        if k < 0.60:
            return self.block(n, depth + 1)
        if k < 0.72:
            self.features.add("fn")
            name = self.fresh("f")
            self.declare(name)
            params = [self.fresh("p") for _ in range(rng.randint(0, 3))]
            self.enter_fn("fn", params)
            body = self.block_items(rng.randint(1, 5), depth + 1)
            self.leave_fn()
            return "fn %s(%s) {\n%s\n}" % (name, ", ".join(params), body)
        if k < 0.86:
            return self.try_statement(depth)
        if k < 0.93:
            return self.class_decl(depth)
        return self.simple_statement()

    def try_statement(self, depth):
        rng = self.rng
        self.features.add("try")
        self.in_try[-1] += 1
        body = self.block(rng.randint(0, 4), depth + 1)
        have_catch = rng.random() < 0.75 or self.profile == "clean"
        have_finally = self.profile == "full" and (not have_catch or rng.random() < 0.4)
        s = "try %s" % body
        if have_catch:
            self.scopes.append([])
            e = self.fresh("e")
            self.declare(e)
            s += " catch %s %s" % (e, self.block(rng.randint(0, 3), depth + 1))
            self.scopes.pop()
        if have_finally:
            self.features.add("finally")
            s += " finally %s" % self.block(rng.randint(0, 3), depth + 1)
        self.in_try[-1] -= 1
        return s

    def class_decl(self, depth):
        rng = self.rng
        self.features.add("class")
        name = self.fresh("K")
        attrs = []
        if rng.random() < 0.5:
            attrs.append("constructor(new)")
        base = None
        cands = [v.name for v in self.visible() if v.name.startswith("K")]
        if cands and rng.random() < 0.5:
            base = rng.choice(cands)
            attrs.append("derive(%s)" % base)
        self.declare(name)
        self.in_class.append({"has_super": base is not None})
        members = []
        for _ in range(rng.randint(0, 3)):
            r = rng.random()
            mname = self.fresh("m")
            params = [self.fresh("p") for _ in range(rng.randint(0, 2))]
            if r < 0.2:
                self.enter_fn("static", params)
                body = self.block_items(rng.randint(1, 3), depth + 2)
                self.leave_fn()
                members.append("#[static]\nfn %s(%s) {\n%s\n}" % (mname, ", ".join(params), body))
            elif r < 0.35 and "constructor(new)" not in attrs and not any("#[constructor]" in m for m in members):
                self.enter_fn("init", ["self"] + params)
                body = self.block_items(rng.randint(1, 3), depth + 2)
                self.leave_fn()
                members.append("#[constructor]\nfn new(%s) {\n%s\n}" % (", ".join(["self"] + params), body))
            else:
                self.enter_fn("method", ["self"] + params)
                body = self.block_items(rng.randint(1, 4), depth + 2)
                self.leave_fn()
                members.append("fn %s(%s) {\n%s\n}" % (mname, ", ".join(["self"] + params), body))
        self.in_class.pop()
        head = ("#[%s]\n" % ", ".join(attrs)) if attrs else ""
        return "%sclass %s {\n%s\n}" % (head, name, "\n".join(members))

    def simple_statement(self):
        rng = self.rng
        k = rng.random()
        if k < 0.28:
            name = self.fresh("v")
            init = self.expr(0)
            s = "var %s = %s;" % (name, init) if rng.random() < 0.9 else "var %s;" % name
            self.declare(name)
            return s
        if k < 0.40:
            v = self.pick_var()
            if v:
                op = rng.choice(["=", "=", "=", "+=", "-="])
                rhs = self.expr(1) if op == "=" else self.atom()
                return "%s %s %s;" % (v.name, op, rhs)
        if k < 0.46:
            return "%s.%s = %s;" % (self.recv(), rng.choice(["p", "q"]), self.expr(1))
        if k < 0.50:
            return "%s[%s] = %s;" % (self.recv(), self.atom(), self.expr(1))
        if k < 0.62:
            return "print(%s);" % self.expr(0)
        if k < 0.70 and self.loop[-1] > 0:
            self.features.add("break")
            if self.in_try[-1] > 0:
                self.features.add("break_in_try")
            return "break;"
        if k < 0.77 and self.loop[-1] > 0:
            self.features.add("continue")
            if self.in_try[-1] > 0:
                self.features.add("continue_in_try")
            return "continue;"
        if k < 0.87 and self.fkind[-1] != "script" and (self.profile == "full" or self.in_try[-1] == 0):
            self.features.add("return")
            if self.in_try[-1] > 0:
                self.features.add("return_in_try")
            if self.fkind[-1] == "init" or rng.random() < 0.2:
                return "return;"
            return "return %s;" % self.expr(1)
        if k < 0.91:
            self.features.add("throw")
            return "throw %s;" % self.expr(1)
        if k < 0.94 and self.in_class and self.in_class[-1]["has_super"] and self.fkind[-1] in ("method", "init"):
            self.features.add("super")
            return "super.%s(%s);" % (rng.choice(["m", "go"]), self.atom())
        e = self.expr(0)
        if not re.match(r"^[A-Za-z_(]", e) or e.startswith("({"):
            e = "(%s)" % e
        return "%s;" % e

    def program(self):
        out = []
        while self.budget > 0:
            out.append(self.statement(0))
        return "\n".join(out)


def gen_program(rng, profile, size=None):
    g = Gen(rng, profile, size=size or rng.choice([6, 12, 20, 30, 45]))
    src = g.program()
    return src, sorted(g.features)


# ------------------------------------------------------------------------------------------------
# locals boundary: every construct that adds a hidden or implicit local, as the last / second-to-last declaration of
# a function filled up to the locals limit.  The verifier cannot see a silently dropped local (heights stay
# consistent on every path), so the oracle is: compile error, OR the program runs and every variable read after
# the construct yields its own value (expected output known by construction = the Spec).

BOUNDARY_MODULES = {"m": "var q = 3;"}
BOUNDARY_PRELUDE = "class B0 { fn m(self) { return 1; } }\n"
BOUNDARY_CONSTRUCTS = [
    # name, source, lines it prints
    ("for_empty_body", "for x in [1, 2] {}", []),
    ("for_with_body_local", "for x in [1, 2] { var y = x; print(y); }", ["1", "2"]),
    ("derived_class(super)", "#[constructor(new), derive(B0)] class D { fn m(self) { return super.m() + 1; } } print(D.new().m());", ["2"]),
    ("class", "#[constructor(new)] class C { fn m(self) { return 4; } } print(C.new().m());", ["4"]),
    ("catch_variable", 'try { throw "e"; } catch e { var c = e; print(c); }', ["e"]),
    ("nested_fn", "fn g() { return 7; } print(g());", ["7"]),
    ("lambda_block", "var g = |a, b| { var t = a + b; return t; }; print(g(1, 2));", ["3"]),
    ("import_as", 'import "m" as mm; print(mm.q);', ["3"]),
    ("nested_blocks", "{ var a = 1; { var b = 2; { var c = 3; print(a + b + c); } } }", ["6"]),
    ("while_body_local", "var i = 0; while i < 2 { var t = i; print(t); i = i + 1; }", ["0", "1"]),
    ("closure_over_last", "var g = || v%(last)d; print(g());", ["%(last)d"]),
    ("for_in_for", "for x in [1] { for y in [2] { print(x + y); } }", ["3"]),
]
BOUNDARY_KS = list(range(248, 258))
BOUNDARY_TAILS = ("last", "then_var", "then_two")


def boundary_program(name, construct, prints, k, tail):
    last = k - 1
    pre = "".join("var v%d = %d;" % (i, i) for i in range(k))
    body = construct % {"last": last} if "%(" in construct else construct
    exp = [p % {"last": last} if "%(" in p else p for p in prints]
    if tail == "then_var":      # the construct is the second-to-last declaration
        t = 'var w = "w"; print(w); print(v0); print(v%d);' % last
        exp = exp + ["w", "0", str(last)]
    elif tail == "then_two":    # ... the third-to-last
        t = 'var w = "w"; print(w); var z = 5; print(z); print(w); print(v0); print(v%d);' % last
        exp = exp + ["w", "5", "w", "0", str(last)]
    else:                       # the construct is the last declaration
        t = "print(v0); print(v%d);" % last
        exp = exp + ["0", str(last)]
    return BOUNDARY_PRELUDE + "fn f() { %s %s %s }\nf();" % (pre, body, t), exp


def params_program(k, tail):
    ps = ", ".join("p%d" % i for i in range(k))
    args = ", ".join(str(i) for i in range(k))
    if tail == "then_var":
        return 'fn f(%s) { var w = "w"; print(w); print(p0); print(p%d); }\nf(%s);' % (ps, k - 1, args), ["w", "0", str(k - 1)]
    if tail == "then_two":
        return 'fn f(%s) { var w = "w"; print(w); var z = 5; print(z); print(w); print(p0); print(p%d); }\nf(%s);' % (ps, k - 1, args), ["w", "5", "w", "0", str(k - 1)]
    return "fn f(%s) { print(p0); print(p%d); }\nf(%s);" % (ps, k - 1, args), ["0", str(k - 1)]


def run_sources(binary, sources):
    """-> list of (result kind, output lines, detail); modules of BOUNDARY_MODULES are available to import"""
    mods = " ".join("%s=%s" % (hx(n), hx(t)) for n, t in BOUNDARY_MODULES.items())
    recs = yvlib.run_harness(binary, ["mods - %s %s" % (hx(s), mods) for s in sources], case_timeout_ms=30000)
    return [(r.result[0], r.output, (r.result[1] if r.result[0] != "ok" else "") + " " + " | ".join(r.messages[:2])) for r in recs]


def locals_boundary(binary):
    """-> (table rows, items to verify, failures [(what, source, expected, actual)])"""
    plans = []
    for name, construct, prints in BOUNDARY_CONSTRUCTS:
        for tail in BOUNDARY_TAILS:
            for k in BOUNDARY_KS:
                src, exp = boundary_program(name, construct, prints, k, tail)
                plans.append((name, tail, k, src, exp))
    for tail in BOUNDARY_TAILS:
        for k in range(250, 257):
            src, exp = params_program(k, tail)
            plans.append(("parameters+slot0", tail, k, src, exp))
    comp = compile_sources(binary, [p[3] for p in plans])
    runs = run_sources(binary, [p[3] for p in plans])
    rows, items, failures = {}, [], []
    for (name, tail, k, src, exp), c, r in zip(plans, comp, runs):
        row = rows.setdefault((name, tail), {"family": "locals_boundary:%s:%s" % (name, tail), "sizes": [], "compile": "",
                                             "largest_ok": None, "messages": set(), "status": "ok"})
        row["sizes"].append(k)
        if c[0] == "ok":
            row["compile"] += "O"
            row["largest_ok"] = k
            items.append(Item("boundary:%s:%s:%d" % (name, tail, k), src, c[1], "limit", {"expected_output": exp}))
            if r[0] != "ok" or r[1] != exp:
                row["status"] = "WRONG-OUTPUT at %d" % k
                failures.append(("program at the locals limit (%s, %d plain locals) is accepted and misbehaves: a variable does not "
                                 "read its own value" % (name, k), src, exp, r[1] + ([r[0] + ":" + r[2].strip()] if r[0] != "ok" else [])))
        elif c[0] == "err":
            row["compile"] += "E"
            row["messages"].add((c[1][0] if c[1] else "").split("] ", 1)[-1][:80])
        else:
            row["compile"] += "X"
            row["status"] = "COMPILER-CRASH at %d" % k
            failures.append(("compiler crashed on a locals-boundary program (%s)" % name, src, "Ok or Err", str(c[1])[:200]))
    out = []
    for row in rows.values():
        row["messages"] = sorted(row["messages"])
        v = row["compile"]
        if "O" not in v or "E" not in v or "EO" in v:
            # the sweep must bracket the limit and the verdict must be monotone in the number of locals
            row["status"] = "NOT-BRACKETED" if row["status"] == "ok" else row["status"]
        out.append(row)
    return out, items, failures


# ------------------------------------------------------------------------------------------------
# operand SUMS: PushExcHandler carries two u16 operands that the VM ADDS (finally_ip = ip + try + catch).  The compiler
# bounds each by 65535 separately, so an accepted try statement may have |try| + |catch| up to 131070.  Programs
# with the sum on both sides of 2^16 are RUN in the debug and the release build (a narrow addition panics in the
# former and wraps in the latter: `return` inside the try lands in the middle of the try block); the expected
# output is known by construction.  (A `break` variant does not exist: a loop around such a statement exceeds the
# Loop limit.)  The static side of the same fact is the regenerated table gen/OperandArith.v.

SUM_TARGETS = [
    # (|try| + |catch|, share of the try block, with finally)
    (65534, 0.5, True), (65535, 0.5, True), (65536, 0.5, True), (65537, 0.5, True), (74000, 0.5, True),
    (131000, 0.5, True), (65536, 0.02, True), (65600, 0.9, True),
    (65535, 0.5, False), (65536, 0.5, False), (131000, 0.5, False),
]


def sum_program(nt, nc, p2, p3, fin):
    fill = "x = x + 1;"
    src = ["fn f(mode) {", "var x = 0;", "try {",
           'if mode == 1 { return "returned"; }' if fin else "",
           'if mode == 2 { throw "boom"; }', fill * nt, 'if mode == 4 { throw "late"; }',
           "} catch e {", 'print("caught ${e}, x = ${x}");', fill * nc, "nil;" * p2, "!nil;" * p3, "}"]
    if fin:
        src += ["finally {", 'print("finally, x = ${x}");', "}"]
    src += ['return "end x=${x}";', "}"]
    exp = []
    modes = [1, 2, 0, 4] if fin else [2, 0, 4]
    for m in modes:
        src.append("print(f(%d));" % m)
        if m == 1:
            exp += ["finally, x = 0", "returned"]
        elif m == 2:
            exp += ["caught boom, x = 0"] + (["finally, x = %d" % nc] if fin else []) + ["end x=%d" % nc]
        elif m == 0:
            exp += (["finally, x = %d" % nt] if fin else []) + ["end x=%d" % nt]
        else:
            exp += ["caught late, x = %d" % nt] + (["finally, x = %d" % (nt + nc)] if fin else []) + ["end x=%d" % (nt + nc)]
    return "\n".join(x for x in src if x), exp


def operand_sum_family(binaries):
    """binaries: {'release': path, 'debug': path} -> (rows, items, failures)"""
    rel = binaries["release"]
    rows, items, failures, plans = [], [], [], []
    for fin in (True, False):
        cal = compile_sources(rel, [sum_program(10, 10, 0, 0, fin)[0], sum_program(11, 10, 0, 0, fin)[0], sum_program(10, 11, 0, 0, fin)[0]])
        if any(c[0] != "ok" for c in cal):
            rows.append({"family": "try_catch_sum", "error": "calibration program did not compile"})
            continue
        ab = [(_first(c[1], "PushExcHandler", "a", fn_idx=1), _first(c[1], "PushExcHandler", "b", fn_idx=1)) for c in cal]
        if any(None in x for x in ab):
            rows.append({"family": "try_catch_sum", "error": "calibration: PushExcHandler not found"})
            continue
        ut, uc = ab[1][0] - ab[0][0], ab[2][1] - ab[0][1]
        a0, b0 = ab[0][0] - 10 * ut, ab[0][1] - 10 * uc
        for (S, share, f_) in SUM_TARGETS:
            if f_ != fin:
                continue
            nt = max(0, (int(S * share) - a0) // ut)
            a = a0 + ut * nt
            nc = max(0, (S - a - b0) // uc - 1)
            delta = S - a - (b0 + uc * nc)
            p3 = delta % 2
            p2 = (delta - 3 * p3) // 2
            plans.append((S, share, fin, nt, nc, p2, p3))
    srcs = [sum_program(nt, nc, p2, p3, fin) for (S, share, fin, nt, nc, p2, p3) in plans]
    comp = compile_sources(rel, [x[0] for x in srcs], timeout_ms=120000)
    runs = {b: run_sources(path, [x[0] for x in srcs]) for b, path in binaries.items()}
    for i, ((S, share, fin, nt, nc, p2, p3), (src, exp), c) in enumerate(zip(plans, srcs, comp)):
        row = {"family": "try_catch_sum(%s)" % ("try/catch/finally" if fin else "try/catch"), "bound": 131070, "size": S,
               "expected_compile": "ok", "compile": c[0], "src_len": len(src), "status": "ok"}
        if c[0] != "ok":
            row["status"] = "REJECTED" if c[0] == "err" else "COMPILER-CRASH"
            row["message"] = str(c[1])[:120]
            failures.append(("try statement with |try| + |catch| = %d (each part < 65536) does not compile" % S, src, exp, [str(c[1])[:200]], "compile"))
            rows.append(row)
            continue
        a, b = _first(c[1], "PushExcHandler", "a", fn_idx=1), _first(c[1], "PushExcHandler", "b", fn_idx=1)
        row["operand"] = "%s+%s=%s" % (a, b, a + b)
        if a + b != S:
            row["status"] = "SUM-MISSED"      # generator problem, not the compiler's: the boundary was not hit
        for bname, rr in runs.items():
            r = rr[i]
            okrun = r[0] == "ok" and r[1] == exp
            row["run_" + bname] = "as expected" if okrun else "%s: %s" % (r[0], (r[2].strip() or " / ".join(r[1]))[:120])
            if not okrun:
                row["status"] = "WRONG-BEHAVIOUR(%s)" % bname
                failures.append(("try statement with |try| + |catch| = %d bytes (%d + %d, each a valid u16 operand) misbehaves in the %s build"
                                 % (a + b, a, b, bname), src, exp, r[1] + ([r[0] + ": " + r[2].strip()[:200]] if r[0] != "ok" else []), bname))
        items.append(Item("limit:%s:%d:%s" % (row["family"], S, share), None, c[1], "limit", row))
        rows.append(row)
    return rows, items, failures


# ------------------------------------------------------------------------------------------------
# constants limit by KIND of constant: the 65536-constants-per-chunk limit is enforced in ONE place (make_constant); a
# constant that reaches the table by another route has its index narrowed to u16 (seeded mutant round 5: names).  For
# every route a constant can take, the script chunk is filled (by construction, measured on the decoded table of small
# compiles) so that the new constant would be the last that fits, the first that does not, and the one after.
# S: "Too many constants in one chunk." or a correct run.  The 260 KiB chunks are not sent through Coq in the quick
# tier (const_at is a list lookup); their operands are range-checked on the decoded dump.

CONST_SETUP = ('var a = 0; var t = 5; print(a); var caught = "caught"; var q = nil; var Kx = nil;\n'
               '#[constructor(new)] class K0 { fn m0(self) { return 1; } }\nvar o = K0.new();\n')
CONST_KINDS = [
    # kind, tail introducing the new constant FIRST, reads afterwards, lines printed by tail + reads, token expected in the table
    ("number_literal", "a = 424242%(i)d;", "print(a);", ["424242%(i)d"], None),
    ("string_literal", 'a = "%(nm)s";', "print(a);", ["%(nm)s"], "%(nm)s"),
    ("global_define", "var %(nm)s = t;", "print(%(nm)s);", ["5"], "%(nm)s"),
    ("global_get", "try { print(%(nm)s); } catch e { print(caught); }", "", ["caught"], "%(nm)s"),
    ("global_set", "try { %(nm)s = t; } catch e { print(caught); }", "", ["caught"], "%(nm)s"),
    ("property_get", "try { print(o.%(nm)s); } catch e { print(caught); }", "", ["caught"], "%(nm)s"),
    ("property_set", "o.%(nm)s = t;", "print(o.%(nm)s);", ["5"], "%(nm)s"),
    ("invoke_name", "try { o.%(nm)s(); } catch e { print(caught); }", "", ["caught"], "%(nm)s"),
    ("method_declaration", "#[constructor(new)] class Kx { fn %(nm)s(self) { return 5; } }", "print(Kx.new().%(nm)s());", ["5"], None),
    ("class_name", "class %(nm)s {}", "print(%(nm)s);", ["<class %(nm)s>"], "%(nm)s"),
    ("import_path", 'import "%(nm)s" as o;', "print(o.q);", ["3"], "%(nm)s"),
    ("fn_declaration", "fn %(nm)s() { return 5; }", "print(%(nm)s());", ["5"], "%(nm)s"),
    ("interpolation_part", 'a = "%(nm)s${t}";', "print(a);", ["%(nm)s5"], "%(nm)s"),
]
CONST_NAMES = ("zq1", "zq2")
BOUNDARY_MODULES.update({n: "var q = 3;" for n in CONST_NAMES})
CONST_LIMIT = 65536


def const_program(kind, nfill, ntails):
    name, tail, reads, prints, tok = kind
    out = [CONST_SETUP, "".join("%d;" % (100000 + i) for i in range(nfill))]
    exp = ["0"]
    for i in range(ntails):
        d = {"nm": CONST_NAMES[i], "i": i}
        out.append(tail % d)
    for i in range(ntails):
        d = {"nm": CONST_NAMES[i], "i": i}
        out.append(reads % d)
    out.append("print(t);")
    # the expected output only matters for ntails == 1 (two tails never fit)
    d = {"nm": CONST_NAMES[0], "i": 0}
    exp += [p % d for p in prints]
    exp.append("5")
    return "\n".join(out), exp


def nconsts(tree):
    return len(tree[0].consts)


def constants_by_kind(binary):
    """-> (rows, failures)"""
    rows, failures = [], []
    # calibration on small chunks: constants before the tail, new constants of the tail, of the reads
    cal_src = []
    for kind in CONST_KINDS:
        base = CONST_SETUP + "".join("%d;" % (100000 + i) for i in range(10))
        base11 = CONST_SETUP + "".join("%d;" % (100000 + i) for i in range(11))
        d = {"nm": CONST_NAMES[0], "i": 0}
        cal_src += [base, base11, base + kind[1] % d, const_program(kind, 10, 1)[0]]
    cal = compile_sources(binary, cal_src)
    plans = []
    for k, kind in enumerate(CONST_KINDS):
        c = cal[4 * k:4 * k + 4]
        if any(x[0] != "ok" for x in c):
            rows.append({"family": "constants_by_kind:" + kind[0], "error": "calibration program did not compile: %s" % [x[1] for x in c if x[0] != "ok"][:1]})
            continue
        c0, c0b, c1, c2 = [nconsts(x[1]) for x in c]
        new = c1 - c0
        if c0b != c0 + 1 or new < 1 or c2 != c1 + (1 if False else 0) and c2 - c1 != 0:
            rows.append({"family": "constants_by_kind:" + kind[0], "error": "calibration: filler adds %d, tail adds %d, reads add %d constants" % (c0b - c0, new, c2 - c1)})
            continue
        tok = kind[4] % {"nm": CONST_NAMES[0], "i": 0} if kind[4] else None
        if tok and c[2][1][0].consts[c0] != "s" + tok.encode().hex():
            rows.append({"family": "constants_by_kind:" + kind[0], "error": "calibration: the first new constant of the tail is %s, not the name %s" % (c[2][1][0].consts[c0][:40], tok)})
            continue
        extra = new - 1
        fit = CONST_LIMIT - extra                 # largest position of the new constant with which the tail still fits
        for (p, ntails) in ((fit, 1), (fit + 1, 1), (fit + 1, 2)):
            nfill = 10 + (p - 1 - c0)
            src, exp = const_program(kind, nfill, ntails)
            plans.append((kind, p if ntails == 1 else p + new, p, ntails, extra, src, exp, tok))
    comp = compile_sources(binary, [pl[5] for pl in plans], timeout_ms=120000)
    fit_ix = [i for i, (pl, c) in enumerate(zip(plans, comp)) if c[0] == "ok"]
    runs = dict(zip(fit_ix, run_sources(binary, [plans[i][5] for i in fit_ix])))
    for i, ((kind, pos_last, p, ntails, extra, src, exp, tok), c) in enumerate(zip(plans, comp)):
        expected = "ok" if (p + extra <= CONST_LIMIT and ntails == 1) else "err"
        row = {"family": "constants_by_kind:" + kind[0], "bound": CONST_LIMIT, "size": pos_last, "new_constants_of_construct": extra + 1,
               "expected_compile": expected, "compile": c[0], "src_len": len(src), "status": "ok", "verifier": "-"}
        if c[0] == "err":
            row["message"] = (c[1][0] if c[1] else "").split("] ", 1)[-1][:80]
            if expected == "ok":
                row["status"] = "REJECTED-BELOW-LIMIT"
        elif c[0] == "crash":
            row["status"] = "COMPILER-CRASH"
            failures.append(("compiler crashed on a constants-limit program (%s)" % kind[0], src, exp, [str(c[1])[:200]], None))
        else:
            fn0 = c[1][0]
            n = len(fn0.consts)
            row["constants_in_chunk"] = n
            bad = [ins for ins in listing(fn0, c[1]) if ins[1] in L16 and ins[1] not in JUMPS + ("Loop",) and ins[2] >= n]
            r = runs.get(i)
            okrun = r is not None and r[0] == "ok" and r[1] == exp
            row["run"] = "as expected" if okrun else ("%s: %s" % (r[0], (r[2].strip() or " / ".join(r[1][-4:]))[:120]) if r else "-")
            row["verifier"] = "thorough tier / python: operands in range: %s" % (not bad)
            if expected == "err":
                row["status"] = "TRUNCATED-OK"
                failures.append(("a %s as constant number %d of a chunk (limit %d) compiles" % (kind[0], pos_last, CONST_LIMIT), src, exp,
                                 (r[1][-6:] if r else []) + ["constants in chunk: %d" % n], "compile error"))
            elif bad or n > CONST_LIMIT or (tok and fn0.consts[p - 1] != "s" + tok.encode().hex()):
                row["status"] = "WRONG-CONSTANT-TABLE"
                failures.append(("constant table of an accepted chunk at the limit is inconsistent (%s)" % kind[0], src, exp, ["constants: %d" % n], None))
            elif not okrun:
                row["status"] = "WRONG-OUTPUT"
                failures.append(("accepted program with %d constants in one chunk (%s is the last) misbehaves" % (n, kind[0]), src, exp,
                                 r[1][-6:] + ([r[0] + ":" + r[2].strip()[:160]] if r[0] != "ok" else []), None))
        rows.append(row)
    return rows, failures


# ------------------------------------------------------------------------------------------------
# operand bytes that look like opcodes (round 7).  The compiler must never take a decision by looking at the RAW bytes
# it has emitted: the last byte of a chunk may be an OPERAND (seeded change: the implicit `nil; return` epilogue was
# skipped when the last byte equalled OpCode::Return = 57, e.g. after a 57-element vec literal, so the function ran
# off the end of its code).  For every operand-carrying instruction form F, every value v that is (or may become) an
# opcode number and every kind of function (fn, block lambda, method, static method, constructor), a function is built
# in which F with operand byte v is followed by Pop, a unary operator, a conditional jump, a patched jump target, an
# explicit Return, and - as the initialiser of the LAST local declaration, which emits nothing
# after it - directly by the implicit epilogue.  16-bit operands are aimed at with their low byte (index v) and with
# both bytes (index 257 v: jump distances, handler sizes, constant / name indices).  Every function is judged by the
# proved verifier (a function without its epilogue is rejected: fetch outside the code) and RUN in the release and the
# debug build (output known by construction).  Static side of the same fact: gen/CodeReads.v.

ALIAS_KINDS = ("fn", "lambda", "method", "static", "ctor")


def _stmts_run(na, nb):
    return "nil;" * na + "!nil;" * nb          # 2 bytes / 3 bytes each, and they may be executed


ALIAS_FORMS = [
    # name, opcode whose operand is aimed at, field (a / b / last capture descriptor of a Closure), kinds, 16-bit operand?
    ("get_local", "GetLocal", "a", ALIAS_KINDS, False), ("set_local", "SetLocal", "a", ALIAS_KINDS, False),
    ("get_upvalue", "GetUpvalue", "a", ALIAS_KINDS, False), ("set_upvalue", "SetUpvalue", "a", ALIAS_KINDS, False),
    ("build_vec", "BuildVec", "a", ALIAS_KINDS, False), ("build_tuple", "BuildTuple", "a", ALIAS_KINDS, False),
    ("build_map", "BuildHashMap", "a", ALIAS_KINDS, False), ("build_string", "BuildString", "a", ALIAS_KINDS, False),
    ("call", "Call", "a", ALIAS_KINDS, False), ("invoke_argc", "Invoke", "b", ALIAS_KINDS, False),
    ("super_invoke_argc", "SuperInvoke", "b", ("method", "ctor"), False), ("construct", "Construct", "a", ("ctor",), False),
    ("closure_local", "Closure", "uv1", ALIAS_KINDS, False), ("closure_upvalue", "Closure", "uv0", ALIAS_KINDS, False),
    ("constant_index", "Constant", "a", ("fn", "method"), True), ("global_name", "GetGlobal", "a", ("fn", "method"), True),
    ("property_name", "GetProperty", "a", ("fn", "method"), True), ("invoke_name", "Invoke", "a", ("fn", "method"), False),
    ("super_name", "GetSuper", "a", ("method",), False), ("closure_index", "Closure", "a", ("fn", "method"), False),
]
ALIAS_JUMPS = [
    # name, opcode, field, builder(na, nb) of the function body
    ("jump_distance", "Jump", "a", lambda a, b: "if p1 == -1 { } else {" + _stmts_run(a, b) + "}"),
    ("jump_if_false_distance", "JumpIfFalse", "a", lambda a, b: "if p1 == -1 {" + _stmts_run(a, b) + "}"),
    ("loop_distance", "Loop", "a", lambda a, b: "while p1 == -1 {" + _stmts_run(a, b) + "}"),
    ("handler_try_size", "PushExcHandler", "a", lambda a, b: "try {" + _stmts_run(a, b) + "} catch e { }"),
    ("handler_catch_size", "PushExcHandler", "b", lambda a, b: "try { } catch e {" + _stmts_run(a, b) + "}"),
]
# one-byte instructions that can directly follow an expression E besides Pop / LogicalNot / JumpIfFalse / Return / the
# epilogue: every cell gets two of them (rotating, so that every (operand value, follower) pair occurs), in a branch
# that is compiled and verified but not executed (`~nil` is a run-time error)
ALIAS_FOLLOWERS = ["~(%s)", "-(%s)", "1 + (%s)", "1 - (%s)", "1 * (%s)", "1 / (%s)", "1 % (%s)", "1 == (%s)", "1 < (%s)", "1 > (%s)",
                   "1 & (%s)", "1 | (%s)", "1 ^ (%s)", "1 << (%s)", "1 >> (%s)", "p1[(%s)]", "1..(%s)", "[(%s)]", "print((%s))", "1 <= (%s)", "1 >= (%s)"]
ALIAS_CONTEXTS = 8          # occurrences of E in the generic body (constructors: one fewer, `return;` carries no value)


def alias_values():
    """every opcode number of the CURRENT chunk.rs (regenerated manifest), and three values past the end"""
    n = len(OPS)
    try:
        with open(os.path.join(yvlib.VERIF, "coq", "gen", "manifest.json")) as fh:
            n = max(n, int(json.load(fh)["opcodes"]["count"]))
    except Exception:
        pass
    return list(range(0, n + 3))


def _alias_spec(form, v, kind, wide):
    """-> None (not constructible) | dict: E expression, nparams, ncapt captured variables, prefix statements,
    top-level set-up, first argument, arity of R.m, derived class?, special body"""
    nils = ", ".join(["nil"] * v)
    bound = kind in ("method", "ctor")
    d = {"nparams": 1, "ncapt": 0, "prefix": "", "top": "", "rarity": 0, "derived": False, "body": None, "arg1": "1001", "R": False}
    idx = 257 * v if wide else v          # 16-bit operands: low byte v; with `wide` the high byte is v as well
    dummies = "".join("%d;" % (100000 + i) for i in range(idx))
    if form == "get_local":
        d.update(E="self" if v == 0 else "p%d" % v, nparams=max(v, 1))
        return d if (v > 0 or bound) else None
    if form == "set_local":
        d.update(E="p%d = 7" % v, nparams=max(v, 1))
        return d if v > 0 else None
    if form in ("get_upvalue", "set_upvalue", "closure_upvalue"):
        d.update(ncapt=v + 1, prefix="".join("c%d;" % i for i in range(v)))
        d["E"] = {"get_upvalue": "c%d", "set_upvalue": "c%d = 7", "closure_upvalue": "|| c%d"}[form] % v
        return d
    if form == "closure_local":
        d.update(E="|| self" if v == 0 else "|| p%d" % v, nparams=max(v, 1))
        return d if (v > 0 or bound) else None
    if form == "build_vec":
        d.update(E="[%s]" % nils)
    elif form == "build_tuple":
        d.update(E="(nil,)" if v == 1 else "(%s)" % nils)
    elif form == "build_map":
        d.update(E="{%s}" % ", ".join("%d: nil" % i for i in range(v)))
    elif form == "build_string":
        if v == 0:
            return None
        d.update(E='"%s"' % ("${nil}" * v))
    elif form == "call":
        d.update(E="callee(%s)" % nils, top="fn callee(%s) { return 5; }\n" % ", ".join(_names("q", v)))
    elif form == "invoke_argc":
        d.update(E="p1.m(%s)" % nils, rarity=v, arg1="R.new()", R=True)
    elif form == "super_invoke_argc":
        d.update(E="super.m(%s)" % nils, rarity=v, derived=True, R=True)
    elif form == "construct":
        d.update(nparams=v, body="")
    elif form == "constant_index":
        d.update(E="424242", prefix=dummies)
    elif form == "global_name":
        d.update(E="gq", prefix=dummies, top="var gq = 5;\n")
    elif form == "property_name":
        d.update(E="p1.m", prefix=dummies, arg1="R.new()", R=True)
    elif form == "invoke_name":
        d.update(E="p1.m()", prefix=dummies, arg1="R.new()", R=True)
    elif form == "super_name":
        d.update(E="super.m", prefix=dummies, derived=True, R=True)
    elif form == "closure_index":
        d.update(prefix=dummies, body="var t = || nil;")
    else:
        return None
    return d


def _alias_function(kind, d):
    """-> (definition, invocation printing one line, expected lines)"""
    np_ = d["nparams"]
    ps = _names("p", np_ + 1)[1:]
    args = ([d["arg1"]] + [str(1000 + i) for i in range(2, np_ + 1)]) if np_ else []
    if d["body"] is not None:
        body, exp = d["prefix"] + d["body"], []
    else:
        E = d["E"]
        ret = "return;" if kind == "ctor" else "return %s;" % E
        k = d.get("follow", 0)
        extra = "".join("var x%d = %s; " % (j, ALIAS_FOLLOWERS[(k + j) % len(ALIAS_FOLLOWERS)].replace("%s", E)) for j in range(2))
        body = ("%s(%s); var n = !(%s); var a = true && (%s); if (%s) { } print(n); print(a == nil); "
                "if p1 == -1 { %s%s } var t = %s;" % (d["prefix"], E, E, E, E, extra, ret, E))
        exp = ["false", "false"]
    P, A = ", ".join(ps), ", ".join(args)
    if kind == "fn":
        return "fn f(%s) { %s }" % (P, body), "print(f(%s));" % A, exp + ["nil"]
    if kind == "lambda":
        return "var f = |%s| { %s };" % (P, body), "print(f(%s));" % A, exp + ["nil"]
    if kind == "method":
        return ("#[constructor(new)%s] class K { fn mm(self%s) { %s } }" % (", derive(R)" if d["derived"] else "", ", " + P if P else "", body),
                "print(K.new().mm(%s));" % A, exp + ["nil"])
    if kind == "static":
        return "class K { #[static] fn ss(%s) { %s } }" % (P, body), "print(K.ss(%s));" % A, exp + ["nil"]
    return ("%sclass K { #[constructor] fn new(self%s) { %s } }" % ("#[derive(R)] " if d["derived"] else "", ", " + P if P else "", body),
            "print(K.new(%s) == nil);" % A, exp + ["false"])


def alias_program(cell, jump_bodies=None, follow_rot=0):
    """cell = (form, v, kind, wide) -> None | (source, expected output, instructions aimed at, must one be last?)"""
    form, v, kind, wide = cell
    if jump_bodies is not None and form in jump_bodies:
        body = jump_bodies[form].get((v, wide))
        if body is None:
            return None
        return "fn f(p1) { %s }\nprint(f(1001));" % body, ["nil"], 1, False
    d = _alias_spec(form, v, kind, wide)
    if d is None:
        return None
    d["follow"] = 2 * [f[0] for f in ALIAS_FORMS].index(form) + v + follow_rot
    definition, call, exp = _alias_function(kind, d)
    top = d["top"]
    if d["R"]:
        top += "#[constructor(new)] class R { fn m(self%s) { return 5; } }\n" % "".join(", " + q for q in _names("q", d["rarity"]))
    if d["ncapt"]:
        cs = _names("c", d["ncapt"])
        src = "%sfn outer(%s) {\n%s\n%s\n}\nouter(%s);" % (top, ", ".join(cs), definition, call, ", ".join(str(2000 + i) for i in range(len(cs))))
    else:
        src = "%s%s\n%s" % (top, definition, call)
    need = 1 if d["body"] is not None else ALIAS_CONTEXTS - (1 if kind == "ctor" else 0)
    return src, exp, need, True


def _alias_rename(src, i):
    return re.sub(r"\b(K|f|R|callee|outer|gq|mm|ss)\b", lambda m: "%s_%d" % (m.group(1), i), src)


def alias_hits(tree, op, field, v, wide, need, at_end):
    """number of functions of the tree that hold >= need instructions `op` whose aimed-at operand equals v
    (and, with at_end, one of them directly in front of the epilogue / at the very end of the code)"""
    want = 257 * v if wide else v
    n = 0
    for fn in tree:
        if fn is None:
            continue
        ins = listing(fn, tree)
        hits = []
        for k, (pc, nm, a, b, nx) in enumerate(ins):
            if nm != op:
                continue
            if field == "a":
                ok = a == want
            elif field == "b":
                ok = b == want
            else:       # last capture descriptor of a Closure: (is_local, index)
                ok = nx - pc >= 5 and fn.code[nx - 2] == (1 if field == "uv1" else 0) and fn.code[nx - 1] == v
            if ok:
                hits.append(k)
        body = ins[:-2] if [i[1] for i in ins[-2:]] in (["Nil", "Return"], ["GetLocal", "Return"]) else ins
        hits = [k for k in hits if k < len(body)]
        if len(hits) >= need and (not at_end or hits[-1] == len(body) - 1):
            n += 1
    return n


def alias_jump_bodies(binary, values, wide_values):
    """function bodies whose jump / loop / handler operand is exactly v (and 257 v), sized from three small compiles
    per form -> ({form: {(v, wide): body}}, errors)"""
    cal_src = []
    for name, op, field, build in ALIAS_JUMPS:
        cal_src += ["fn f(p1) { %s }" % build(10, 0), "fn f(p1) { %s }" % build(11, 0), "fn f(p1) { %s }" % build(10, 1)]
    cal = compile_sources(binary, cal_src)
    bodies, errors = {}, []
    for k, (name, op, field, build) in enumerate(ALIAS_JUMPS):
        bodies[name] = {}
        c = cal[3 * k:3 * k + 3]
        if any(x[0] != "ok" for x in c):
            errors.append("operand_alias:%s: calibration program did not compile" % name)
            continue
        ds = [_first(x[1], op, field, fn_idx=1) for x in c]
        if None in ds or ds[1] <= ds[0] or ds[2] <= ds[0]:
            errors.append("operand_alias:%s: calibration: instruction not found" % name)
            continue
        ua, ub = ds[1] - ds[0], ds[2] - ds[0]
        base = ds[0] - 10 * ua
        for (v, wide) in [(v, False) for v in values] + [(v, True) for v in wide_values]:
            rest = (257 * v if wide else v) - base
            nb = 0
            while nb < 4 and (rest - ub * nb) % ua != 0:
                nb += 1
            if rest - ub * nb < 0 or (rest - ub * nb) % ua != 0:
                continue            # distance too small for this statement form
            bodies[name][(v, wide)] = build((rest - ub * nb) // ua, nb)
    return bodies, errors


def alias_cells(rng, quick, values):
    """-> (cells packed per value, wide cells): every (form, value) with ONE kind (thorough: TWO), rotating so that
    every (value, kind) and every (form, kind) pair occurs (the full product - 4794 functions - costs 8 CPU-minutes)"""
    rot = rng.randrange(len(ALIAS_KINDS))
    packed = {}
    for fi, (form, op, field, kinds, wideable) in enumerate(ALIAS_FORMS):
        for v in values:
            ks = tuple(dict.fromkeys(kinds[(fi + v + rot + j) % len(kinds)] for j in range(1 if quick else 2)))
            for kind in ks:
                packed.setdefault(v, []).append((form, v, kind, False))
    for name, op, field, build in ALIAS_JUMPS:
        for v in values:
            packed.setdefault(v, []).append((name, v, "fn", False))
    nops = len(values) - 3
    wide_vals = list(range(1, nops))
    wide = []
    for name, op, field, build in ALIAS_JUMPS:      # linear cost (257 v bytes of straight code)
        vs = sorted(rng.sample(wide_vals, 3 if quick else 16))
        wide += [(name, v, "fn", True) for v in vs]
    wide_const = []
    for form, op, field, kinds, wideable in ALIAS_FORMS:   # 257 v constants: the proved verifier's constant lookup is a list walk
        if wideable:
            wide_const += [(form, v, "fn", True) for v in wide_vals]
    return packed, wide, wide_const


def alias_family(binaries, rng, quick):
    """-> (rows, items to verify, broken correspondences, refine); refine(labels of flagged programs) takes the suspect
    programs apart and returns (items to verify, failures [(what, source, expected, actual, build)], broken correspondences)"""
    rel = binaries["release"]
    values = alias_values()
    packed, wide, wide_const = alias_cells(rng, quick, values)
    jump_bodies, errors = alias_jump_bodies(rel, values, sorted({c[1] for c in wide}))
    meta = {f[0]: f for f in ALIAS_FORMS}
    meta.update({j[0]: (j[0], j[1], j[2], ("fn",), True) for j in ALIAS_JUMPS})
    progs = []          # (label, cells with their single programs, source, expected, to_coq)
    for v in sorted(packed):
        cells = [(c, alias_program(c, jump_bodies)) for c in packed[v]]
        cells = [(c, r) for c, r in cells if r is not None]
        src = "\n".join(_alias_rename(r[0], i) for i, (c, r) in enumerate(cells))
        progs.append(("alias:value:%d" % v, cells, src, sum((r[1] for c, r in cells), []), True))
    for c in wide:
        r = alias_program(c, jump_bodies)
        if r is not None:
            progs.append(("alias:%s:257x%d" % (c[0], c[1]), [(c, r)], r[0], r[1], True))
    # 257 v constants in one function: all are compiled, looked at and RUN; the proved verifier judges a sample
    # (its constant lookup walks a list: ~n^2/2 steps)
    if quick:       # one of the cheaper ones (at most 24 x 257 constants)
        coq_const = set(rng.sample([i for i, c in enumerate(wide_const) if c[1] <= 24], 1))
    else:
        coq_const = set(rng.sample(range(len(wide_const)), min(len(wide_const), 6)))
    for i, c in enumerate(wide_const):
        r = alias_program(c, jump_bodies)
        if r is not None:
            progs.append(("alias:%s:257x%d" % (c[0], c[1]), [(c, r)], r[0], r[1], i in coq_const))
    comp = compile_sources(rel, [p[2] for p in progs], timeout_ms=120000)
    # (a debug-build VM collects at every allocation: 20 s for this family - thorough tier, and whenever a suspect
    # program is taken apart)
    runs = {"release": run_sources(rel, [p[2] for p in progs])}
    if not quick:       # debug build: the packed programs and the jump programs (not the 192 programs with 257 v constants)
        small = [i for i, p in enumerate(progs) if len(p[2]) < 100000]
        dr = dict(zip(small, run_sources(binaries["debug"], [progs[i][2] for i in small])))
        runs["debug"] = [dr.get(i, runs["release"][i]) for i in range(len(progs))]
    items, suspects = [], []
    stats = {}
    for i, ((label, cells, src, exp, to_coq), c) in enumerate(zip(progs, comp)):
        bad = None
        if c[0] != "ok":
            bad = "compile: %s" % str(c[1])[:160]
        else:
            for (cell, r) in cells:
                form, v, kind, wide_ = cell
                _, op, field, _, _ = meta[form]
                st = stats.setdefault(form, {"cells": 0, "aimed_ok": 0, "kinds": {}, "values": set(), "wide_values": set()})
                st["cells"] += 1
                st["kinds"][kind] = st["kinds"].get(kind, 0) + 1
                (st["wide_values"] if wide_ else st["values"]).add(v)
                want = sum(1 for (c2, r2) in cells if c2[0] == form and c2[3] == wide_ and r2[2] >= r[2])
                if alias_hits(c[1], op, field, v, wide_, r[2], r[3]) >= want:
                    st["aimed_ok"] += 1
                else:
                    bad = bad or "operand not hit: %s" % (cell,)
            for bname, rr in runs.items():
                if rr[i][0] != "ok" or rr[i][1] != exp:
                    bad = bad or "run(%s): %s %s" % (bname, rr[i][0], rr[i][2].strip()[:120])
            if to_coq:
                items.append(Item(label, src if len(src) < 60000 else None, c[1], "limit", {"cells": cells}))
        if bad:
            suspects.append((label, cells, bad))
    rows = []
    for form, st in stats.items():
        rows.append({"family": "operand_alias:" + form, "opcode": meta[form][1], "cells": st["cells"], "operand_hit_exactly": st["aimed_ok"],
                     "kinds": st["kinds"], "values": "%d..%d" % (min(st["values"]), max(st["values"])) if st["values"] else "-",
                     "both_bytes_values(257v)": sorted(st["wide_values"]), "status": "ok" if st["cells"] == st["aimed_ok"] else "OPERAND-NOT-HIT"})
    rows.append({"family": "operand_alias", "programs": len(progs), "programs_to_coq": len(items), "values": len(values),
                 "runs": {"release": len(progs), "debug": 0 if quick else len([p for p in progs if len(p[2]) < 100000])}, "suspect_programs": [s[0] + ": " + s[2] for s in suspects][:8], "status": "ok" if not suspects else "SUSPECT"})

    def refine(flagged_labels):
        """the packed programs that were flagged, compiled wrongly or misbehaved, taken apart: every cell alone
        -> (items to verify, failures, broken correspondences)"""
        todo = [(label, cells) for (label, cells, bad) in suspects] + \
               [(p[0], p[1]) for p in progs if p[0] in flagged_labels and p[0] not in {s[0] for s in suspects}]
        singles = [(cell, r) for (label, cells) in todo for (cell, r) in cells][:400]
        comp1 = compile_sources(rel, [r[0] for (cell, r) in singles], timeout_ms=120000)
        runs1 = {b: run_sources(path, [r[0] for (cell, r) in singles]) for b, path in binaries.items()}
        its, fails, corr = [], [], []
        for i, ((cell, r), c) in enumerate(zip(singles, comp1)):
            form, v, kind, wide_ = cell
            _, op, field, _, _ = meta[form]
            name = "%s, operand %s%d, %s" % (form, "257 x " if wide_ else "", v, kind)
            if c[0] == "err":
                corr.append("operand_alias: family program does not compile (%s): %s" % (name, str(c[1])[:120]))
                continue
            if c[0] != "ok":
                fails.append(("compiler crashed on an operand-alias program (%s)" % name, r[0], r[1], [str(c[1])[:200]], None))
                continue
            size = sum(len(f.code) for f in c[1] if f)
            if len(c[1][0].consts) < 3000 and size < 150000:
                its.append(Item("alias:%s:%s%d:%s" % (form, "257x" if wide_ else "", v, kind), r[0] if len(r[0]) < 60000 else None, c[1], "limit"))
            if alias_hits(c[1], op, field, v, wide_, r[2], r[3]) < 1:
                corr.append("operand_alias: the aimed-at operand is not where the family puts it (%s)" % name)
            for bname, rr in runs1.items():
                if rr[i][0] != "ok" or rr[i][1] != r[1]:
                    fails.append(("accepted function in which an operand byte equals an opcode number misbehaves (%s; %s build)" % (name, bname),
                                  r[0], r[1], rr[i][1] + ([rr[i][0] + ": " + rr[i][2].strip()[:200]] if rr[i][0] != "ok" else []), bname))
                    break
        return its, fails, corr
    return rows, items, errors, refine


# ------------------------------------------------------------------------------------------------
# tie to the Gallina model of the WHOLE compiler (coq/theories/FullCompile*.v, driver tools/fullcompile_corr.py): the dump
# of the real compiler and of the model must be BYTE-IDENTICAL (function tree, arity, capture counts, names, code,
# constants, line tables; rejected programs: same first error and line).  A difference = the model no longer
# describes compiler.rs (broken correspondence); the differing programs are handed to the verifier and the VM.
# The model needs ~0.05 s of CPU per test script and ~0.2 s per operand-alias program, so the quick tier compares the
# core.yl, 180 of the test scripts (rotating with the seed), 30 generated programs (+ the 26 probes of the driver) and
# ONE alias program per opcode value (form and kind of function rotating); the thorough tier calls fullcompile_check
# (all scripts, 600 generated programs, the bridge to CompileExpr.v) and two alias programs per value.

def fullcompile_tie(ctx, binary, rng, quick, extra=()):
    """-> a function `join()` -> (programs on which model and compiler differ [(name, source, why)], evidence dict).
    Every random choice is drawn here, in the caller's thread; the model is evaluated in a worker thread while the
    caller runs the verifier."""
    try:
        import fullcompile_corr as fc
    except Exception as e:
        ctx.notes.append("tools/fullcompile_corr.py unavailable (%r): tie to FullCompile.v skipped" % (e,))
        return lambda: ([], {})
    import time as _t
    from concurrent.futures import ThreadPoolExecutor
    t0 = _t.time()
    values = alias_values()
    jump_bodies, _ = alias_jump_bodies(binary, values, [])
    forms = [(f[0], f[3]) for f in ALIAS_FORMS] + [(j[0], ("fn",)) for j in ALIAS_JUMPS]
    rot = rng.randrange(len(forms))
    directed = []
    for v in values:
        got, k = 0, 0
        while got < (1 if quick else 2) and k < len(forms):
            form, kinds = forms[(v + rot + 7 * k) % len(forms)]
            k += 1
            r = alias_program((form, v, kinds[(v + rot + k) % len(kinds)], False), jump_bodies)
            if r is not None and len(r[0]) < 3000:
                directed.append(("alias:%s:%d" % (form, v), r[0].encode()))
                got += 1
    small = quick or _SEARCH["directed_pass"]
    if small:
        corp = fc.corpus()
        if len(corp) > 200:         # quick: core.yl + 180 of the test scripts (rotating with the seed); thorough: all
            corp = [corp[i] for i in sorted(rng.sample(range(len(corp) - 1), 180))] + corp[-1:]
        srcs = corp + fc.generated(rng, 30) + directed + list(extra)
    else:
        srcs = directed + list(extra)

    def evaluate():
        cov = {}
        try:
            if not small:
                fc.fullcompile_check(ctx, 120)      # all scripts + 600 generated + the bridge; fills ctx.cov / ctx.corr_broken itself
            st, bad = fc.run_all(binary, srcs, tag="C04fullcompile")
            # a case whose model evaluation failed (time-out / memory under machine load) is re-run alone before it is believed
            failed = {b["name"] for b in bad if b.get("why") == "the model did not evaluate"}
            if failed:
                again = [x for x in srcs if x[0] in failed]
                st2, bad2 = fc.run_all(binary, again, tag="C04fullcompile_retry")
                bad = [b for b in bad if b["name"] not in failed] + bad2
                st["model_failed_first_time"] = len(failed)
                st["model_failed"] = st2.get("model_failed", 0)
                for k in ("ok_identical", "err_agree", "mismatch", "functions", "code_bytes"):
                    st[k] = st.get(k, 0) + st2.get(k, 0)
        except Exception as e:
            ctx.corr_broken.append("FullCompile: the model could not be evaluated: %r" % (e,))
            return [], {"fullcompile_error": repr(e)}
        by_name = dict(srcs)
        hard = [b for b in bad if not b.get("soft")]
        for b in hard[:10]:
            ctx.corr_broken.append("FullCompile: model and compiler.rs disagree on %s: %s" % (b["name"], b["why"]))
        cov.update({"fullcompile_tie_" + k: v for k, v in st.items()})
        cov["fullcompile_tie_directed_alias_programs"] = len(directed)
        cov["fullcompile_tie_scale_programs"] = len(extra)
        cov["fullcompile_tie_soft"] = [b for b in bad if b.get("soft")][:10]
        cov["fullcompile_tie_seconds"] = round(_t.time() - t0, 1)
        diff = []
        for b in hard[:40]:
            src = by_name.get(b["name"])
            if src is not None:
                try:
                    diff.append((b["name"], src.decode("utf-8"), b["why"]))
                except UnicodeDecodeError:
                    pass
        return diff, cov

    ex = ThreadPoolExecutor(max_workers=1)
    fut = ex.submit(evaluate)

    def join():
        try:
            return fut.result()
        finally:
            ex.shutdown(wait=False)
    return join



# ------------------------------------------------------------------------------------------------
# round 9: SCALE family (tools/c04_scale.py).  Every counting dimension of compiler.rs - locals per scope, locals
# discarded by break / continue (captured ones at every position), nested scopes, captured variables through 1-3
# function levels, constants, strings, parameters (fn / lambda / method / static), arguments, vec elements,
# interpolation parts, methods per class, classes, nested functions, try depth x exit kind, loop depth x exit kind,
# else-if chain length - pushed one at a time through a ladder of sizes (1 .. 40, then 48 64 65 100 128 129 200 250 ...).
# Oracles: (i) compiles; (ii) RUN, output known in closed form (a function of the size), release build for everything,
# debug build for a rotating quarter (quick) / everything (thorough); (iii) the proved verifier on every function;
# (iv) the byte-for-byte FullCompile tie on the compact cells (fullcompile_tie).

def scale_family(binaries, rng, quick):
    """-> (rows, items to verify, failures [(what, src, expected, actual, build)], correspondence errors, tie sources)"""
    import c04_scale as sc
    rot = rng.randrange(1 << 16)
    cells = sc.scale_cells(rot, quick)
    rel = binaries["release"]
    comp = compile_sources(rel, [c[1] for c in cells], timeout_ms=120000)
    runs = run_sources(rel, [c[1] for c in cells])
    # the debug build collects at every allocation: small cells only (a 250-locals cell needs > 30 s there), a rotating quarter in the quick tier
    dbg_idx = [i for i in range(len(cells)) if len(cells[i][1]) <= (6000 if quick else 30000)
               and ((not quick) or ((i * 2654435761 + rot) >> 9) % 4 == 0)]
    druns = dict(zip(dbg_idx, run_sources(binaries["debug"], [cells[i][1] for i in dbg_idx])))
    # a case that timed out under machine load is re-run alone before it is believed
    for table, path in ((runs, rel), (druns, binaries["debug"])):
        for i in (range(len(cells)) if table is runs else dbg_idx):
            r = table[i]
            if r[0] != "ok" and "timeout" in (r[0] + r[2]).lower():
                table[i] = run_sources(path, [cells[i][1]])[0]
    rows, items, failures, errs = {}, [], [], []
    for i, ((label, src, exp), c, r) in enumerate(zip(cells, comp, runs)):
        dim = label.split(":")[1]
        row = rows.setdefault(dim, {"family": "scale:" + dim, "sizes": [], "status": "ok", "programs": 0, "run_debug": 0})
        row["programs"] += 1
        row["sizes"].append(int(label.rsplit(":", 1)[1]))
        if c[0] != "ok":
            row["status"] = "DOES-NOT-COMPILE"
            if c[0] == "crash":
                failures.append(("compiler crashed on a scale-family program (%s)" % label, src, exp, [str(c[1])[:200]], "compile"))
            else:
                errs.append("scale family: %s (below every documented limit) does not compile: %s" % (label, str(c[1])[:160]))
            continue
        items.append(Item(label, src, c[1], "scale"))
        for bname, rr in (("release", r), ("debug", druns.get(i))):
            if rr is None:
                continue
            if bname == "debug":
                row["run_debug"] += 1
            if bname == "debug" and rr[0] != "ok" and "timeout" in (rr[0] + rr[2]).lower():
                row["debug_timeouts"] = row.get("debug_timeouts", 0) + 1      # machine load, not the compiler: the release run decides
                continue
            if not (rr[0] == "ok" and rr[1] == exp):
                row["status"] = "WRONG-BEHAVIOUR(%s)" % bname
                failures.append(("scale-family program %s (output known in closed form) misbehaves in the %s build" % (label, bname),
                                 src, exp, rr[1] + ([rr[0] + ": " + rr[2].strip()[:200]] if rr[0] != "ok" else []), bname))
                break
    # the tie compares the compact cells (the model needs ~1 s per 10 kB of source); every dimension stays represented
    tie = [(label, src.encode()) for (label, src, exp) in sc.tie_cells(rot, quick)]
    # EXIT MATRIX: kind of function x kind of early exit x enclosing construct (50 programs, ~250 functions): tie + verifier
    mcells = sc.matrix_cells()
    mcomp = compile_sources(rel, [c[1] for c in mcells])
    mrow = {"family": "exit_matrix", "programs": len(mcells), "status": "ok"}
    for (label, src, _), c in zip(mcells, mcomp):
        if c[0] == "ok":
            items.append(Item(label, src, c[1], "matrix"))
            tie.append((label, src.encode()))
        elif c[0] == "crash":
            failures.append(("compiler crashed on an exit-matrix program (%s)" % label, src, [], [str(c[1])[:200]], "compile"))
        else:
            mrow["status"] = "DOES-NOT-COMPILE"
            errs.append("exit matrix: %s does not compile: %s" % (label, str(c[1])[:160]))
    out_rows = []
    for row in rows.values():
        row["sizes"] = "%d..%d (%d sizes)" % (min(row["sizes"]), max(row["sizes"]), len(set(row["sizes"])))
        out_rows.append(row)
    out_rows.append(mrow)
    return out_rows, items, failures, errs, tie

# ------------------------------------------------------------------------------------------------
# the check

CORE_YL = os.path.join(yvlib.REPO, "yarel", "src", "core.yl")
SCRIPTS = os.path.join(yvlib.REPO, "yarel", "tests", "scripts")


def corpus_sources():
    out = []
    for root, dirs, files in sorted(os.walk(SCRIPTS)):
        dirs.sort()
        for f in sorted(files):
            p = os.path.join(root, f)
            if f.endswith(".yl") and os.path.isfile(p):
                with open(p, "rb") as fh:
                    out.append((os.path.relpath(p, SCRIPTS), fh.read()))
    return out


def core_items(binary, ctx):
    """functions of core.yl: (a) through the class method tables of a VM with built-ins (what really runs),
    (b) core.yl compiled as a script (covers the class bodies' script code as well)"""
    items = []
    try:
        with open(CORE_YL) as fh:
            core_src = fh.read()
    except OSError:
        ctx.notes.append("core.yl not found at %s: core functions skipped" % CORE_YL)
        return items, 0
    names = re.findall(r"^class\s+([A-Za-z_]\w*)", core_src, re.M)
    rec = yvlib.run_harness(binary, ["corefns " + " ".join(names)], shards=1)[0]
    if rec.crashed or not any(l.startswith("CLASS ") for l in rec.lines):
        ctx.notes.append("harness command `corefns` unavailable (%s): core method tables skipped" % (rec.crashed or rec.lines[:1]))
    else:
        missing = [l for l in rec.lines if l.startswith("NOCLASS")]
        if missing:
            ctx.corr_broken.append("core classes not found as globals of module main: %s" % missing[:3])
        trees, labels = parse_trees(rec.lines)
        for t, lab in zip(trees, labels):
            items.append(Item("core:" + lab, None, t, "core"))
    r = compile_sources(binary, [core_src])[0]
    if r[0] == "ok":
        items.append(Item("core:core.yl", core_src, r[1], "core"))
    else:
        ctx.notes.append("core.yl does not compile as a script: %s" % str(r[1])[:200])
    return items, len(names)


def unknown_flags(it):
    return [(k, fn, vd) for (k, fn, vd, cls) in it.flags if cls is None]


def failing_predicate(binary, tag):
    """for shrinking: does this source still compile to something with an unclassified flagged function?"""
    counter = [0]

    def fails(src):
        counter[0] += 1
        r = compile_sources(binary, [src])[0]
        if r[0] != "ok":
            return False
        it = Item("shrink", src, r[1], "shrink")
        judge([it], "%s_shrink" % tag)
        return bool(unknown_flags(it)) or it.head.get("ALL") == "?" or not line_table_ok(r[1])
    return fails


def describe(it, k, fn, vd):
    ins = listing(fn, it.tree)
    near = [i for i in ins if abs(i[0] - vd.get("pc", 0)) <= 12]
    return {"function": fn.name or "<script>", "fn_index_bfs": k, "verdict": vd["raw"][:300],
            "code_hex": fn.code.hex() if len(fn.code) <= 600 else fn.code[:600].hex() + "...",
            "near_pc": ["%d %s %d %d" % (i[0], i[1], i[2], i[3]) for i in near]}


_SEARCH = {"running": False, "done": False, "directed_pass": False}


def run(ctx):
    run_once(ctx)
    # tools/check.py starts `search` only when NO violation at all was reported - the open known classes of this
    # property are reported as (known) violations on every run, so the plug-in starts it itself
    if (ctx.broken or ctx.corr_broken) and not new_violations(ctx) and not _SEARCH["running"] and not ctx.replay_only:
        search(ctx)


def run_once(ctx):
    quick = ctx.quick()
    rng = ctx.rng
    # the release build: compiling is deterministic, and a debug-build VM (collection at every allocation) needs
    # ~35 ms to start with its built-ins, once per program
    binary = ctx.harness("release")
    # the fast input path (primitive-int literals) is deliberately outside the cone of props/C04.v: build it here
    ok_w, wlog = yvlib.coq_make(["theories/VerifierWire.vo"])
    if not ok_w:
        ctx.broken.append("coq build of theories/VerifierWire.v failed: " + wlog[-400:])
        return
    findings = load_findings()
    official = {k.get("class") for k in ctx.known_open()}
    items = []
    counts = {"scripts": 0, "scripts_compiled": 0, "scripts_compile_error": 0, "scripts_not_compilable_input": 0}

    # ---- replay of one failing input
    if ctx.replay_only:
        src = ctx.replay_only.get("input")
        if isinstance(src, str):
            r = compile_sources(binary, [src])[0]
            exp = ctx.replay_only.get("expected")
            if r[0] == "ok" and ctx.replay_only.get("must_not_compile"):
                ctx.violation("program past an encoding limit compiles", input=src, expected="compile error",
                              actual="Ok, %d constants in the script chunk" % len(r[1][0].consts), must_not_compile=True)
            elif r[0] == "ok":
                it = Item("replay", src, r[1], "replay")
                if sum(len(f.code) for f in r[1] if f) < 150000:
                    judge([it], "C04replay")
                for (k, fn, vd) in unknown_flags(it):
                    ctx.violation("compiled function rejected by the bytecode verifier", input=src, expected="OK, unique heights",
                                  actual=vd["raw"][:300], **describe(it, k, fn, vd))
                eo = ctx.replay_only.get("expected_output")
                if isinstance(eo, list):
                    for bname in ("release", "debug"):
                        rr = run_sources(ctx.harness(bname), [src])[0]
                        if rr[0] != "ok" or rr[1] != eo:
                            ctx.violation("accepted program at an encoding boundary misbehaves (%s build)" % bname, input=src,
                                          expected="compile error, or output " + json.dumps(eo),
                                          actual="output " + json.dumps(rr[1]) + " " + rr[0] + " " + rr[2].strip()[:200], expected_output=eo, build=bname)
                            break
                if exp == "compile error" and not ctx.violations:
                    ctx.violation("program past an encoding limit compiles", input=src, expected="compile error", actual="Ok")
            elif r[0] == "crash":
                ctx.violation("compiler crashed", input=src, expected="Ok or Err", actual=str(r[1]))
        ctx.cov.update({"evaluations": 1, "distinct_nontrivial": 0, "rule": "replay", "samples": [str(src)[:300]]})
        return

    # ---- 1. the test scripts
    import time as _t
    t_start = _t.time()
    corpus = corpus_sources()
    res = compile_sources(binary, [s for _, s in corpus])
    for (name, src), r in zip(corpus, res):
        counts["scripts"] += 1
        if r[0] == "ok":
            counts["scripts_compiled"] += 1
            try:
                text = src.decode("utf-8")
            except UnicodeDecodeError:
                text = None
            items.append(Item("script:" + name, text, r[1], "scripts"))
        elif r[0] == "err":
            counts["scripts_compile_error"] += 1
        else:
            counts["scripts_not_compilable_input"] += 1   # not UTF-8 etc.: the harness cannot even pass it on
    # ---- 2. core.yl
    citems, ncore = core_items(binary, ctx)
    items += citems
    # ---- 3. generated programs
    # (round 7: quick 1200 + 800 -> 600 + 400, thorough 12000 + 8000 -> 8000 + 6000; the CPU went to the operand-alias family and to the FullCompile tie)
    n_clean, n_full = (600, 400) if (quick or _SEARCH["directed_pass"]) else (8000, 6000)
    scale = float(os.environ.get("C04_GEN_SCALE", "1"))      # developer knob (mutation experiments); default 1
    n_clean, n_full = max(1, int(n_clean * scale)), max(1, int(n_full * scale))
    gen = [("clean",) + gen_program(rng, "clean") for _ in range(n_clean)] + \
          [("full",) + gen_program(rng, "full") for _ in range(n_full)]
    gres = compile_sources(binary, [g[1] for g in gen])
    gen_err = 0
    feature_hist = {}
    for i, ((prof, src, feats), r) in enumerate(zip(gen, gres)):
        if r[0] == "ok":
            items.append(Item("gen:%s:%d" % (prof, i), src, r[1], "gen_" + prof, feats))
            for f in feats:
                feature_hist[f] = feature_hist.get(f, 0) + 1
        elif r[0] == "err":
            gen_err += 1
        else:
            ctx.violation("compiler crashed on a generated program", input=src, expected="Ok or Err", actual=str(r[1])[:300])
    # ---- 4. limit family
    rows, litems, lsrc = limit_family(binary, quick)
    items += litems
    brows, bitems, bfail = locals_boundary(binary)
    items += bitems
    srows, sitems, sfail = operand_sum_family({"release": binary, "debug": ctx.harness("debug")})
    items += sitems
    crows, cfail = constants_by_kind(binary)
    arows, aitems, aerrs, arefine = alias_family({"release": binary, "debug": ctx.harness("debug")}, rng, quick)
    items += aitems
    # ---- 5. the Gallina model of the whole compiler: byte-identical output; programs on which it differs are judged too
    #         (evaluated in a worker thread while the verifier runs; joined below)
    # round 9: the scale family (drawn AFTER every older generator: their streams are unchanged)
    zrows, zitems, zfail, zerrs, ztie = scale_family({"release": binary, "debug": ctx.harness("debug")}, rng, quick)
    items += zitems
    tie_join = fullcompile_tie(ctx, binary, rng, quick, extra=ztie)
    log("[C04] compiled everything in %.1fs" % (_t.time() - t_start))
    # ---- wire self-test: the model must see exactly the bytes the compiler produced
    probe = [it for it in items if sum(len(f.code) for f in it.tree if f) < 3000][:6] + litems[:1]
    echo = yvlib.coq_eval(IMPORTS, ["echo_w %s" % wire_with(it.tree)[0] for it in probe], shard_size=2, tag="C04echo", preamble=PREAMBLE)
    for it, e in zip(probe, echo):
        if e != echo_of(it.tree):
            ctx.corr_broken.append("wire format: the Coq side decodes %s differently from what was sent" % it.label)
    # ---- verify everything
    import time as _t
    t0 = _t.time()
    judge(items, "C04")
    log("[C04] verified %d programs in %.1fs" % (len(items), _t.time() - t0))
    fdiff, fcov = tie_join()
    log("[C04] FullCompile tie joined after %.1fs: %s differing programs" % (_t.time() - t0, len(fdiff)))
    fitems = []
    if fdiff:
        fres = compile_sources(binary, [d[1] for d in fdiff])
        fruns = run_sources(binary, [d[1] for d in fdiff])
        for (name, src, why), r, rr in zip(fdiff, fres, fruns):
            if r[0] == "ok":
                fitems.append(Item("fullcompile_diff:" + name, src, r[1], "fullcompile_diff", {"why": why, "run": rr}))
        judge(fitems, "C04fcdiff")
        items += fitems
    # operand-alias family: a packed program that was flagged, did not compile or misbehaved is taken apart, every
    # cell alone, so that the failing input is one small function
    a_flagged = {it.label for it in aitems if it.head.get("ALL") != "T"}
    rits, afail, acorr = arefine(a_flagged)
    if rits:
        judge(rits, "C04alias")
        if any(unknown_flags(it) or it.head.get("ALL") == "?" for it in rits):
            for it in aitems:
                if it.label in a_flagged:
                    it.flags = []          # reported through the single-cell programs
        items += rits
    for e in aerrs + acorr + zerrs:
        ctx.corr_broken.append(e)
    nfn = 0
    hist, lenient_hist, class_hist, group_hist = {}, {}, {}, {}
    witnesses = {}
    maxh = 0
    nontrivial = set()
    ge2_handlers = ge2_captured = 0
    unsafe_abs = 0
    viol = []
    for it in items:
        g = group_hist.setdefault(it.group, {"programs": 0, "functions": 0, "flagged": 0})
        g["programs"] += 1
        if it.head.get("ALL") == "?":
            ctx.corr_broken.append("model evaluation failed for %s: %s" % (it.label, str(it.head.get("error"))[:200]))
            continue
        if not line_table_ok(it.tree):
            viol.append(("line table length differs from code length", it, None))
        if it.head.get("safe") == "F":
            unsafe_abs += 1
        for k, (fn, vd) in enumerate(zip(it.fns, it.verdicts)):
            nfn += 1
            g["functions"] += 1
            key = vd["kind"] + (":" + vd["reason"] if vd.get("reason") else "")
            hist[key] = hist.get(key, 0) + 1
            if vd["kind"] == "OK":
                maxh = max(maxh, vd.get("maxh", 0))
                if vd.get("mh", 0) >= 2:
                    ge2_handlers += 1
                if vd.get("mc", 0) >= 2:
                    ge2_captured += 1
                if vd.get("mh", 0) >= 2 or vd.get("mc", 0) >= 2:
                    nontrivial.add(fn.code)
            if "lenient" in vd:
                lk = vd["lenient"].split(" ")[0]
                lenient_hist[lk] = lenient_hist.get(lk, 0) + 1
        for (k, fn, vd, cls) in it.flags:
            g["flagged"] += 1
            if cls is None:
                viol.append(("compiled function rejected by the bytecode verifier", it, (k, fn, vd)))
            else:
                for c in cls:
                    class_hist[c] = class_hist.get(c, 0) + 1
                    w = witnesses.get(c)
                    if it.src and (w is None or len(it.src) < len(w["source"])):
                        witnesses[c] = {"source": it.src, "function": fn.name or "<script>", "verdict": vd["raw"][:200], "label": it.label}
    # ---- limit table
    by_label = {it.label: it for it in litems}
    for row in rows:
        if "error" in row:
            ctx.corr_broken.append("limit family %s: %s" % (row["family"], row["error"]))
            continue
        it = by_label.get("limit:%s:%d" % (row["family"], row["size"]))
        if it is not None and it.head.get("ALL") != "?":
            row["verifier"] = ("OK unique" if it.head.get("ALL") == "T" else "FLAGGED") + " maxh=%s" % it.head.get("maxh")
            if it.flags:
                row["verifier"] += " " + "; ".join("%s [%s]" % (vd["raw"][:70], ",".join(cls) if cls else "UNKNOWN") for (k, fn, vd, cls) in it.flags)
        src = lsrc.get((row["family"], row["size"]))
        if row["compile"] == "crash":
            viol.append(("compiler crashed on a limit program", Item("limit", src, None, "limit"), None))
        elif row["expected_compile"] == "err" and row["compile"] == "ok":
            row["status"] = "TRUNCATED-OK"
            viol.append(("program one past the %s limit (%d > %d) compiles" % (row["family"], row["size"], row["bound"]),
                         Item("limit:%s" % row["family"], src, None, "limit"), "limit"))
        elif row["expected_compile"] == "ok" and row["compile"] == "err":
            row["status"] = "REJECTED-BELOW-LIMIT"
            ctx.corr_broken.append("limit family %s: size %d (<= bound %d) is a compile error: %s - the stated bound is not the compiler's"
                                   % (row["family"], row["size"], row["bound"], row.get("message")))
        elif row["compile"] == "ok" and "operand" in row and row["operand"] != row["size"]:
            row["status"] = "OPERAND-MISMATCH"
            viol.append(("encoded jump operand %s differs from the distance %d" % (row["operand"], row["size"]),
                         Item("limit:%s" % row["family"], src, None, "limit"), "limit"))
        elif row.get("python_operands_ok") is False:
            row["status"] = "CONST-OPERAND-OUT-OF-RANGE"
            viol.append(("constant operand out of range", Item("limit:%s" % row["family"], src, None, "limit"), "limit"))
        else:
            row["status"] = "ok"
    for row in brows:
        if row["status"] == "NOT-BRACKETED":
            ctx.corr_broken.append("locals boundary %s: sweep %s does not bracket the limit monotonically (%s)" % (row["family"], row["sizes"], row["compile"]))
        it_flag = [it for it in bitems if it.label.startswith("boundary:" + row["family"].split(":", 1)[1] + ":") and it.head.get("ALL") != "T"]
        row["verifier"] = "OK unique on all %d accepted" % row["compile"].count("O") if not it_flag else "FLAGGED: " + ", ".join(i.label for i in it_flag[:3])
    for row, it in zip([r for r in srows if r.get("compile") == "ok"], sitems):
        if it.head.get("ALL") != "?":
            row["verifier"] = ("OK unique" if it.head.get("ALL") == "T" else "FLAGGED " + "; ".join(
                "%s [%s]" % (vd["raw"][:60], ",".join(cls) if cls else "UNKNOWN") for (k, fn, vd, cls) in it.flags))
    for row in srows:
        if "error" in row:
            ctx.corr_broken.append("operand-sum family: " + row["error"])
        elif row["status"] == "SUM-MISSED":
            ctx.corr_broken.append("operand-sum family: target %s not hit exactly (%s)" % (row["size"], row.get("operand")))
    for (what, src, exp, act, bname) in sfail:
        viol.append((what, Item("operand_sum", src, None, "limit", {"expected_output": exp, "actual_output": act, "build": bname}), "boundary"))
    for row in crows:
        if "error" in row:
            ctx.corr_broken.append("%s: %s" % (row["family"], row["error"]))
        elif row["status"] == "REJECTED-BELOW-LIMIT":
            ctx.corr_broken.append("%s: %d constants (<= %d) is a compile error: %s" % (row["family"], row["size"], CONST_LIMIT, row.get("message")))
    for (what, src, exp, act, must) in cfail:
        meta = {"expected_output": exp, "actual_output": act}
        if must:
            meta["must_not_compile"] = True
        viol.append((what, Item("constants_by_kind", src, None, "limit", meta), "boundary"))
    for (what, src, exp, act, bname) in afail:
        meta = {"expected_output": exp, "actual_output": act}
        if bname:
            meta["build"] = bname
        viol.append((what, Item("operand_alias", src, None, "limit", meta), "boundary"))
    for (what, src, exp, act) in bfail:
        viol.append((what, Item("boundary", src, None, "limit", {"expected_output": exp, "actual_output": act}), "boundary"))
    for (what, src, exp, act, bname) in zfail:
        meta = {"expected_output": exp, "actual_output": act}
        if bname in ("release", "debug"):
            meta["build"] = bname
        viol.append((what, Item("scale", src, None, "limit", meta), "boundary"))
    # ---- report violations (first one shrunk)
    fails = failing_predicate(binary, "C04")
    # at most 5 reports, one per kind of failure first (a flood of one kind must not hide another)
    seen_kinds, first, rest = set(), [], []
    for v_ in viol:
        kind_ = (v_[2] if isinstance(v_[2], str) else "verifier", re.sub(r"[0-9]+", "#", v_[0])[:60])
        (rest if kind_ in seen_kinds else first).append(v_)
        seen_kinds.add(kind_)
    viol = first + rest
    for n, (what, it, info) in enumerate(viol[:5]):
        src = it.src
        extra = {}
        if info and info not in ("limit", "boundary"):
            k, fn, vd = info
            extra = describe(it, k, fn, vd)
            if n == 0 and src and len(src) < 20000:
                small = shrink_source(src, fails, budget=30)
                if small != src and fails(small):
                    src = small
                    r = compile_sources(binary, [src])[0]
                    it2 = Item("shrunk", src, r[1], "shrunk")
                    judge([it2], "C04_shrunk")
                    uf = unknown_flags(it2)
                    if uf:
                        extra = describe(it2, *uf[0])
        if src is None and it.tree is not None:
            src = "(no source: %s) wire=%s" % (it.label, wire_with(it.tree)[0][:2000])
        if info == "boundary":
            ctx.violation(what, input=src, expected="compile error, or output " + json.dumps(it.meta["expected_output"]),
                          actual="compiler said Ok; output " + json.dumps(it.meta["actual_output"]), expected_output=it.meta["expected_output"],
                          **{k_: it.meta[k_] for k_ in ("build", "must_not_compile") if k_ in it.meta})
            continue
        ctx.violation(what, input=src if src is None or len(src) < 200000 else src[:1000] + "...(%d bytes; family program, rebuild with tools/props/C04.py limit_family)" % len(src),
                      expected="compile error" if info == "limit" else "verifier: OK with unique heights", actual=extra.get("verdict", "compiler said Ok"),
                      label=it.label, **{k_: v_ for k_, v_ in extra.items() if k_ != "verdict"})
    if len(viol) > 5:
        ctx.notes.append("%d more failing cases not reported individually" % (len(viol) - 5))
    # ---- known classes: official ones become KNOWN-FINDING lines, the rest is pending in notes/C04-findings.json
    pending = {}
    for c, n_ in sorted(class_hist.items()):
        w = witnesses.get(c, {})
        if c in official:
            ctx.violation("known defect class %s" % c, input=w.get("source"), expected="verifier OK", actual=w.get("verdict"), known_class=c)
        elif c in findings:
            pending[c] = n_
        else:
            # a class name the classifier produced but nobody recorded: treat as unknown
            ctx.violation("flagged functions of class %s, which is recorded neither in known_findings.json (property C04) nor in notes/C04-findings.json" % c,
                          input=w.get("source"), expected="verifier OK", actual=w.get("verdict"))
    if pending:
        ctx.notes.append("open classes seen, recorded in notes/C04-findings.json but not (yet) under property C04 in known_findings.json: %s" % pending)
    sample_ok = next((it for it in items if it.group == "gen_clean" and it.src), None)
    ctx.cov.update({
        "evaluations": nfn,
        "programs": len(items),
        "functions_verified": nfn,
        "distinct_nontrivial": len(nontrivial),
        "rule": "every function of every compiled program is one evaluation of the proved verifier (strict mode); non-trivial = a verified "
                "function whose reachable states include >= 2 simultaneously pushed handlers or >= 2 simultaneously open captured slots "
                "(distinct code bytes counted)",
        "functions_with_ge2_handlers": ge2_handlers, "functions_with_ge2_captured": ge2_captured,
        "verdict_histogram": hist, "lenient_histogram_of_rejected(diagnostic)": lenient_hist,
        "max_height_seen": maxh, "programs_exceeding_abs_stack_bound(maxh*FRAMES_MAX>STACK_MAX)": unsafe_abs,
        "known_class_histogram": class_hist, "known_class_witnesses": {c: w["source"][:600] for c, w in witnesses.items()},
        "groups": group_hist, "scripts": counts, "core_classes": ncore,
        "generated": {"clean": n_clean, "full": n_full, "compile_errors": gen_err, "feature_histogram": feature_hist},
        "limit_family": [{k_: v_ for k_, v_ in r.items() if k_ not in ("line_table_ok",)} for r in rows] + brows + srows + crows + arows + zrows,
        "fullcompile": fcov, "fullcompile_differing_programs_judged": [
            {"name": it.label, "why": it.meta["why"], "verifier": it.head.get("ALL"), "run": "%s %s" % (it.meta["run"][0], it.meta["run"][2].strip()[:100])} for it in fitems][:10],
        "functions_not_ending_in_return": sum(1 for it in items for fn in (it.fns or []) if not fn.code or fn.code[-1] != OPN["Return"]),
        "locals_boundary_programs": sum(len(r["sizes"]) for r in brows),
        "samples": [sample_ok.src[:500] if sample_ok else "", next((r_["family"] + ":" + str(r_["size"]) for r_ in rows if "size" in r_), "")],
        "traces_validated_against_impl": len(items),
        "disagreements_checked": sum(len(it.flags) for it in items),
    })


def new_violations(ctx):
    return [v for v in ctx.violations if not v.get("known_class")]


def search(ctx):
    """obligations broken (a regenerated table, the opcode table or a limit constant changed): look for a failing
    input - first the DIRECTED families at their thorough size with the quick-sized random generator (a few
    minutes), and only if that finds nothing the whole thorough tier"""
    if _SEARCH["running"] or _SEARCH["done"] or ctx.replay_only:
        return
    old = ctx.tier
    ctx.tier = "thorough"
    _SEARCH["running"] = True
    try:
        _SEARCH["directed_pass"] = True
        log("[C04] search: directed families at thorough size")
        run_once(ctx)
        _SEARCH["directed_pass"] = False
        if not new_violations(ctx):
            log("[C04] search: whole thorough tier")
            run_once(ctx)
    finally:
        ctx.tier = old
        _SEARCH.update({"running": False, "done": True, "directed_pass": False})
