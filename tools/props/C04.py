"""C04 - accepted programs compile to code the interpreter can run blindly.

Theorems (coq/props/C04.v over Bytecode/Skeleton/Verifier/VerifierProofs/VerifierRun*.v): soundness of the
bytecode verifier (a checked annotation is an inductive invariant of the per-frame shape semantics: no
fetch outside the code, every constant/local/upvalue operand exists, one (height, handlers) shape per pc
when `unique`), operand widths, opcode numbering tie, jump-limit side condition (refuted today).

Tie = translation validation on EVERY run: the REAL compiler (harness `compile`, `corefns`) is run on the test
scripts, core.yl's methods, generated programs and a limit family sitting exactly on every encoding bound;
what it returns is re-encoded as a wire string and judged by the PROVED verifier under vm_compute
(`YV.VerifierRun.run_report`).  Oracle: compiler Ok => verifier OK with unique heights; one past a limit =>
compiler Err.  A flagged function is classified by (reason, instruction shape) into the known defect
classes of notes/C04-findings.json; anything else is a VIOLATION with the (shrunk) source as replay."""
import json
import os
import re

import yvlib
from yvlib import hx, log

LEVEL = "proof"
TRUSTED = [
    "Coq 8.16.1 kernel (coqc), vm_compute; no native_compute, no extraction",
    "translator/translate.py (constants of common.rs, OpCode enum + arg_sizes of chunk.rs, dispatch arms of vm.rs)",
    "the shape semantics Skeleton.v is a hand transcription of vm.rs (per-opcode stack effect, operand layout); "
    "its opcode numbering/names are re-tied to the regenerated enum on every run",
    "harness `yv` commands compile/corefns (dump of ObjFunction public fields), tools/props/C04.py "
    "(BFS renumbering, wire encoding, classification of flagged functions by a Python disassembler)",
]
ASSUMPTIONS = [
    "values are abstracted to shapes: kind-dependent panics (BuildString on non-strings, GetSuper on a non-class) are out of scope",
    "per-frame view: return_ip / handling_exception are treated as frame-local (cross-frame leaks are C08's)",
    "heights are relative to slot_base; the absolute bound (maxh * FRAMES_MAX <= STACK_MAX) is reported, not required",
]

FINDINGS_PATH = os.path.join(yvlib.VERIF, "notes", "C04-findings.json")

# ------------------------------------------------------------------------------------------------
# opcode table (python side: ONLY for classification/diagnostics; the verdict comes from Coq)

OPS = ["Constant", "Nil", "True", "False", "Pop", "CopyTop", "GetLocal", "SetLocal", "GetGlobal", "DefineGlobal",
       "SetGlobal", "GetUpvalue", "SetUpvalue", "GetProperty", "SetProperty", "GetClass", "GetSuper", "Equal",
       "Greater", "Less", "Add", "Subtract", "Multiply", "Divide", "BitwiseAnd", "BitwiseOr", "BitwiseXor", "Modulo",
       "LogicalNot", "BitwiseNot", "BitShiftLeft", "BitShiftRight", "Negate", "GetItem", "SetItem", "FormatString",
       "BuildHashMap", "BuildRange", "BuildString", "BuildTuple", "BuildVec", "IterNext", "Jump", "JumpIfFalse",
       "JumpIfStopIter", "Loop", "JumpFinally", "EndFinally", "PushExcHandler", "PopExcHandler", "Throw", "Call",
       "Invoke", "Construct", "SuperInvoke", "Closure", "CloseUpvalue", "Return", "DeclareClass", "DefineClass",
       "Inherit", "Method", "StaticMethod", "StartImport", "FinishImport"]
OPN = {n: i for i, n in enumerate(OPS)}
L16 = {"Constant", "GetGlobal", "DefineGlobal", "SetGlobal", "GetProperty", "SetProperty", "GetSuper", "Jump",
       "JumpIfFalse", "JumpIfStopIter", "Loop", "DeclareClass", "Method", "StaticMethod", "StartImport"}
L8 = {"GetLocal", "SetLocal", "GetUpvalue", "SetUpvalue", "BuildHashMap", "BuildString", "BuildTuple", "BuildVec",
      "Call", "Construct"}


class Fn:
    __slots__ = ("idx", "arity", "upv", "name", "code", "consts", "lines")

    def __init__(self, idx, arity, upv, name, code):
        self.idx, self.arity, self.upv, self.name, self.code = idx, arity, upv, name, code
        self.consts, self.lines = [], []


def parse_trees(lines):
    """F/C/LN lines of one record -> list of trees (each a list of Fn in the harness' depth-first numbering).
    A `P` line starts a new tree (corefns); `compile` yields one tree."""
    trees, cur, labels = [], None, []
    for l in lines:
        f = l.split(" ")
        if f[0] == "P":
            cur = []
            trees.append(cur)
            labels.append("%s.%s" % (yvlib.unhx(f[1]).decode(), yvlib.unhx(f[2]).decode()))
        elif f[0] == "F":
            if cur is None:
                cur = []
                trees.append(cur)
                labels.append("")
            fn = Fn(int(f[1]), int(f[2]), int(f[3]), "" if f[4] == "-" else yvlib.unhx(f[4]).decode("utf-8", "replace"),
                    b"" if f[5] == "-" else bytes.fromhex(f[5]))
            while len(cur) <= fn.idx:
                cur.append(None)
            cur[fn.idx] = fn
        elif f[0] == "C":
            cur[int(f[1])].consts = [c for c in f[2:] if c]
        elif f[0] == "LN":
            cur[int(f[1])].lines = [x for x in (f[2].split(",") if len(f) > 2 else []) if x != ""]
    return trees, labels


def bfs_order(tree):
    """depth-first numbered tree -> (list of Fn in breadth-first order, map dfs idx -> bfs idx)"""
    ren = {0: 0}
    order = [0]
    q = 0
    while q < len(order):
        fn = tree[order[q]]
        q += 1
        for c in fn.consts:
            if c[0] == "f":
                j = int(c[1:])
                if j not in ren:
                    ren[j] = len(order)
                    order.append(j)
    return [tree[i] for i in order], ren


def wire_of(tree):
    fns, ren = bfs_order(tree)
    parts = []
    for fn in fns:
        cs = "".join(("f%d." % ren[int(c[1:])]) if c[0] == "f" else (c[0] if c[0] in "sn" else "o") for c in fn.consts)
        parts.append("%d,%d:%s:%s" % (fn.arity, fn.upv, fn.code.hex(), cs))
    return "|".join(parts), fns


def disasm(fn, tree_bfs=None, upv_of=None):
    """-> list of (pc, name, a, b, nx); stops at the first undecodable byte"""
    code = fn.code
    out = []
    pc = 0
    n = len(code)
    while pc < n:
        b = code[pc]
        if b >= len(OPS):
            out.append((pc, "?%d" % b, 0, 0, n))
            break
        nm = OPS[b]
        a = bb = 0
        if nm in L16:
            if pc + 3 > n:
                break
            a = code[pc + 1] | (code[pc + 2] << 8)
            nx = pc + 3
        elif nm in L8:
            if pc + 2 > n:
                break
            a = code[pc + 1]
            nx = pc + 2
        elif nm == "PushExcHandler":
            if pc + 5 > n:
                break
            a = code[pc + 1] | (code[pc + 2] << 8)
            bb = code[pc + 3] | (code[pc + 4] << 8)
            nx = pc + 5
        elif nm in ("Invoke", "SuperInvoke"):
            if pc + 4 > n:
                break
            a = code[pc + 1] | (code[pc + 2] << 8)
            bb = code[pc + 3]
            nx = pc + 4
        elif nm == "Closure":
            if pc + 3 > n:
                break
            a = code[pc + 1] | (code[pc + 2] << 8)
            k = 0
            if upv_of is not None and a < len(fn.consts) and fn.consts[a][0] == "f":
                k = upv_of(int(fn.consts[a][1:]))
            nx = pc + 3 + 2 * k
        else:
            nx = pc + 1
        out.append((pc, nm, a, bb, nx))
        pc = nx
    return out


def listing(fn, tree):
    ins = disasm(fn, upv_of=lambda j: tree[j].upv if j < len(tree) and tree[j] else 0)
    return ins


# ------------------------------------------------------------------------------------------------
# classification of a flagged function into the known defect classes (narrow, syntactic)

def try_regions(ins):
    """-> list of dicts {push, body_start, catch, fin, has_catch, has_finally, end} from PushExcHandler operands"""
    regs = []
    by_pc = {i[0]: k for k, i in enumerate(ins)}
    for (pc, nm, a, b, nx) in ins:
        if nm == "PushExcHandler":
            catch = nx + a
            fin = catch + b
            regs.append({"push": pc, "body": nx, "catch": catch, "fin": fin, "has_catch": b != 0,
                         "catch_is_pop": catch in by_pc and ins[by_pc[catch]][1] == "PopExcHandler"})
    # end of a finally region = the matching EndFinally (first EndFinally at/after fin not claimed by an inner region)
    for r in regs:
        r["end"] = None
        depth = 0
        for (pc, nm, a, b, nx) in ins:
            if pc < r["fin"]:
                continue
            if nm == "PushExcHandler":
                depth += 1
            elif nm == "EndFinally":
                if depth == 0:
                    r["end"] = pc
                    break
                depth -= 1
        r["has_finally"] = r["end"] is not None and _finally_follows(ins, by_pc, r)
    return regs


def _finally_follows(ins, by_pc, r):
    # without a finally clause, `fin` is simply the code after the statement; we cannot tell syntactically from
    # the bytes alone whether the next EndFinally belongs to this handler - the classification only needs
    # "there is an EndFinally later in the function", so this is a conservative yes.
    return True


def loops_of(ins):
    """-> list of (start, loop_pc, exit) for every backward Loop"""
    res = []
    for (pc, nm, a, b, nx) in ins:
        if nm == "Loop":
            res.append((nx - a, pc, nx))
    return res


def classify(fn, tree, verdict):
    """verdict: dict(kind=REJECT|NONUNIQUE, pc, reason, pcs) -> known class name or None"""
    ins = listing(fn, tree)
    by_pc = {i[0]: k for k, i in enumerate(ins)}
    regs = try_regions(ins)
    loops = loops_of(ins)
    names = [i[1] for i in ins]
    pc = verdict["pc"]
    reason = verdict.get("reason")
    at = ins[by_pc[pc]][1] if pc in by_pc else None

    def in_try_body(q):
        return [r for r in regs if r["body"] <= q < r["catch"]]

    def jumps_out_of_try_in_loop():
        """a Jump (break) or Loop (continue) inside a try body whose target lies outside that try statement
        while the enclosing loop contains the try: the handler stays pushed"""
        kinds = set()
        for (q, nm, a, b, nx) in ins:
            if nm == "Jump":
                tgt = nx + a
                for r in in_try_body(q):
                    # the statement's own exit jump sits right after the body's PopExcHandler, i.e. at catch-3
                    if q == r["catch"] - 3:
                        continue
                    if tgt > r["catch"] or tgt < r["push"]:
                        kinds.add("break_in_try")
            elif nm == "Loop":
                tgt = nx - a
                for r in in_try_body(q):
                    if tgt <= r["push"]:
                        kinds.add("continue_in_try")
        # the same from a catch block or finally block: handlers of OUTER tries stay pushed
        return kinds

    def dead_pops_after_break():
        """`Jump` immediately followed by Pop/CloseUpvalue that no other instruction targets: break_statement emits
        the scope-end pops after the jump"""
        targets = set()
        for (q, nm, a, b, nx) in ins:
            if nm in ("Jump", "JumpIfFalse", "JumpIfStopIter"):
                targets.add(nx + a)
            elif nm == "Loop":
                targets.add(nx - a)
            elif nm == "PushExcHandler":
                targets.add(nx + a)
                targets.add(nx + a + b)
        hits = []
        for k, (q, nm, a, b, nx) in enumerate(ins):
            if nm == "Jump" and k + 1 < len(ins) and ins[k + 1][1] in ("Pop", "CloseUpvalue") and ins[k + 1][0] not in targets:
                # must be a break: inside some loop, target = that loop's exit or beyond
                if any(st <= q < lp for (st, lp, ex) in loops):
                    hits.append(q)
        return hits

    early = jumps_out_of_try_in_loop()
    dead = dead_pops_after_break()
    finally_only = [r for r in regs if not r["has_catch"] and r["end"] is not None]
    has_closure_capture = "Closure" in names
    # 1. spurious PopExcHandler at the first instruction of a catch block
    if reason == "NoHandler" and at == "PopExcHandler" and any(r["has_catch"] and r["catch"] == pc for r in regs):
        return "catch_pops_outer"
    # 2. early exits from try
    if early and (reason in ("ReturnWithHandlers", "TooManyStates", "HandlerAboveStack", "NoHandler", "FuelExhausted")
                  or verdict["kind"] == "NONUNIQUE"):
        return sorted(early)[0]
    # 3. open upvalue on an exceptional edge: a Closure capturing a local inside a try body
    if reason == "PopCaptured":
        if dead:
            return "break_dead_pops"
        if regs and has_closure_capture:
            return "unwind_open_upvalue"
    if verdict["kind"] == "NONUNIQUE":
        pcs = verdict.get("pcs") or [pc]
        # finally without catch: every nonunique pc from the first one lies at/after a finally-only region's start
        if finally_only and any(r["fin"] <= pc for r in finally_only):
            return "finally_two_heights"
        if dead:
            return "break_dead_pops"
    if reason in ("TooManyStates", "FuelExhausted", "HandlerAboveStack", "ReturnWithHandlers") and finally_only and not early:
        if any(r["fin"] <= pc or r["body"] <= pc for r in finally_only):
            return "finally_two_heights"
    if dead and reason in ("TooManyStates", "StackUnderflow", "PopBelowLocals", "LocalOutOfRange", "FuelExhausted"):
        return "break_dead_pops"
    return None
