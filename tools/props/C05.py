"""C05 - expressions group by the language's precedence and associativity, evaluate their operands once and left to
right and give the value / TypeError / ValueError / IndexError of the operator's definition; if/else, while, for,
break, continue, blocks and return transfer control as the source nesting says.

Theorems (coq/props/C05.v): Pratt round trip (unbounded at token level, 61 378 trees at text level), left
associativity and precedence order for every operator pair, operands_once_in_order, decompile_compile, ops_total /
ops_table, stack_discipline (all paths), compile_expr_correct / compile_stmt_correct / compile_program_correct
(M = CompileExpr + FragVM refines S = ExprSem for every program of the fragment).
Tie on every run:
 (t) translator: RULES table, the opcode(s) of every TokenKind arm of binary()/unary()/binary_assign(), the precedence
     each handler passes on, the order of emit/patch calls of every emitter (break: pops before Jump), the closures of the
     VM's operator arms and its stack conventions -> named side conditions of props/C05.v;
 (a) impl == M: `assemble (cprogram p)` + constant table == real chunk.code + constants, byte for byte (harness compile);
     FragVM on the model code == real VM (output, error kind + message);
 (b) grouping: `decompile` applied to the REAL bytes of generated jump-free expressions, spelled with parentheses only
     where the generator's own 16-level table requires them, returns the generator's tree;
 (c) impl == S: printed lines, outcome, error kind + first message vs ExprSem (fragment programs) and vs the full
     reference interpreter SpecScripts.run_case (programs beyond the fragment: functions, closures, for, return, ...)."""
import os
import re
import struct

import yvlib
from yvlib import hx, log

LEVEL = "proof"
TRUSTED = [
    "Coq 8.16.1 kernel (coqc), vm_compute; no native_compute, no extraction",
    "translator/translate_c05.py (token-level reading of the emitters of compiler.rs and the operator arms of vm.rs), "
    "translator/translate_c03.py (RULES table)",
    "the harness `yv` (commands compile, run), tools/*.py; the generator's own precedence table BIN (16 levels) as the "
    "statement of 'the language's precedence and associativity' for tie (b)",
    "ParseRun.parse_source (parser model) turns the generated source text into the tree given to ExprSem / CompileExpr",
    "modelled, not verified: f64 arithmetic through Num.v (Flocq-style spec floats), Rust `as` casts, UTF-8 boundaries",
    "tools/props/C05_scale.py: the lexical-scoping evaluator `zone_eval` (stack of dictionaries) and the closed forms of the "
    "ladder programs as size-independent oracles of the scale families (the zone programs also go through FnSem / FnVM / "
    "FnCompile and FullCompile at every size, which ties `zone_eval` to the reference evaluator on every generated program)",
]
ASSUMPTIONS = [
    "`==` on ranges is object identity through the VM's 8-entry range cache (definitional); generated programs create "
    "at most 8 distinct ranges and the bulk stream keeps `==`/`!=` away from ranges built in loops",
    "programs of the fragment do not mention built-in globals other than print",
]

# ------------------------------------------------------------------------------------------------------------------
# the language's table, stated independently of RULES (level 1 = loosest)
BIN = {'||': 2, '&&': 3, '==': 4, '!=': 4, '<': 5, '<=': 5, '>': 5, '>=': 5, '|': 6, '^': 7, '&': 8, '<<': 9, '>>': 9,
       '+': 10, '-': 10, '*': 11, '/': 11, '%': 11, '..': 12}
ARITH = ['+', '-', '*', '/', '%', '&', '|', '^', '<<', '>>']
PLAIN = ['+', '-', '*', '/', '%', '==', '!=', '<', '<=', '>', '>=', '&', '|', '^', '<<', '>>']
ALLB = list(BIN.keys())
UN = {'-': 'neg', '!': 'not', '~': 'inv'}


def prec(e):
    k = e[0]
    if k in ('asg', 'casg', 'sidx'):
        return 1
    if k == 'bin':
        return BIN[e[1]]
    if k == 'un':
        return 13
    return 15


def show(e, minp=1):
    """source text with parentheses exactly where the table requires them"""
    k = e[0]
    if k == 'lit' or k == 'var':
        s = e[1]
    elif k == 'str':
        s = '"' + e[1] + '"'
    elif k == 'un':
        s = e[1] + show(e[2], 13)
    elif k == 'bin':
        op = e[1]
        lv = BIN[op]
        if op in ('&&', '||'):
            s = show(e[2], lv + 1) + ' ' + op + ' ' + show(e[3], lv)
        elif op == '..':
            s = show(e[2], 12) + '..' + show(e[3], 13)
        else:
            s = show(e[2], lv) + ' ' + op + ' ' + show(e[3], lv + 1)
    elif k == 'asg':
        s = e[1] + ' = ' + show(e[2], 1)
    elif k == 'casg':
        s = e[1] + ' ' + e[2] + '= ' + show(e[3], 6)
    elif k == 'idx':
        s = show(e[1], 14) + '[' + show(e[2], 1) + ']'
    elif k == 'sidx':
        s = show(e[1], 14) + '[' + show(e[2], 1) + '] = ' + show(e[3], 1)
    elif k == 'tup':
        s = '(' + ', '.join(show(x, 1) for x in e[1]) + (',' if len(e[1]) == 1 else '') + ')'
    elif k == 'vec':
        s = '[' + ', '.join(show(x, 1) for x in e[1]) + ']'
    elif k == 'interp':
        s = '"' + ''.join(p if isinstance(p, str) else '${' + show(p, 1) + '}' for p in e[1]) + '"'
    elif k == 'call':
        s = show(e[1], 14) + '(' + ', '.join(show(x, 1) for x in e[2]) + ')'
    elif k == 'lam':
        s = '|' + ', '.join(e[1]) + '| ' + show(e[2], 1)
        return '(' + s + ')' if minp > 1 else s
    elif k == 'blk':          # block lambda called in place: braces inside an expression
        return '(|| { return ' + show(e[1], 1) + '; })()'
    elif k == 'par':          # explicit parentheses (no tree node)
        s = '(' + show(e[1], 1) + ')'
        return s
    else:
        raise ValueError(k)
    if prec(e) < minp:
        s = '(' + s + ')'
    return s


def sexp(e):
    """the rendering of YV.C05Run.show_expr"""
    k = e[0]
    if k == 'lit':
        if e[1] in ('nil', 'true', 'false'):
            return e[1]
        return 'n%d' % struct.unpack('>Q', struct.pack('>d', float(e[1])))[0]
    if k == 'str':
        return 's' + e[1].encode().hex()
    if k == 'var':
        return 'v' + e[1].encode().hex()
    if k == 'un':
        return '(%s %s)' % (UN[e[1]], sexp(e[2]))
    if k == 'bin':
        op = {'&&': 'and', '||': 'or', '..': 'range'}.get(e[1], e[1])
        return '(%s %s %s)' % (op, sexp(e[2]), sexp(e[3]))
    if k == 'asg':
        return '(asg %s %s)' % (e[1].encode().hex(), sexp(e[2]))
    if k == 'casg':
        return '(casg %s %s %s)' % (e[2], e[1].encode().hex(), sexp(e[3]))
    if k == 'idx':
        return '(idx %s %s)' % (sexp(e[1]), sexp(e[2]))
    if k == 'sidx':
        return '(sidx %s %s %s)' % (sexp(e[1]), sexp(e[2]), sexp(e[3]))
    if k == 'tup':
        return '(tup' + ''.join(' ' + sexp(x) for x in e[1]) + ')'
    if k == 'vec':
        return '(vec' + ''.join(' ' + sexp(x) for x in e[1]) + ')'
    if k == 'interp':
        return '(interp' + ''.join(' s' + p.encode().hex() if isinstance(p, str) else ' (e %s)' % sexp(p) for p in e[1]) + ')'
    if k == 'call':
        return '(call %s%s)' % (sexp(e[1]), ''.join(' ' + sexp(x) for x in e[2]))
    if k == 'par':
        return sexp(e[1])
    raise ValueError(k)


NUMS = ['0', '1', '2', '3', '7', '10', '64', '63', '255', '1.5', '0.25', '2.75', '100', '4294967296', '9007199254740993',
        '1000000', '0.1', '3.14159', '65', '31', '32', '123456789012345678901234567890']
STRS = ['', 'a', 'abc', 'héé', 'x y', '12', '日本']
RANGE_POOL = [('0', '1'), ('0', '2'), ('0', '3'), ('1', '2'), ('1', '3'), ('0', '-1'), ('1', '-1'), ('-2', '3')]
COUNTERS = ('i', 'j', 'n', 'm')


class Gen:
    """programs of the fragment (port of the generator used to validate the models)"""

    def __init__(self, rng):
        self.r = rng
        self.shapes = set()

    def lit_num(self):
        return ('lit', self.r.choice(NUMS))

    def special_num(self):
        r = self.r
        return r.choice([('bin', '/', ('lit', '0'), ('lit', '0')), ('bin', '/', ('lit', '1'), ('lit', '0')),
                         ('un', '-', ('bin', '/', ('lit', '1'), ('lit', '0'))), ('un', '-', ('lit', '0')),
                         ('un', '-', self.lit_num()), ('lit', '100000000000000000000000'),
                         ('bin', '*', ('lit', '100000000000000000000000'), ('lit', '0.000000000001'))])

    def rng_lit(self):
        b, e = self.r.choice(RANGE_POOL)
        mk = lambda t: ('un', '-', ('lit', t[1:])) if t.startswith('-') else ('lit', t)
        return ('bin', '..', mk(b), mk(e))

    def expr(self, vs, d, kind=None, restricted=False):
        r = self.r
        kind = kind or r.choice(['num', 'num', 'num', 'str', 'bool', 'any', 'any'])
        # restricted: False = free; True = directly under `op=` (operators from BitwiseOr up, no assignment);
        # 'na' = inside brackets under `op=` (any operator, but no assignment: can_assign is off under the flag)
        tight = restricted is True
        if not isinstance(vs, dict):
            vs = {v: 'any' for v in vs}
        # variables of the wanted kind (most of the time), so that most programs run to their end
        fit = [v for v in vs if kind == 'any' or vs[v] == kind or (vs[v] == 'any' and r.random() < 0.15)]
        avs = [v for v in vs if v not in COUNTERS and vs[v] == 'num'] if not restricted else []
        if d <= 0 or r.random() < 0.15:
            x = r.random()
            if fit and x < 0.4:
                return ('var', r.choice(fit))
            if kind == 'num':
                return self.lit_num() if r.random() < 0.85 else self.special_num()
            if kind == 'str':
                return ('str', r.choice(STRS))
            if kind == 'bool':
                return ('lit', r.choice(['true', 'false']))
            return r.choice([('lit', 'nil'), self.lit_num(), ('str', r.choice(STRS)), ('lit', 'true'), ('tup', []),
                             ('vec', [self.lit_num()])])
        x = r.random()
        sub = lambda k=None, dd=1, rs=restricted: self.expr(vs, d - dd, k, rs)
        if kind == 'num':
            if x < 0.55:
                return ('bin', r.choice(ARITH), sub('num'), sub('num'))
            if x < 0.65:
                return ('un', r.choice(['-', '~']), sub('num'))
            if x < 0.72 and avs:
                return ('asg', r.choice(avs), sub('num', 1, False))
            if x < 0.80 and avs:
                return ('casg', r.choice(avs), r.choice(ARITH), sub(r.choice(['num', 'num', 'bool']), 1, True))
            if x < 0.88:
                n = r.randint(1, 3)
                ix = ('lit', str(r.randint(0, n - 1))) if r.random() < 0.75 else sub('num', 2)
                return ('idx', ('vec', [sub('num', 2) for _ in range(n)]), ix)
            if x < 0.92:
                return ('idx', ('tup', [sub('num', 2) for _ in range(r.randint(1, 3))]),
                        r.choice([('lit', '0'), ('un', '-', ('lit', '1'))]))
            return sub('any')
        if kind == 'str':
            if x < 0.3:
                return ('bin', '+', sub('str'), sub('str'))
            if x < 0.7:
                parts = []
                for _ in range(r.randint(1, 3)):
                    if r.random() < 0.5 and (not parts or not isinstance(parts[-1], str)):
                        parts.append(r.choice(['a', 'b c', 'x=', 'é', ' ']))
                    else:
                        parts.append(sub(None))
                if all(isinstance(p, str) for p in parts):
                    parts.append(sub(None))
                return ('interp', parts)
            if x < 0.85:
                return ('idx', sub('str'), r.choice([('lit', '0'), ('lit', '1'), ('un', '-', ('lit', '1')), self.rng_lit()]))
            return ('str', r.choice(STRS))
        if kind == 'bool':
            if tight:
                # under a compound assignment: anything below BitwiseOr is allowed only inside brackets
                return ('par', self.expr(vs, d - 1, 'bool', 'na')) if r.random() < 0.7 else ('un', '!', sub(None))
            if x < 0.35:
                return ('bin', r.choice(['<', '<=', '>', '>=']), sub('num'), sub('num'))
            if x < 0.6:
                return ('bin', r.choice(['==', '!=']), sub(r.choice(['num', 'str', 'bool'])), sub(r.choice(['num', 'str', 'bool'])))
            if x < 0.85:
                return ('bin', r.choice(['&&', '||']), sub(), sub())
            return ('un', '!', sub())
        if x < 0.15:
            return ('tup', [sub(None) for _ in range(r.randint(0, 3))])
        if x < 0.3:
            return ('vec', [sub(None) for _ in range(r.randint(0, 3))])
        if x < 0.38:
            return self.rng_lit()
        if x < 0.5 and not tight:
            op = r.choice(ALLB)
            if op == '..':
                return self.rng_lit()
            return ('bin', op, sub(None), sub(None))
        if x < 0.6:
            return ('un', r.choice(['-', '!', '~']), sub(None))
        if x < 0.65:
            return ('call', ('var', 'print'), [sub(None, 1, 'na' if restricted else False)])
        return sub(r.choice(['num', 'str', 'bool']))

    # --- statements; sc = {'globals', 'locals' (list of lists), 'depth', 'loop'} ---
    def vars(self, sc):
        d = dict(sc['globals'])
        for l in sc['locals']:
            d.update(l)
        return d

    def stmt(self, sc, d, loops=False, outer='top'):
        r = self.r
        vs = self.vars(sc)
        if loops and sc['loop'] > 0 and r.random() < 0.25:
            self.shapes.add((outer, 'jump'))
            return r.choice(['break;', 'continue;', 'if ' + show(self.expr(vs, 2, 'bool')) + ' { break; }',
                             'if ' + show(self.expr(vs, 2, 'bool')) + ' { var q = 1; continue; }'])
        x = r.random()
        if loops and r.random() < 0.3:
            x = 0.85
        if x < 0.25 or d <= 0:
            self.shapes.add((outer, 'print'))
            return 'print(' + show(self.expr(vs, 3)) + ');'
        if x < 0.45:
            cur = sc['locals'][-1] if sc['depth'] > 0 else sc['globals']
            cand = [n for n in ['a', 'b', 'c', 'd', 'x', 'y', 'zz', 'k'] if sc['depth'] == 0 or n not in cur]
            name = r.choice(cand)
            # a local may not be read in its own initialiser
            ivs = {v: k for v, k in vs.items() if v != name} if sc['depth'] > 0 else vs
            kd = r.choice(['num', 'num', 'num', 'str', 'bool', 'any'])
            init = self.expr(ivs, 3, kd) if r.random() < 0.9 else None
            cur[name] = kd if init else 'any' 
            self.shapes.add((outer, 'var'))
            return 'var ' + name + (' = ' + show(init) if init else '') + ';'
        if x < 0.55:
            self.shapes.add((outer, 'expr'))
            return show(self.expr(vs, 3)) + ';'
        if x < 0.65:
            self.shapes.add((outer, 'block'))
            return '{ ' + self.block(sc, d - 1, loops, 'block') + ' }'
        if x < 0.8:
            self.shapes.add((outer, 'if'))
            s = 'if ' + show(self.expr(vs, 2, 'bool')) + ' { ' + self.block(sc, d - 1, loops, 'if') + ' }'
            if r.random() < 0.5:
                s += ' else '
                if r.random() < 0.3:
                    self.shapes.add((outer, 'elseif'))
                    s += 'if ' + show(self.expr(vs, 2, 'bool')) + ' { ' + self.block(sc, d - 1, loops, 'elseif') + ' }'
                else:
                    s += '{ ' + self.block(sc, d - 1, loops, 'else') + ' }'
            return s
        if x < 0.93:
            cand = [n for n in COUNTERS if n not in vs]
            if not cand:
                return 'print(1);'
            c = cand[0]
            pre = 'var ' + c + ' = 0; '
            (sc['locals'][-1] if sc['depth'] > 0 else sc['globals'])[c] = 'num'
            sc['loop'] += 1
            self.shapes.add((outer, 'while'))
            body = c + ' += 1; ' + self.block(sc, d - 1, loops, 'while')
            sc['loop'] -= 1
            return pre + 'while ' + c + ' < ' + str(r.randint(1, 3)) + ' { ' + body + ' }'
        if sc['loop'] > 0:
            self.shapes.add((outer, 'jump'))
            return r.choice(['break;', 'continue;'])
        return 'print(' + show(self.expr(vs, 2)) + ');'

    def block(self, sc, d, loops, outer):
        sc['locals'].append({})
        sc['depth'] += 1
        s = ' '.join(self.stmt(sc, d, loops, outer) for _ in range(self.r.randint(1, 4)))
        sc['depth'] -= 1
        sc['locals'].pop()
        return s

    def program(self, loops=False):
        sc = {'globals': {}, 'locals': [{}], 'depth': 0, 'loop': 0}
        return [self.stmt(sc, 3, loops) for _ in range(self.r.randint(1, 5))]

    def expr_program(self):
        ka, kb = self.r.choice(['num', 'num', 'str', 'bool', 'any']), self.r.choice(['num', 'num', 'str', 'any'])
        a = show(self.expr({}, 1, ka))
        b = show(self.expr({}, 1, kb))
        return ['var a = %s;' % a, 'var b = %s;' % b, 'print(%s);' % show(self.expr({'a': ka, 'b': kb}, 4)), 'print(a);', 'print(b);']

    # --- jump-free expressions for the decompile tie ---
    def dexpr(self, d, names):
        r = self.r
        if d <= 0 or r.random() < 0.15:
            x = r.random()
            if x < 0.35:
                return ('var', r.choice(names))
            if x < 0.65:
                return ('lit', r.choice(NUMS))
            if x < 0.8:
                return ('str', r.choice(['a', 'bc', 'é', 'x y']))
            return ('lit', r.choice(['nil', 'true', 'false']))
        x = r.random()
        sub = lambda dd=1: self.dexpr(d - dd, names)
        if x < 0.5:
            op = r.choice(PLAIN)
            self.shapes.add(('dec', op))
            return ('bin', op, sub(), sub())
        if x < 0.6:
            op = r.choice(['-', '!', '~'])
            a = sub()
            if op == '!' and a[0] == 'bin' and a[1] in ('==', '>', '<'):
                op = '-'      # `!(a == b)` is spelled `a != b` by the emitter: documented ambiguity
            return ('un', op, a)
        if x < 0.66:
            return ('bin', '..', sub(), sub())
        if x < 0.73:
            return ('idx', sub(), sub())
        if x < 0.77:
            return ('sidx', sub(), sub(), sub())
        if x < 0.82:
            return ('asg', r.choice(names), sub())
        if x < 0.87:
            return ('tup', [sub() for _ in range(r.choice([0, 1, 2, 3]))])
        if x < 0.92:
            return ('vec', [sub() for _ in range(r.randint(0, 3))])
        if x < 0.96:
            return ('call', r.choice([('var', 'print'), ('var', 'g'), sub(2)]), [sub() for _ in range(r.randint(0, 3))])
        parts = []
        for _ in range(r.randint(1, 3)):
            if r.random() < 0.5 and (not parts or not isinstance(parts[-1], str)):
                parts.append(r.choice(['a', 'b c', 'x=']))
            else:
                parts.append(sub())
        if all(isinstance(p, str) for p in parts):
            parts.append(sub())
        return ('interp', parts)



class FnGen(Gen):
    """programs of the function fragment: fn declarations (global / local), lambdas, calls, return, recursion,
    closures over enclosing locals (read, written, escaping), on top of the statement generator"""
    FN_NAMES = ['f', 'g', 'h', 'p', 'q2', 'mk']

    def __init__(self, rng):
        Gen.__init__(self, rng)
        self.infn = 0

    def fnvars(self, vs):
        return [(v, k) for v, k in vs.items() if isinstance(k, tuple)]

    def call(self, vs, d, want=None):
        fs = [(v, k) for v, k in self.fnvars(vs) if want in (None, 'any') or k[2] == want]
        if not fs:
            return None
        v, k = self.r.choice(fs)
        n = k[1] if self.r.random() < 0.93 else self.r.randint(0, 3)      # sometimes the wrong arity
        return ('call', ('var', v), [self.expr(vs, d - 1, 'num') for _ in range(n)])

    def lam(self, vs, d):
        ps = self.r.sample(['u', 'w', 't'], self.r.randint(0, 2))
        inner = dict((k, v) for k, v in vs.items())
        inner.update({p_: 'num' for p_ in ps})
        body = self.expr(inner, d - 1, 'num')
        return ('lam', ps, body), ('fn', len(ps), 'num')

    def expr(self, vs, d, kind=None, restricted=False):
        if not isinstance(vs, dict):
            vs = {v: 'any' for v in vs}
        r = self.r
        if d > 0 and not restricted and r.random() < 0.18:
            c = self.call(vs, d, kind)
            if c:
                self.shapes.add(('fn', 'call', kind))
                return c
        if d > 0 and kind in (None, 'str') and not restricted and r.random() < (0.3 if kind == 'str' else 0.06):
            depth = r.choice([2, 2, 3])
            self.shapes.add(('fn', 'interp-nest', depth))
            return self.nested_interp(vs, d, depth)
        if d > 1 and kind in (None, 'any') and not restricted and r.random() < 0.1:
            l, _ = self.lam(vs, d)
            self.shapes.add(('fn', 'lambda-value'))
            return ('call', l, [self.expr(vs, 1, 'num') for _ in range(len(l[1]))]) if r.random() < 0.5 else l
        plain = {v: k for v, k in vs.items() if not isinstance(k, tuple)}
        return Gen.expr(self, plain, d, kind, restricted)

    def nested_interp(self, vs, d, depth):
        """interpolations nested `depth` deep; the innermost expression is a block lambda called in place (braces inside
        the innermost interpolation); literal text contains braces"""
        r = self.r
        if depth <= 0:
            return ('blk', self.expr(vs, min(d - 1, 1), r.choice(['num', 'str', 'bool']), 'na'))
        parts = []
        for _ in range(r.randint(1, 2)):
            parts.append(r.choice(['', '{', '}', 'a{b}', '{}', '<', ' ']))
            inner = self.nested_interp(vs, d, depth - 1)
            if depth > 1 and r.random() < 0.3:
                inner = ('blk', inner)                      # a brace pair around the nested string
            elif depth > 1 and r.random() < 0.3:
                inner = ('bin', '+', inner, ('str', r.choice(['}', '{', 'z'])))
            parts.append(inner)
        parts.append(r.choice(['', '}', '{', '>']))
        return ('interp', [p_ for p_ in parts if p_ != ''])

    def fn_decl(self, sc, d, outer):
        r = self.r
        cur = sc['locals'][-1] if sc['depth'] > 0 else sc['globals']
        cand = [n for n in self.FN_NAMES if n not in cur]
        if not cand:
            return 'print(0);'
        name = r.choice(cand)
        ps = r.sample(['u', 'w', 't'], r.randint(0, 2))
        ret = r.choice(['num', 'num', 'num', 'str', 'any'])
        cur[name] = ('fn', len(ps), ret)          # in scope inside its own body: recursion
        saved = (sc['depth'], sc['loop'])
        sc['locals'].append({p_: 'num' for p_ in ps})
        sc['depth'], sc['loop'] = 1, 0
        self.infn += 1
        body = [self.stmt(sc, d - 1, True, 'fn') for _ in range(r.randint(0, 3))]
        vs = self.vars(sc)
        if r.random() < 0.85:
            if r.random() < 0.15 and d > 1:
                l, _ = self.lam(vs, 3)
                body.append('return ' + show(l) + ';')
                cur[name] = ('fn', len(ps), 'any')
            else:
                body.append('return ' + show(self.expr(vs, 3, ret)) + ';')
        self.infn -= 1
        sc['locals'].pop()
        sc['depth'], sc['loop'] = saved
        self.shapes.add((outer, 'fn', 'local' if sc['depth'] > 0 else 'global', len(ps)))
        return 'fn %s(%s) { %s }' % (name, ', '.join(ps), ' '.join(body))

    def stmt(self, sc, d, loops=False, outer='top'):
        r = self.r
        x = r.random()
        if d > 0 and x < 0.14:
            return self.fn_decl(sc, d, outer)
        if self.infn and x < 0.22:
            self.shapes.add((outer, 'return'))
            vs = self.vars(sc)
            return 'return;' if r.random() < 0.2 else 'return ' + show(self.expr(vs, 2)) + ';'
        if d > 0 and x < 0.30:
            vs = self.vars(sc)
            cur = sc['locals'][-1] if sc['depth'] > 0 else sc['globals']
            cand = [n for n in ['la', 'lb', 'lc'] if n not in cur]
            if cand:
                l, k = self.lam({v: kk for v, kk in vs.items() if v != cand[0]}, 3)
                cur[cand[0]] = k
                self.shapes.add((outer, 'var-lambda'))
                return 'var %s = %s;' % (cand[0], show(l))
        return Gen.stmt(self, sc, d, loops, outer)

    def program(self, loops=False):
        sc = {'globals': {}, 'locals': [{}], 'depth': 0, 'loop': 0}
        return [self.stmt(sc, 3, loops) for _ in range(self.r.randint(2, 6))]


# ------------------------------------------------------------------------------------------------------------------
# fixed probes: evaluation order, aliasing, identity, numeric edges, messages, scoping, control transfer
PROBES = [
    'var i = 0; var v = [0, 0, 0]; v[i = 1] = (i = 2); print(v); print(i);',
    'print(print(1) == print(2));',
    'var a = 1; print((a = 2) + (a = a * 10) + a);',
    'var a = 1; a += a * 2; print(a);',
    '{ var a = 1; a += a * 2; print(a); a -= 1; print(a); }',
    'print([print(1), print(2), print(3)]);', 'print((print(1), print(2)));', 'print("${print(1)}-${print(2)}");',
    'print(print(1)..print(2));', 'print(1..print(2));', 'print("a"..nil);', 'print(nil..1.5);',
    'print(false && print(1)); print(true && print(2)); print(nil || print(3)); print(1 || print(4));',
    'print(1 && 2 && 3); print(nil && 2 || 3); print(0 || nil); print(nil || false || "z");',
    'var a = [1]; var b = a; b[0] = 2; print(a); print(a == b); print(a == [2]); print([a, a]);',
    'var v = [1]; v[0] = v; print(v); print("${v}");',
    'var v = [0]; var t = (v,); v[0] = t; print(t); print(v);',
    'var t = (0/0,); print(t == t); print(t == (0/0,)); var u = t; print(u == t);',
    'var v = [0/0]; print(v == v); print(v == [0/0]);',
    'print(1 == 1.0); print("a" == "a"); print(nil == false); print(0 == -0); print((1, 2) == (1, 2)); print([1] == [1]); '
    'print(1..2 == 1..2); print(print == print); print(() == ()); print([] == ());',
    'print(-2 * 3 + 4 % 3 - 8 / 2 / 2); print(1 + 2 << 3 & 12 | 1 ^ 5); print(1 < 2 == 2 > 1); print(!true == false); '
    'print(-1..3); print(1..2+3 == 1);',
    'print(1 - 2 - 3); print(2 * 3 % 4); print(1 << 2 << 3); print(100 / 10 / 5); print(1..2..3);',
    'var x = 5; x <<= 2; print(x); x >>= 1; print(x); x %= 4; print(x); x |= 9; print(x); x &= 12; print(x); x ^= 5; print(x); '
    'x /= 2; print(x); x *= 3; print(x); x -= 1; print(x); x += 0.5; print(x);',
    'var s = "a"; s += "b"; print(s); s += 1;', 'var x = nil; x += 1;',
    'y = 1;', 'print(y);', 'y += 1;', '{ var q = 1; } print(q);',
    'nil(1);', '"a"();', '(1 + 2)(3);', 'var print = 3; print(1);',
    'var a = 1; { var a = 2; { var a = 3; print(a); } print(a); } print(a);',
    '{ var a = 1; var b = a + 1; { var c = a + b; print(c); a = c; } print(a); print(b); }',
    'var a = "g"; { var b = a; var a = "l"; print(a + b); }',
    'var i = 0; var s = 0; while i < 5 { i += 1; if i == 2 { continue; } if i == 4 { break; } s += i; } print(s); print(i);',
    'var i = 0; while i < 3 { i += 1; var j = 0; while j < 3 { j += 1; if j == 2 { continue; } if i == 2 { break; } print("${i},${j}"); } }',
    '{ var i = 0; while i < 3 { i += 1; if i == 2 { continue; } print(i); } print("done"); }',
    'if nil { print(1); } else if 0 { print(2); } else { print(3); }',
    'if true { print(1); } if false { print(2); } else { print(3); } if "" { print(4); }',
    'while false { print(1); } print(2);', 'var a; print(a); { var b; print(b); }',
    'print("héé"[0]); print("héé"[1]); print("héé"[2]);', 'print("héé"[1..3]); print("héé"[0..2]);', 'print("héé"[1..2]);',
    'print("日本"[3]); print("日本"[-3]); print("日本"[-1]);',
    'var v = [1, 2, 3]; var w = v[0..2]; w[0] = 9; print(v); print(w); print(v[1..1]); print((1, 2)[0..0] == ());',
    'print(1/0); print(-1/0); print(0/0); print(-0); print(0 * -1); print(1000000000000000000000); print(0.0000001); '
    'print(100000000000000000000); print(0.000001234); print(0.1 + 0.2); print(1/3); print(2 % 0); print(-7 % 3); '
    'print(7 % -3); print(5.5 % 2);',
    'print(1 << 63); print(1 << 64); print(1 << -1); print(-1 >> 70); print(-8 >> 1); print(1.9 << 1.9); print(~0); '
    'print(~1.5); print(~(0/0)); print(1000000000000000000000000000000 | 0); print(-1000000000000000000000000000000 | 0); '
    'print(1 << 4294967296); print(3 & 6.9); print(9007199254740993 ^ 1);',
    'print(0/0 <= 1); print(0/0 >= 1); print(0/0 < 1); print(0/0 != 0/0); print(1 <= 1); print(2 >= 3);',
    'print(nil < 1);', 'print("a" < "b");', 'print("a" <= 1);', 'print(1 >= nil);', 'print(1 + "a");', 'print("a" + 1);',
    'print(nil + nil);', 'print([1] + [2]);', 'print(-"a");', 'print(~nil);',
    'print(!nil); print(!0); print(!""); print(![]); print(!print);',
    'print("${1}${2.5}${true}${nil}${"s"}${(1, "a")}${[1, [2]]}${1..2}${print}${()}${(1,)}${[]}");',
    'print("a${1 + 2}b${"c" + "d"}e");', 'print("${"x${1}y"}");',
    'var a = 1; var b = 2; a = b = 3; print(a + b);', '{ var a = 1; var b = 2; a = b = 3; print(a + b); }',
    'var v = [[1, 2], [3]]; v[0][1] = 5; print(v); print(v[1][0]); print(v[-1][-1]);',
    'var v = [1]; print(v[0] = 2); print(v[0]);',
    'var x = 1; x += (1 == 1) + 2; print(x);', 'var x = 1; x += [1 == 1, 2][1]; print(x);',
    'var x = 1; print(x += 1 == 2); print(x);', 'var x = 1; x += 2 * 3 + 1 << 1; print(x);', 'var x = 3; x -= -x; print(x);',
    '{ var i = 0; while i < 3 { i += 1; var k = i * 10; if k == 20 { break; } print(k); } var z = 7; print(z); print(i); }',
    '{ var r = "r"; var i = 0; while i < 2 { i += 1; var a = "A"; var b = "B"; { var c = "C"; if i == 1 { break; } } } '
    'var q = "Q"; var w = "W"; print(q); print(w); print(r); print(i); }',
    '{ var i = 0; while i < 2 { i += 1; var a = "A"; break; } var q = "Q"; print(q); q = "R"; print(q); print(i); }',
    '{ var i = 0; while i < 4 { i += 1; var a = i; { var b = a * 2; if b == 4 { continue; } print(b); } } var z = "z"; print(z); }',
]

# the function fragment (FnSem / FnCompile / FnVM): fn, lambdas, calls, return, recursion, closures
FN_PROBES = ['fn f(a, b) { print(a); return a * b; } print(f(2, 3) + f(4, 5));', 'fn f() { return; } print(f()); fn g() { } print(g()); print(f); print(|x| x + 1);', 'var add = |a, b| a + b; print(add(1, 2)); print((|| 7)()); print((|x| { return x * 2; })(4));', 'fn fact(n) { if n <= 1 { return 1; } return n * fact(n - 1); } print(fact(10));', 'fn mk() { var c = 0; return || { c += 1; return c; }; } var a = mk(); var b = mk(); print(a()); print(a()); print(b());', 'fn f(x) { return x; } print(f(1, 2));', 'fn f(x) { return x; } print(f());', 'fn r(n) { return r(n + 1); } r(0);', '{ var x = 1; var g = || x; x = 2; print(g()); } { var y = 5; fn h() { return y; } print(h()); }', 'fn outer() { var a = 1; fn mid() { fn inner() { a += 1; return a; } return inner; } return mid(); } var i = outer(); print(i()); print(i());', 'var fs = []; var k = 0; while k < 3 { k += 1; var j = k * 10; fs = [|| j, fs]; } print(fs[0]()); print(fs[1][0]());', 'fn f() { var i = 0; while i < 3 { i += 1; var a = i; var g = || a; if i == 2 { break; } print(g()); } return i; } print(f());', '{ fn fib(n) { if n < 2 { return n; } return fib(n - 1) + fib(n - 2); } print(fib(10)); }', 'fn f(a) { var b = a; { var c = b; var g = || c + a; b = g(); } return b; } print(f(3));', 'fn f() { return |x| |y| x + y; } print(f()(1)(2)); print(f == f); print(f() == f());', 'fn f(a, a2) { var s = "${a}-${a2}"; return s; } print(f(1, "z")); print(f);', 'fn counter() { var n = 0; fn inc() { n += 1; return n; } fn get() { return n; } return (inc, get); } var c = counter(); c[0](); c[0](); print(c[1]());', 'var x = 1; fn g() { return x; } x = 2; print(g()); nil(); ', 'fn f() { var a = 1; var b = 2; var g = || b; var h = || a + b; return h() + g(); } print(f());']

# beyond the fragment: compared with the full reference interpreter (SpecScripts.run_case)
BEYOND_FIXED = [
    'fn f(a, b) { print(a); return a * b; } print(f(2, 3) + f(4, 5));',
    'fn t(x) { print(x); return x; } print(t(false) && t(1)); print(t(nil) || t(2) || t(3)); print(t(1) && t(0) && t(nil));',
    'fn f(n) { var s = 0; for i in 0..n { if i == 2 { continue; } if i == 5 { break; } s += i; } return s; } print(f(4)); print(f(9));',
    'fn f() { for x in [1, 2, 3] { for y in (10, 20) { if y == 20 { break; } if x == 2 { continue; } print(x + y); } } return "done"; } print(f());',
    'fn f(v) { var i = 0; while true { if v[i] == 0 { return i; } i += 1; } } print(f([3, 2, 0, 1]));',
    'fn mk() { var c = 0; return || { c += 1; return c; }; } var a = mk(); var b = mk(); print(a()); print(a()); print(b());',
    'var fs = []; for i in 0..3 { var k = i * i; fs.push(|| k + 1); } print(fs[0]()); print(fs[2]());',
    'fn f(x) { if x < 0 { return "neg"; } else if x == 0 { return "zero"; } return "pos"; } print(f(-1)); print(f(0)); print(f(5));',
    'fn g(a) { return a == 1; } var x = 1; x += g(1 == 1) == true; ',
    'fn g(a) { return a; } var x = 1; x += g(1 == 1 || false) + 2; print(x);',
    'var x = 2; x *= (1 < 2) == true; ', 'var x = 2; x *= [1 < 2, 3 | 4][1]; print(x);',
    'fn f() { { var a = 1; { var b = 2; return a + b; } } } print(f());',
    'fn f() { var r = []; for i in 0..3 { var a = i; for j in 0..3 { var b = j; if j > i { break; } if j == 1 { continue; } r.push((a, b)); } } return r; } print(f());',
    'fn f(s) { var out = ""; for c in s { out = "${out}<${c}>"; } return out; } print(f("héé"));',
    'fn f(a) { return "v=${a + 1} ${[a, a * 2][1]} ${(a..a + 2)}"; } print(f(3));',
    'fn f() { return; } print(f()); fn g() { } print(g());',
    'fn fact(n) { if n <= 1 { return 1; } return n * fact(n - 1); } print(fact(10)); print(fact(20));',
    'fn f(v) { v[0] = v[0] + 1; return v; } var a = [1]; print(f(a) == a); print(a);',
    'fn f() { var i = 0; while i < 10 { i += 1; var a = i; if a % 2 == 0 { continue; } if a > 6 { break; } print(a); } var z = i; return z; } print(f());',
]


def beyond_program(g):
    """random program beyond the fragment: functions, for, return, closures, short-circuit with effects"""
    r = g.r
    k = r.randint(0, 7)
    num = lambda d=2: show(g.expr(['a', 'b'], d, 'num', True))
    boolean = lambda: show(g.expr(['a', 'b'], 2, 'bool'))
    anye = lambda: show(g.expr(['a', 'b'], 2))
    g.shapes.add(('beyond', k))
    if k == 0:
        return 'fn f(a, b) { print(a); return %s; } print(f(%s, %s)); print(f(%s, %s) %s f(1, 2));' % (
            num(), r.choice(NUMS), r.choice(NUMS), r.choice(NUMS), r.choice(NUMS), r.choice(PLAIN))
    if k == 1:
        ops = [r.choice(['&&', '||']) for _ in range(3)]
        vals = [r.choice(['nil', 'false', '0', '1', '""', '"s"', 'true']) for _ in range(4)]
        return 'fn t(x) { print(x); return x; } print(t(%s) %s t(%s) %s t(%s) %s t(%s));' % (
            vals[0], ops[0], vals[1], ops[1], vals[2], ops[2], vals[3])
    if k == 2:
        b, e = r.choice(RANGE_POOL[:5])
        return ('fn f(a, b) { var s = 0; for i in %s..%s { var t = i + a; if %s { continue; } if %s { break; } s += t; print(s); } '
                'return s; } print(f(%s, %s));' % (b, r.choice(['3', '4', '5']), 'i == %d' % r.randint(0, 3),
                                                   't > %d' % r.randint(2, 8), r.choice(NUMS[:8]), r.choice(NUMS[:8])))
    if k == 3:
        return ('fn f(a, b) { for x in [%s, %s, %s] { var y = x; for z in (1, 2, 3) { if z == %d { break; } if %s { continue; } print((y, z)); } } '
                'return %s; } print(f(%s, %s));' % (anye(), anye(), anye(), r.randint(1, 3), 'z == %d' % r.randint(1, 3), anye(),
                                                    r.choice(NUMS[:8]), r.choice(NUMS[:8])))
    if k == 4:
        return ('fn mk(a) { var c = a; return || { c %s= %s; return c; }; } var p = mk(%s); var q = mk(%s); print(p()); print(p()); print(q());'
                % (r.choice(ARITH), r.choice(NUMS[:10]), r.choice(NUMS[:8]), r.choice(NUMS[:8])))
    if k == 5:
        op = r.choice(ARITH)
        inner = show(g.expr(['a', 'b'], 2, 'bool'))
        return 'fn g(v) { print(v); return 2; } var a = %s; var b = %s; var x = %s; x %s= g(%s) + [%s, 1][1]; print(x);' % (
            r.choice(NUMS[:8]), r.choice(NUMS[:8]), r.choice(NUMS[:8]), op, inner, inner)
    if k == 6:
        return ('fn f(a, b) { if %s { return "t"; } else if %s { { var q = a; return q; } } var w = %s; return w; } '
                'print(f(%s, %s)); print(f(%s, %s));' % (boolean(), boolean(), anye(), r.choice(NUMS[:8]), r.choice(NUMS[:8]),
                                                         r.choice(['nil', '"s"', 'true']), r.choice(NUMS[:8])))
    return ('fn f(a, b) { var i = 0; var acc = []; while i < 4 { i += 1; var t = %s; if i == %d { continue; } if i == %d { break; } '
            'acc.push("${i}:${t}"); } return acc; } print(f(%s, %s));' % (anye(), r.randint(1, 4), r.randint(2, 5),
                                                                           r.choice(NUMS[:8]), r.choice(NUMS[:8])))



def try_program(g):
    """loops containing try/catch with break / continue / return in the try block and in the catch clause, inside an outer
    handler (same function or a caller's), followed by a later throw that the OUTER handler must receive.  Kept away from the
    open C08 classes: no abrupt exit out of a try that has a finally clause, no return inside a try block, no locals in /
    abrupt exits from finally blocks."""
    r = g.r
    items = [r.choice([1, 2, 3, -1, -2, 5, 0, -7]) for _ in range(r.randint(2, 5))]
    loop = r.choice(['for', 'forrange', 'while'])
    in_try = r.choice(['none', 'none', 'break', 'continue'])
    in_catch = r.choice(['break', 'continue', 'return', 'none', 'break', 'continue'])
    guard_catch = r.random() < 0.4
    wrap_if = r.random() < 0.3
    outer = r.choice(['caller', 'same', 'both', 'nested_loop'])
    if outer in ('same', 'both') and in_catch == 'return':
        in_catch = 'break'       # a return lexically inside the OUTER try block is the open class return_in_try_catch_no_finally
    fin = r.random() < 0.25          # an extra try/finally (no abrupt exit) in the loop body
    g.shapes.add(('try', loop, in_try, in_catch, outer, wrap_if, guard_catch))
    a = 'acc.push(it); if it < 0 { throw it; }'
    if in_try != 'none':
        a += ' if it == %d { %s; }' % (r.choice(items), in_try)
    a += ' acc.push("t${it}");'
    jump = {'break': 'break;', 'continue': 'continue;', 'return': 'return acc;', 'none': ''}[in_catch]
    b = 'acc.push("c${e}");'
    if jump:
        b += (' if e == %d { %s }' % (r.choice([x for x in items if x < 0] or [-1]), jump)) if guard_catch else ' ' + jump
    body = 'try { %s } catch e { %s }' % (a, b)
    if wrap_if:
        body = 'if it != %d { %s } else { acc.push("skip"); }' % (r.choice(items), body)
    if fin:
        body += ' try { acc.push("f"); } finally { acc.push("F"); }'
    body += ' acc.push("end${it}");'
    lst = '[' + ', '.join(str(x) for x in items) + ']'
    if loop == 'for':
        lp = 'for it in items { %s }' % body
    elif loop == 'forrange':
        lp = 'for ix in 0..%d { var it = items[ix]; %s }' % (len(items), body)
    else:
        lp = 'var ix = 0; while ix < %d { var it = items[ix]; ix += 1; %s }' % (len(items), body)
    if outer == 'nested_loop':
        lp = 'for rep in (1, 2) { acc.push("r${rep}"); %s }' % lp
    if outer in ('same', 'both'):
        fbody = 'var acc = []; try { %s throw "in"; } catch e2 { acc.push("h${e2}"); } try { throw "in2"; } catch e3 { acc.push(e3); } return acc;' % lp
    else:
        fbody = 'var acc = []; %s return acc;' % lp
    prog = 'fn f(items) { %s } ' % fbody
    prog += 'try { print(f(%s)); throw "after"; } catch e { print("caught ${e}"); } ' % lst
    if outer in ('caller', 'both', 'nested_loop'):
        prog += 'fn g() { try { print(f(%s)); throw "g"; } catch e { print("g caught ${e}"); } return 1; } try { print(g()); throw "top"; } catch e { print("top ${e}"); }' % lst
    return prog


def recovery_program(g):
    """error recovery: a statement that raises (NameError via read of / assignment to / compound assignment to an undeclared
    global; TypeError / ValueError / IndexError from operators, with the failure in the right-hand side or in the target) inside
    try/catch, then later statements that re-read the same names, re-evaluate the same operands and assign again.
    S: an assignment whose evaluation raises changes nothing (what its operands did before the failure stays done)."""
    r = g.r
    undef = r.choice(['u1', 'u2', 'zz9'])
    bad = r.choice(['nil', '"s"', '(1, 2)', 'print', '[1]'])              # not a number
    op = r.choice(['+', '-', '*', '/', '%', '&', '<<'])
    fail_rhs = r.choice(['1 %s %s' % (op, bad), '-%s' % bad, 'v[9]', 'v[1.5]', '"ab"[7]', '1.5..2', 'nil()', 'w[0][3]', '~%s' % bad,
                         '%s < 2' % bad, 'und_%d' % r.randint(0, 3)])
    lines = ['var G = 10; var v = [1, 2, 3]; var w = [[7]]; #[constructor(new)] class C { } var o = C.new(); o.f = 5;',
             'fn tr(f) { try { print(f()); } catch e { print(type(e)); } }']
    shapes = []
    for _ in range(r.randint(2, 4)):
        k = r.choice(['undef_assign', 'undef_compound', 'undef_read', 'global_rhs', 'global_compound', 'local', 'upvalue', 'index_rhs',
                      'index_target', 'index_compound', 'field', 'field_compound', 'nested_effect'])
        shapes.append(k)
        cop = r.choice(['+', '-', '*', '/'])
        if k == 'undef_assign':
            lines.append('try { %s = %s; print("no"); } catch e { print(type(e)); } tr(|| %s); try { %s %s= 1; print(%s); } catch e { print(type(e)); } tr(|| %s);'
                         % (undef, r.choice(['10', 'G', '"x"']), undef, undef, cop, undef, undef))
        elif k == 'undef_compound':
            lines.append('try { %s %s= 2; print("no"); } catch e { print(type(e)); } tr(|| %s); try { %s = 4; } catch e { print(type(e)); } tr(|| %s);'
                         % (undef, cop, undef, undef, undef))
        elif k == 'undef_read':
            lines.append('tr(|| %s + 1); try { G = %s; } catch e { print(type(e)); } print(G); tr(|| %s);' % (undef, undef, undef))
        elif k == 'global_rhs':
            lines.append('try { G = %s; print("no"); } catch e { print(type(e)); } print(G); G = G + 1; print(G);' % fail_rhs)
        elif k == 'global_compound':
            lines.append('try { G %s= %s; print("no"); } catch e { print(type(e)); } print(G); G %s= 2; print(G);' % (cop, fail_rhs, cop))
        elif k == 'local':
            lines.append('{ var l = 3; try { l %s= %s; print("no"); } catch e { print(type(e)); } print(l); try { l = %s; } catch e { print(type(e)); } '
                         'print(l); l %s= 2; print(l); }' % (cop, fail_rhs, fail_rhs, cop))
        elif k == 'upvalue':
            lines.append('fn mk() { var c = 1; return (|| { c %s= %s; return c; }, || { c %s= 3; return c; }, || c); } var p = mk(); '
                         'tr(p[0]); tr(p[2]); tr(p[1]); tr(p[0]); tr(p[2]);' % (cop, fail_rhs, cop))
        elif k == 'index_rhs':
            lines.append('try { v[0] = %s; print("no"); } catch e { print(type(e)); } print(v); v[0] = v[0] + 1; print(v);' % fail_rhs)
        elif k == 'index_target':
            lines.append('try { v[%s] = 5; print("no"); } catch e { print(type(e)); } print(v); try { %s[0] = 1; } catch e { print(type(e)); } print(v);'
                         % (r.choice(['9', '-4', '1.5', 'nil', '"a"', '0..1']), r.choice(['nil', '"str"', '(1, 2)', 'G'])))
        elif k == 'index_compound':
            # the language has no `v[i] op= e`; spelled out
            lines.append('try { v[1] = v[1] %s %s; print("no"); } catch e { print(type(e)); } print(v); v[1] = v[1] %s 2; print(v);' % (cop, bad, cop))
        elif k == 'field':
            lines.append('try { o.f = %s; print("no"); } catch e { print(type(e)); } print(o.f); try { o.g = o.nope; } catch e { print(type(e)); } '
                         'tr(|| o.g); o.f = o.f + 1; print(o.f);' % fail_rhs)
        elif k == 'field_compound':
            lines.append('try { o.f %s= %s; print("no"); } catch e { print(type(e)); } print(o.f); o.f %s= 2; print(o.f);' % (cop, bad, cop))
        else:
            lines.append('try { v[9] = (v[0] = 50); print("no"); } catch e { print(type(e)); } print(v); '
                         'try { G = (G = 7) + %s; } catch e { print(type(e)); } print(G); try { w[0][0] = (w[0] = [8]) + 1; } catch e { print(type(e)); } print(w);' % bad)
    g.shapes.add(('recover',) + tuple(sorted(set(shapes))))
    for k in shapes:
        g.shapes.add(('recover1', k))
    return ' '.join(lines)


RECOVERY_FIXED = [
    'var total = 0; try { ghost = 10; } catch e { print("assign failed: ${type(e)}"); } try { print("read gave ${ghost}"); } catch e { print("read failed: ${type(e)}"); } '
    'for i in 1..4 { try { ghost += i; print("add-assign gave ${ghost}"); } catch e { total += i; } } print("sum ${total}");',
    'try { q = 1; } catch e { print(type(e)); } try { print(q); } catch e { print(type(e)); } var q = 2; print(q); q = 3; print(q);',
    'fn f() { try { zed -= 1; } catch e { print(type(e)); } try { return zed; } catch e { return type(e); } } print(f()); print(f());',
]


def capture_exit_program(g, frag):
    """directed: closures capture loop-body locals, then break / continue / return leaves the iteration (the scope-exit code of
    the jump must CLOSE every captured local, not pop it), then the freed slots are reused by later locals, then every closure
    is called.  for / while, nesting 1-2 (inner block, inner loop), several captured locals, captured and uncaptured interleaved,
    closures that read and closures that write.  frag=True: only the forms of the function fragment (while, v[i] = e);
    frag=False: also for loops and v.push(e) (compared with the full reference interpreter).
    S: a closure denotes the variable of the iteration that created it, whatever way the iteration ended."""
    r = g.r
    exitk = r.choice(['break', 'continue', 'break', 'continue', 'return'])
    where = r.choice(['fn', 'fn', 'block']) if exitk != 'return' else 'fn'
    loop = 'while' if frag else r.choice(['for', 'forvec', 'while'])
    nest = r.choice(['flat', 'flat', 'block', 'innerloop', 'outerloop'])
    glob = (exitk == 'return') or r.random() < 0.3            # the closure store is a global
    push = (not frag) and r.random() < 0.6
    n_it = r.randint(3, 5)
    kx = r.randint(1, n_it - 1)
    cnt = [0]

    def store(e):
        return 'fs.push(%s);' % e if push else 'fs = [%s, fs];' % e          # no methods in the fragment: a linked list

    def decls(tag, lv):
        """1-4 locals, captured and uncaptured interleaved, then one closure per captured local"""
        ds, caps, out = [], [], []
        for j in range(r.randint(1, 4)):
            cnt[0] += 1
            nm = '%s%d' % (tag, cnt[0])
            init = r.choice(['%s * 10 + %d' % (lv, j), '%s + %d' % (lv, 100 * (j + 1)), '"%s${%s}"' % (nm, lv)])
            ds.append('var %s = %s;' % (nm, init))
            if r.random() < 0.65 or (j == 0 and not caps):
                caps.append((nm, init.startswith('"')))
        for nm, is_s in caps:
            kind = r.choice(['read', 'read', 'write', 'pair'])
            if kind == 'read':
                out.append(store('|| %s' % nm))
            elif kind == 'write':
                out.append(store('|| { %s = %s; return %s; }' % (nm, ('%s + "!"' if is_s else '%s + 1') % nm, nm)))
            else:
                other = r.choice(caps)[0]
                out.append(store('|| "${%s}/${%s}"' % (nm, other)))
        g.shapes.add(('capexit-decl', len(ds), len(caps)))
        return ' '.join(ds), ' '.join(out)

    jump = {'break': 'break;', 'continue': 'continue;', 'return': 'return;'}[exitk]
    cond = r.choice(['%s == %d' % ('i', kx), 'i % 2 == 0', 'i >= %d' % kx]) if exitk == 'continue' else 'i == %d' % kx
    d1, c1 = decls('x', 'i')
    body = d1 + ' ' + c1
    if nest == 'block':
        d2, c2 = decls('z', 'i')
        body += ' { %s %s if %s { %s } }' % (d2, c2, cond, jump)
    elif nest == 'innerloop':          # the jump belongs to the inner loop; the outer body's captured locals stay
        d2, c2 = decls('z', 'j')
        inner_jump = jump if exitk == 'return' else r.choice(['break;', 'continue;'])
        body += ' var j = 0; while j < 3 { j += 1; %s %s if j == 2 { %s } print("in${j}"); }' % (d2, c2, inner_jump)
        body += ' if %s { %s }' % (cond, jump)
    else:
        body += ' if %s { %s }' % (cond, jump)
    if r.random() < 0.6:
        d3, c3 = decls('w', 'i')
        body += ' %s %s' % (d3, c3)
    body += ' print("end${i}");'
    if loop == 'while':
        lp = 'var i = 0; while i < %d { i += 1; %s }' % (n_it, body)
    elif loop == 'for':
        lp = 'for i in 1..%d { %s }' % (n_it + 1, body)
    else:
        lp = 'for i in [%s] { %s }' % (', '.join(str(x) for x in range(1, n_it + 1)), body)
    if nest == 'outerloop':            # the capturing loop runs twice inside an outer loop with its own captured local
        lp = 'var o = 0; while o < 2 { o += 1; var ox = o * 1000; %s %s }' % (store('|| ox'), lp)
    reuse = ' '.join('var %s = "%s";' % (c, c) for c in ['ra', 'rb', 'rc', 'rd', 're', 'rf'][:r.randint(2, 6)])
    if push:
        callall = 'for f in fs { print(f()); } for f in fs { print(f()); }'
        init = 'var fs = [];'
    else:
        callall = 'var k = fs; while k != nil { print(k[0]()); k = k[1]; } k = fs; while k != nil { print(k[0]()); k = k[1]; }'
        init = 'var fs = nil;'
    g.shapes.add(('capexit', exitk, where, loop, nest, glob, push))
    if where == 'block':
        return '{ %s %s %s %s print(ra); }' % (init, lp, reuse, callall)
    if glob:
        return ('%s fn run() { %s %s print(rb); } run(); fn later(p, q, s) { %s %s print(p); } later(1, 2, 3);'
                % (init, lp, reuse, reuse, callall))
    return 'fn run() { %s %s %s %s print(ra); } run();' % (init, lp, reuse, callall)


CAPEXIT_FIXED_FRAG = [
    'fn run() { var fs = [nil, nil, nil]; var n = 0; var i = 0; while i < 5 { var x = i * 10; fs[n] = || x; n += 1; if i == 2 { break; } i += 1; } '
    'var a = "a"; var b = "b"; var c = "c"; var k = 0; while k < n { print(fs[k]()); k += 1; } } run();',
    'fn run() { var fs = [nil, nil]; var n = 0; var i = 0; while i < 2 { var y = 100 + i; fs[n] = || y; n += 1; i += 1; if i < 5 { continue; } print("unreachable"); } '
    'var a = "a"; var b = "b"; var k = 0; while k < n { print(fs[k]()); k += 1; } } run();',
    '{ var g = nil; var h = nil; var i = 0; while i < 3 { i += 1; var u = "u"; var x = i; var v = "v"; var y = i * 2; g = || x + y; h = || { y += 1; return y; }; '
    '{ var z = 7; if i == 2 { break; } } } var p = "p"; var q = "q"; var s = "s"; var t = "t"; var w = "w"; print(g()); print(h()); print(g()); }',
]

CAPEXIT_FIXED_BEYOND = [
    'fn run_break() { var fs = []; for i in 0..5 { var x = i * 10; fs.push(|| x); if i == 2 { break; } } var a = "a"; var b = "b"; var c = "c"; for f in fs { print(f()); } } '
    'fn run_continue() { var fs = []; var i = 0; while i < 2 { var y = 100 + i; fs.push(|| y); i += 1; if i < 5 { continue; } print("unreachable"); } '
    'var a = "a"; var b = "b"; for f in fs { print(f()); } } run_break(); run_continue();',
    'fn f() { var fs = []; for a in [1, 2] { var p = a; for b in (1, 2, 3) { var q = b * 10; fs.push(|| p + q); if b == 2 { break; } } fs.push(|| p); if a == 1 { continue; } } '
    'var r1 = "r"; var r2 = "r"; var r3 = "r"; var r4 = "r"; var out = []; for g in fs { out.push(g()); } return out; } print(f());',
]


def brace_expr(g):
    """an expression whose text contains { }: map literals, block lambdas called in place, nested maps, strings with braces"""
    r = g.r
    k = r.randint(0, 9)
    g.shapes.add(('brace', k))
    if k == 0:
        return '{1: "a", 2: "b"}.len()'
    if k == 1:
        return '{1: "p", 2: "q"}.get(%d)' % r.choice([1, 2])
    if k == 2:
        return '(|| { return %d + %d; })()' % (r.randint(0, 9), r.randint(0, 9))
    if k == 3:
        return '(|u| { var t = u * 2; { t += 1; } return t; })(%d)' % r.randint(0, 9)
    if k == 4:
        return '{1: {2: "deep"}}.get(1).get(2)'
    if k == 5:
        return '{"k}": %d, "{j": 2}.get("k}")' % r.randint(0, 9)
    if k == 6:
        return '(|| { if %s { return "{"; } return "}"; })()' % r.choice(['true', 'false'])
    if k == 7:
        return '"{" + "}"' if r.random() < 0.5 else '"a{b}c"'
    if k == 8:
        return '(|| { var m = {1: "x"}; return m.get(1); })()'
    return '{1: (|| { return "v"; })()}.get(1)' if r.random() < 0.7 else '{}.len()'


def interp_nest(g, depth):
    """a string literal whose interpolations nest `depth` deep; innermost expressions contain braces; literal text has braces"""
    r = g.r
    parts = []
    for _ in range(r.randint(1, 2)):
        parts.append(r.choice(['', 'a', '<', '{', '}', '{ ', ' }', '{}', 'x{y}z']))
        if depth <= 1:
            inner = brace_expr(g)
        else:
            w = r.randint(0, 4)
            sub = interp_nest(g, depth - 1)
            if w == 0:
                inner = sub
            elif w == 1:
                inner = '%s + %s' % (sub, r.choice(['"}"', '"{"', '"+"']))
            elif w == 2:
                inner = '(|| { return %s; })()' % sub              # a brace pair AROUND the nested interpolation
            elif w == 3:
                inner = '{1: %s}.get(1)' % sub
            else:
                inner = '[%s, %s][0]' % (sub, brace_expr(g))
        parts.append('${%s%s%s}' % (r.choice(['', ' ']), inner, r.choice(['', ' '])))
    parts.append(r.choice(['', '>', '}', '{', ' end']))
    return '"' + ''.join(parts) + '"'


def interp_program(g):
    r = g.r
    depth = r.choice([1, 2, 2, 2, 3, 3])
    n = r.randint(1, 3)
    g.shapes.add(('interp-nest', depth, n))
    lines = []
    for _ in range(n):
        s = interp_nest(g, depth)
        lines.append(r.choice(['print(%s);', 'var s = %s; print(s); print(s.len());', 'fn f() { return %s; } print(f());',
                               'if true { print(%s); }']) % s)
        depth = r.choice([2, 3])
    return ' '.join(lines) + ' print("after");'


INTERP_FIXED = [
    'print("one map: ${ {1: "a", 2: "b"}.len() }"); print("lambda: ${ (|| { return 3 + 4; })() }"); '
    'print("nested: ${ "<len ${ {1: "a", 2: "b"}.len() }>" }"); print("nested lambda: ${ "[${ (|| { return 3 + 4; })() }]" }");',
    'print("a${ "b${ "c${ {1: "d"}.get(1) }e" }f" }g");',
    'print("${ (|| { return "x${ (|| { return "y${ {1: 2}.get(1) }"; })() }"; })() }");',
    'print("{${ "{${ "}" }}" }}"); print("}${ "${ "{" }" }{");',
]

# inside the function fragment (block lambdas called in place; no maps): FnSem / FnVM through the parser model
INTERP_FIXED_FRAG = [
    'print("lambda: ${ (|| { return 3 + 4; })() }"); print("nested lambda: ${ "[${ (|| { return 3 + 4; })() }]" }");',
    'print("${ (|| { return "x${ (|| { return "y${ (|u| { return u; })(2) }"; })() }"; })() }");',
    'print("{${ "{${ "}" }}" }}"); print("}${ "${ "{" }" }{");',
    'var a = 1; print("p${ "q${ (|| { { a += 1; } return a; })() }r${ a }" }s");',
]


TRY_FIXED = [
    'fn first_negative(items) { var found = nil; for it in items { try { if it < 0 { throw it; } } catch e { found = e; break; } } return found; } '
    'try { print(first_negative([1, 2, -3, 4])); throw "after"; } catch e { print("caught ${e}"); }',
    'fn f(items) { var n = 0; for it in items { try { if it < 0 { throw it; } n += it; } catch e { continue; } n += 100; } return n; } '
    'try { print(f([1, -2, 3])); throw "after"; } catch e { print("caught ${e}"); }',
    'fn f() { var i = 0; while i < 3 { i += 1; try { throw i; } catch e { if e == 2 { return "r${e}"; } } } return "none"; } '
    'try { print(f()); throw "x"; } catch e { print("outer ${e}"); }',
    'fn f() { var out = []; for a in (1, 2) { for b in (1, 2) { try { if b == 2 { throw b; } out.push((a, b)); } catch e { break; } } try { throw "o${a}"; } catch e { out.push(e); } } return out; } '
    'try { print(f()); throw "z"; } catch e { print(e); }',
    'try { var i = 0; while i < 4 { i += 1; try { if i == 2 { continue; } if i == 3 { break; } print(i); } catch e { print("no"); } } throw "late"; } catch e { print("got ${e}"); }',
]

# ------------------------------------------------------------------------------------------------------------------
# canonical outcomes

def strip_unhandled(m):
    return re.sub(r'^Unhandled \w+: ', '', m)


def norm_line(l):
    return re.sub(r" @ (0x[0-9a-f]+|ADDR)", "", l)


def impl_canon(rec):
    k, v = rec.result
    out = "|".join(norm_line(x) for x in rec.output)
    if k == "ok":
        return out + "#ok"
    if k == "err":
        msgs = rec.messages
        return out + "#%s:%s" % (v, strip_unhandled(msgs[0]) if msgs else "")
    return out + "#%s:%s" % (k, str(v)[:120])


def model_canon(s):
    """'O =hex,=hex|R ok' / 'O ..|R Kind msghex' (ExprSem / FragVM renderings of FragVM.v)"""
    m = re.match(r"^O ([0-9a-f,=]*)\|R (.*)$", s or "")
    if not m:
        return "?" + str(s)[:80]
    out = "|".join(bytes.fromhex(x[1:]).decode("utf-8", "replace") for x in m.group(1).split(",")) if m.group(1) != "" else ""
    r = m.group(2)
    if r == "ok":
        return out + "#ok"
    f = r.split(" ")
    if len(f) == 2 and re.fullmatch(r"[0-9a-f]*", f[1]):
        return out + "#%s:%s" % (f[0], bytes.fromhex(f[1]).decode("utf-8", "replace"))
    return out + "#" + r


def spec_canon(s):
    m = re.match(r"^out=\[([0-9a-f,]*)\];res=(.*)$", s or "")
    if not m:
        return None
    out = "|".join(norm_line(bytes.fromhex(x).decode("utf-8", "replace")) for x in m.group(1).split(",")) if m.group(1) != "" else ""
    r = m.group(2)
    if r.startswith("ok:"):
        return out + "#ok"
    mm = re.match(r"^err:(\w+):\[([0-9a-f,]*)\]$", r)
    if mm:
        first = mm.group(2).split(",")[0]
        return out + "#%s:%s" % (mm.group(1), strip_unhandled(bytes.fromhex(first).decode("utf-8", "replace")))
    return None      # fuel / unreadable


def real_compiled(rec):
    """('ok', codehex, 'S..,N..') of the script function | ('nested', ..) | ('err', first message)"""
    if rec.crashed:
        return ("crash", str(rec.crashed), "")
    r = rec.tagged("R")
    if not r or r[-1][0] != "ok":
        return ("err", rec.messages[0] if rec.messages else "", "")
    fs = rec.tagged("F")
    cs = rec.tagged("C")
    if len(fs) != 1:
        return ("nested", "", "")
    code = "" if fs[0][4] == "-" else fs[0][4]
    consts = []
    for c in cs[0][1:]:
        if not c:
            continue
        if c[0] == "s":
            consts.append("S" + c[1:])
        elif c[0] == "n":
            consts.append("N" + c[1:])
        else:
            consts.append("?" + c)
    return ("ok", code, ",".join(consts))


def wire_consts(k):
    """'S6162,N123' -> Wire.parse_nss groups"""
    gs = []
    for c in k.split(","):
        if not c:
            continue
        if c[0] == "N":
            gs.append("0 " + c[1:])
        else:
            gs.append(" ".join(["1"] + [str(b) for b in bytes.fromhex(c[1:])]))
    return ";".join(gs)


# ------------------------------------------------------------------------------------------------------------------

FE, FV = "300", "(300*200)"
SCALE = float(os.environ.get("C05_SCALE", "1"))   # hand-mutation runs use a fraction of the generators
PRE = "Open Scope string_scope.\n"


class Stats:
    def __init__(self):
        self.n = dict(programs=0, bytes_equal=0, eval_equal=0, vm_equal=0, compile_errors_agreed=0, decompiled=0,
                      spec_compared=0, spec_equal=0, spec_fuel=0, outside_fragment=0, runs_ok=0, runs_err=0,
                      fn_programs=0, fn_trees_equal=0, fn_functions=0, fn_eval_equal=0, fn_vm_equal=0, fn_fuel=0)
        self.shapes = set()
        self.samples = []


def check_fragment(ctx, st, progs, tag, want_fragment=True):
    """progs: list of (source, meta).  (a) bytes, FragVM vs VM; (c) ExprSem vs VM.  Returns per-program verdicts."""
    if not progs:
        return []
    binary = ctx.harness("release")
    srcs = [p[0] for p in progs]
    lines = []
    for s in srcs:
        lines.append("compile " + hx(s))
        lines.append("run - " + hx(s))
    recs = yvlib.run_harness(binary, lines, case_timeout_ms=8000)
    vals = yvlib.coq_eval(["YV:C05Run"], ['c05_case %s %s "%s"' % (FE, FV, hx(s)) for s in srcs],
                          shard_size=max(8, (len(srcs) + 4 * yvlib.NPROC - 1) // (4 * yvlib.NPROC)), tag="C05" + tag, preamble=PRE)
    verdicts = []
    for i, (src, meta) in enumerate(progs):
        st.n["programs"] += 1
        comp, run = real_compiled(recs[2 * i]), recs[2 * i + 1]
        v = vals[i]
        verdict = "ok"
        if v is None:
            ctx.corr_broken.append("model evaluation failed (coq_eval) on: " + src[:300])
            verdicts.append("evalfail")
            continue
        if comp[0] == "err":
            if v.startswith("F|"):
                ctx.corr_broken.append("real compiler rejects (%s) what the model compiles: %s" % (comp[1][:120], src[:300]))
                verdict = "corr"
            else:
                st.n["compile_errors_agreed"] += 1
            verdicts.append(verdict)
            continue
        if not v.startswith("F|"):
            if want_fragment:
                ctx.corr_broken.append("model rejects (%s) a program the real compiler accepts: %s" % (v[:80], src[:300]))
                verdict = "corr"
            else:
                st.n["outside_fragment"] += 1
            verdicts.append(verdict)
            continue
        mbytes, meval, mvm = v[2:].split("#")
        rbytes = "C %s|K %s" % (comp[1], comp[2])
        if comp[0] != "ok" or mbytes != rbytes:
            ctx.corr_broken.append("assemble(cprogram p) != chunk.code/constants: %s | model %s | real %s" % (src[:300], mbytes[:400], rbytes[:400]))
            verdict = "corr"
        else:
            st.n["bytes_equal"] += 1
        ic = impl_canon(run)
        st.n["runs_ok" if ic.endswith("#ok") else "runs_err"] += 1
        ec, vc = model_canon(meval), model_canon(mvm)
        if "FUEL" in meval or "FUEL" in mvm:
            verdicts.append("fuel")
            continue
        if ic != ec:
            ctx.violation("printed lines / outcome / error differ from the reference evaluator (ExprSem)", input=src,
                          expected=ec, actual=ic, model_machine=vc, meta=str(meta))
            verdict = "violation"
        else:
            st.n["eval_equal"] += 1
        if ic != vc:
            if ic == ec:
                ctx.corr_broken.append("FragVM on the model code != real VM: %s | model %s | real %s" % (src[:300], vc[:300], ic[:300]))
                verdict = "corr"
        else:
            st.n["vm_equal"] += 1
        verdicts.append(verdict)
    return verdicts


def check_decompile(ctx, st, cases, tag):
    """cases: (tree, locals [(name, literal)]).  decompile(REAL bytes) must be the generator's tree."""
    if not cases:
        return
    binary = ctx.harness("release")
    srcs = []
    for tree, locs in cases:
        body = show(tree) + ";"
        srcs.append("{ " + " ".join("var %s = %s;" % (n, l) for n, l in locs) + " " + body + " }" if locs else body)
    recs = yvlib.run_harness(binary, ["compile " + hx(s) for s in srcs], case_timeout_ms=8000)
    terms, keep = [], []
    for (tree, locs), src, rec in zip(cases, srcs, recs):
        comp = real_compiled(rec)
        if comp[0] != "ok":
            ctx.violation("a generated jump-free expression does not compile: " + comp[1][:200], input=src,
                          expected="compiles", actual=comp[0] + ":" + comp[1][:200])
            continue
        names = ";".join(" ".join(str(b) for b in n.encode()) for n, _ in locs)
        terms.append('c05_decomp "%s" "%s" "%s"' % (names, comp[1], wire_consts(comp[2])))
        keep.append((tree, src))
    vals = yvlib.coq_eval(["YV:C05Run"], terms, shard_size=max(8, (len(terms) + 2 * yvlib.NPROC - 1) // (2 * yvlib.NPROC)),
                          tag="C05dec" + tag, preamble=PRE)
    for (tree, src), v in zip(keep, vals):
        want = sexp(tree)
        if v == want:
            st.n["decompiled"] += 1
        elif v in (None, "DISASM", "NONE"):
            ctx.corr_broken.append("decompile fails on the real bytes of a jump-free expression (%s): %s" % (v, src[:300]))
        else:
            ctx.violation("the compiled code groups the expression differently from the language's precedence/associativity table",
                          input=src, expected=want, actual=v)


def check_beyond(ctx, st, srcs, tag):
    """programs beyond the fragment: real VM vs the full reference interpreter"""
    if not srcs:
        return
    if not all(os.path.exists(os.path.join(yvlib.COQ, "theories", f)) for f in ("SpecRun.vo", "ParseRun.vo", "SpecScripts.vo")):
        ctx.notes.append("SpecScripts not built: comparison with the full reference interpreter skipped")
        return
    binary = ctx.harness("release")
    recs = yvlib.run_harness(binary, ["run - " + hx(s) for s in srcs], case_timeout_ms=8000)
    vals = yvlib.coq_eval(["YV:SpecScripts"], ['run_case 400 [] "%s"' % hx(s) for s in srcs],
                          shard_size=max(4, (len(srcs) + 4 * yvlib.NPROC - 1) // (4 * yvlib.NPROC)), tag="C05spec" + tag, preamble=PRE)
    for s, rec, v in zip(srcs, recs, vals):
        st.n["programs"] += 1
        if v is not None and v.startswith("compile:"):
            k, _ = rec.result
            if k == "err" and rec.messages and "Error" in rec.messages[0]:
                st.n["compile_errors_agreed"] += 1
            else:
                ctx.violation("the reference interpreter's parser rejects a program the implementation runs", input=s,
                              expected=bytes.fromhex(v[8:]).decode("utf-8", "replace"), actual=impl_canon(rec))
            continue
        sc = spec_canon(v)
        if sc is None:
            st.n["spec_fuel"] += 1
            continue
        st.n["spec_compared"] += 1
        ic = impl_canon(rec)
        if ic == sc:
            st.n["spec_equal"] += 1
        else:
            ctx.violation("printed lines / outcome / error differ from the reference interpreter (SpecRun)", input=s,
                          expected=sc, actual=ic)



def real_tree(rec):
    """the function tree of the harness `compile` answer, in the rendering of FnVM.show_fn"""
    if rec.crashed:
        return "CRASH"
    r = rec.tagged("R")
    if not r or r[-1][0] != "ok":
        return "ERR:" + (rec.messages[0] if rec.messages else "")
    fs = {int(f[0]): f for f in rec.tagged("F")}
    cs = {int(c[0]): c[1:] for c in rec.tagged("C")}
    out = []
    for i in sorted(fs):
        f = fs[i]
        ks = [{"s": "S", "n": "N", "f": "f"}.get(c[0], "?") + c[1:] for c in cs.get(i, []) if c]
        out.append("F%d %s %s %s %s K %s" % (i, f[1], f[2], f[3], "" if f[4] == "-" else f[4], ",".join(ks)))
    return ";".join(out)


def norm_lambda(s):
    return re.sub(r"lambda-\d+", "lambda", s)


def check_functions(ctx, st, progs, tag):
    """programs of the function fragment: (a) every function's bytes + constants (nested functions as constants) ==
    the real compiler's, FnVM == real VM; (c) FnSem (reference evaluator with cells) == real VM"""
    if not progs:
        return
    binary = ctx.harness("release")
    lines = []
    for s, _ in progs:
        lines.append("compile " + hx(s))
        lines.append("run - " + hx(s))
    recs = yvlib.run_harness(binary, lines, case_timeout_ms=8000)
    vals = yvlib.coq_eval(["YV:FnVM"], ['fn_case 3000 (300*300) "%s"' % hx(s) for s, _ in progs],
                          shard_size=max(4, (len(progs) + 4 * yvlib.NPROC - 1) // (4 * yvlib.NPROC)), tag="C05fn" + tag, preamble=PRE)
    for i, (src, meta) in enumerate(progs):
        st.n["programs"] += 1
        st.n["fn_programs"] += 1
        v = vals[i]
        rt = real_tree(recs[2 * i])
        run = recs[2 * i + 1]
        if v is None:
            ctx.corr_broken.append("model evaluation failed (coq_eval) on: " + src[:300])
            continue
        if rt.startswith("ERR:"):
            if v.startswith("F|"):
                ctx.corr_broken.append("real compiler rejects (%s) what the function model compiles: %s" % (rt[:120], src[:300]))
            else:
                st.n["compile_errors_agreed"] += 1
            continue
        if not v.startswith("F|"):
            ctx.corr_broken.append("function model rejects (%s) a program the real compiler accepts: %s" % (v[:80], src[:300]))
            continue
        mtree, meval, mvm = v[2:].split("#")
        if mtree != rt:
            ctx.corr_broken.append("function tree (bytes / constants / arity / upvalue counts) differs: %s | model %s | real %s" % (src[:300], mtree[:500], rt[:500]))
        else:
            st.n["fn_trees_equal"] += 1
            st.n["fn_functions"] += rt.count(";") + 1
            # opcodes GetUpvalue / SetUpvalue / CloseUpvalue present?  (coverage only; hex scan is approximate)
        if "FUEL" in meval or "FUEL" in mvm:
            st.n["fn_fuel"] += 1
            continue
        ic = norm_lambda(impl_canon(run))
        ec, vc = model_canon(meval), model_canon(mvm)
        if ic != ec:
            ctx.violation("printed lines / outcome / error differ from the reference evaluator with cells (FnSem)", input=src,
                          expected=ec, actual=ic, model_machine=vc, meta=str(meta))
        else:
            st.n["fn_eval_equal"] += 1
        if ic != vc:
            if ic == ec:
                ctx.corr_broken.append("FnVM on the model code != real VM: %s | model %s | real %s" % (src[:300], vc[:300], ic[:300]))
        else:
            st.n["fn_vm_equal"] += 1



# ------------------------------------------------------------------------------------------------------------------
# round 9: scale families (closed-form / lexical-scoping oracle, proved pipeline, FullCompile tie) and aliasing operands

def _scale_mod():
    """tools/props/C05_scale.py (generators of the round-9 families), whatever way this plug-in was loaded"""
    import importlib.util
    import sys
    if "C05_scale" in sys.modules:
        return sys.modules["C05_scale"]
    spec = importlib.util.spec_from_file_location("C05_scale", os.path.join(os.path.dirname(os.path.abspath(__file__)), "C05_scale.py"))
    mod = importlib.util.module_from_spec(spec)
    spec.loader.exec_module(mod)
    sys.modules["C05_scale"] = mod
    return mod


def scale_cases(rng, quick):
    """zone programs: every size of the ladder x every placement x (random zone + directed tails)"""
    SC = _scale_mod()
    zone = []
    k = 0
    for size in (0,) + SC.LADDER:
        for where in ('fn', 'block', 'lambda', 'inner-fn'):
            ds = [None, k % 4, (k + 1 + rng.randrange(3)) % 4] if quick else [None, None, None, 0, 1, 2, 3]
            k += 1
            for d in ds:
                zone.append(SC.zone_program(rng, size, where, d))
    ladder = SC.ladder_programs(rng, SC.LADDER, (17, 300, 1100, 5000))
    return zone, ladder


def check_oracle(ctx, st, cases, tag, what):
    """real VM against an outcome known in closed form: (source, expected canonical outcome, meta)"""
    binary = ctx.harness("release")
    recs = yvlib.run_harness(binary, ["run - " + hx(c[0]) for c in cases], case_timeout_ms=30000)
    redo = [i for i, r in enumerate(recs) if r.result[0] == "crash"]
    for i in redo:      # a case that timed out under load is re-run alone before it is believed
        recs[i] = yvlib.run_harness(binary, ["run - " + hx(cases[i][0])], shards=1, case_timeout_ms=120000)[0]
    bad = 0
    for (src, want, meta), rec in zip(cases, recs):
        st.n["programs"] += 1
        st.n["scale_oracle_compared"] = st.n.get("scale_oracle_compared", 0) + 1
        st.shapes.add(meta[:3] if meta[0] == 'ladder' else meta[:3] + (meta[4] is not None,))
        ic = impl_canon(rec)
        if ic == want:
            st.n["scale_oracle_equal"] = st.n.get("scale_oracle_equal", 0) + 1
        else:
            bad += 1
            if bad <= 3:
                ctx.violation(what, input=src, expected=want, actual=ic, meta=str(meta))
    return bad


def check_scale(ctx, st, rng, quick, tag):
    import time as _t
    t0 = _t.time()
    zone, ladder = scale_cases(rng, quick)
    log("[C05] scale: %d zone programs (sizes 0, 17 .. 255), %d ladder programs" % (len(zone), len(ladder)))
    nv = len(ctx.violations)
    check_oracle(ctx, st, zone, tag + "z", "a program with many live locals (shadowing at every depth, ended blocks, re-used slots) "
                 "prints something else than lexical scoping gives (the padding locals have fresh names: the lines are the same at every size)")
    check_oracle(ctx, st, ladder, tag + "l", "the result at size m is not the closed-form function of m")
    # the same zone programs through the proved pipeline: bytes vs FnCompile, FnSem / FnVM vs the real VM
    if len(ctx.violations) == nv or not quick:
        # (quick: every program up to 65 locals and a third of the 129 / 255 ones - about 1 s of model evaluation each)
        check_functions(ctx, st, [(c[0], c[2]) for i, c in enumerate(zone) if not quick or c[2][2] <= 65 or i % 3 == 0], tag + "zf")
    # ... and through the model of the WHOLE compiler (a resolver change shows as different GetLocal / SetLocal operands)
    try:
        import fullcompile_corr as fc
        sub = zone if not quick else [c for i, c in enumerate(zone) if i % 4 == 1]
        srcs = [("scale:%s" % (c[2],), c[0].encode()) for c in sub]
        fst, bad = fc.run_all(ctx.harness("release"), srcs, tag="C05fullcompile")
        failed = {b["name"] for b in bad if b.get("why") == "the model did not evaluate"}
        if failed:
            st2, bad2 = fc.run_all(ctx.harness("release"), [x for x in srcs if x[0] in failed], tag="C05fullcompile_retry")
            bad = [b for b in bad if b["name"] not in failed] + bad2
            fst["ok_identical"] += st2.get("ok_identical", 0)
        for b in [b for b in bad if not b.get("soft")][:5]:
            ctx.corr_broken.append("FullCompile: model and compiler.rs disagree on %s: %s" % (b["name"], b["why"]))
        st.n["scale_fullcompile_identical"] = fst.get("ok_identical", 0)
        st.n["scale_fullcompile_cases"] = len(srcs)
        st.n["scale_seconds"] = round(_t.time() - t0, 1)
    except Exception as e:       # the tie is another owner's tool: its absence is noted, not an alarm
        ctx.notes.append("FullCompile tie on the scale programs skipped: %r" % (e,))


def alias_sources(rng, quick, st):
    SC = _scale_mod()
    progs = SC.alias_programs(rng, not quick)
    for _, meta in progs:
        st.shapes.add(meta[:4])
    return [p for p, _ in progs]

# kinds of operands
EX = {'nil': ['nil'], 'bool': ['true', 'false'], 'num': ['3', '1.5', '(0/0)', '(-1/0)', '(-7)', '64', '(-0)', '0'],
      'str': ['"ab"', '""', '"é"'], 'range': ['(1..3)'], 'tup': ['(1, 2)', '()'], 'vec': ['[1, 2]', '[]'], 'fn': ['print']}
TRIPLES = [('7', '2', '3'), ('2', '3', '2'), ('1', '0', '1'), ('12', '5', '2'), ('true', 'nil', '1'), ('"a"', '"b"', '"a"')]


def kind_programs(rng, st, full):
    progs = []
    ops = ALLB
    for op in ops:
        for ka in EX:
            for kb in EX:
                if full:
                    pairs = [(a, b) for a in EX[ka][:2] for b in EX[kb][:2]]
                else:
                    pairs = [(rng.choice(EX[ka]), rng.choice(EX[kb]))] if rng.random() < 0.45 else []
                for a, b in pairs:
                    progs.append(("print(%s %s %s);" % (a, op, b), ("kind", op, ka, kb)))
                    st.shapes.add(("kind", op, ka, kb))
    nums = EX['num']
    for op in PLAIN + ['..']:
        for a in nums:
            for b in nums:
                if full or rng.random() < 0.12:
                    progs.append(("print(%s %s %s);" % (a, op, b), ("num", op)))
    for op in ['-', '!', '~']:
        for k in EX:
            for a in EX[k]:
                progs.append(("print(%s%s);" % (op, a), ("un", op, k)))
                st.shapes.add(("un", op, k))
    idx = ['0', '1', '2', '3', '-1', '-3', '-4', '1.5', '(0/0)', '(1/0)', '"a"', 'nil', '(0..2)', '(1..-1)', '(-2..3)', '(2..1)',
           '(0..9)', '(5..6)', '(-9..1)', '(1..1)']
    for a in ['"ab"', '"héé"', '(1, 2, 3)', '[1, 2, 3]', 'nil', '5', '(1..2)', 'true']:
        for i in idx:
            if full or rng.random() < 0.3:
                progs.append(("print(%s[%s]);" % (a, i), ("idx",)))
    for i in ['0', '1', '2', '-1', '-3', '1.5', '(0/0)', '"a"', 'nil', '(0..1)', '(1/0)']:
        progs.append(("var v = [1, 2]; print(v[%s] = 9); print(v);" % i, ("sidx",)))
    for a in ['"ab"', '(1, 2)', 'nil', '5']:
        progs.append(("var v = %s; v[0] = 1;" % a, ("sidx",)))
    for a in ['1', '1.5', '(0/0)', '(1/0)', '(-1/0)', '"a"', 'nil', '[1]', '(1,)', 'true']:
        for b in ['2', '2.5', '"b"', 'nil', '(0/0)']:
            if full or rng.random() < 0.4:
                progs.append(("print(%s..%s);" % (a, b), ("range",)))
    return progs


def pair_programs(rng, st, full):
    """each operator at every position of every other, with operand values that reveal the grouping"""
    progs = []
    for o1 in ALLB:
        for o2 in ALLB:
            if not full and rng.random() > 0.25:
                continue
            trs = TRIPLES if full else [rng.choice(TRIPLES[:4]), rng.choice(TRIPLES)]
            for a, b, c in trs[:4 if full else 2]:
                progs.append(("print(%s %s %s %s %s); print((%s %s %s) %s %s); print(%s %s (%s %s %s));" % (
                    a, o1, b, o2, c, a, o1, b, o2, c, a, o1, b, o2, c), ("pair", o1, o2)))
            st.shapes.add(("pair", o1, o2))
    for u in ['-', '!', '~']:
        for o in ALLB:
            if not full and rng.random() > 0.4:
                continue
            progs.append(("print(%s7 %s 2); print(7 %s %s2); print(%s(7 %s 2)); var v = [5]; print(%sv[0] %s 3);" % (
                u, o, o, u, u, o, u, o), ("unpair", u, o)))
            st.shapes.add(("pair", u, o))
    for o1 in ARITH:
        for o2 in ALLB:
            if not full and rng.random() > 0.3:
                continue
            progs.append(("var x = 12; print(x %s= 5 %s 2); print(x); { var y = 12; print(y %s= 5 %s 2); print(y); }" % (o1, o2, o1, o2),
                          ("compound", o1, o2)))
            st.shapes.add(("pair", o1 + "=", o2))
    return progs


def shrink_statements(stmts, fails, budget):
    cur = list(stmts)
    i = 0
    while i < len(cur) and budget[0] > 0:
        cand = cur[:i] + cur[i + 1:]
        budget[0] -= 1
        if cand and fails(cand):
            cur = cand
        else:
            i += 1
    return cur


def run(ctx):
    quick = ctx.quick()
    rng = ctx.rng
    st = Stats()
    if ctx.replay_only:
        src = ctx.replay_only.get("input") or ctx.replay_only.get("src")
        check_fragment(ctx, st, [(src, "replay")], "replay", want_fragment=False)
        check_beyond(ctx, st, [src], "replay")
        return
    g = Gen(rng)
    g.shapes = st.shapes
    # 1. fixed probes, kind tables, operator pairs
    progs = [(p, ("probe",)) for p in PROBES]
    progs += kind_programs(rng, st, not quick)
    progs += pair_programs(rng, st, not quick)
    # 2. random programs of the fragment
    n_rand, n_loops, n_expr = [max(20, int(x * SCALE)) for x in ((500, 400, 300) if quick else (6000, 5000, 3000))]
    structured = []
    for _ in range(n_rand):
        structured.append(g.program(False))
    for _ in range(n_loops):
        structured.append(g.program(True))
    for _ in range(n_expr):
        structured.append(g.expr_program())
    progs += [(" ".join(s), ("rand", i)) for i, s in enumerate(structured)]
    log("[C05] %d fragment programs" % len(progs))
    verdicts = check_fragment(ctx, st, progs, "frag")
    # shrink the first violation that came from a structured program
    for v in ctx.violations[:1]:
        m = re.match(r"\('rand', (\d+)\)", v.get("meta", ""))
        if not m:
            continue
        stmts = structured[int(m.group(1))]
        binary = ctx.harness("release")
        budget = [30]

        def fails(cand):
            src = " ".join(cand)
            rec = yvlib.run_harness(binary, ["run - " + hx(src)], shards=1, case_timeout_ms=8000)[0]
            val = yvlib.coq_eval(["YV:C05Run"], ['c05_case %s %s "%s"' % (FE, FV, hx(src))], tag="C05shrink", preamble=PRE)[0]
            if not val or not val.startswith("F|"):
                return False
            return impl_canon(rec) != model_canon(val[2:].split("#")[1])
        small = shrink_statements(stmts, fails, budget)
        if len(small) < len(stmts):
            src = " ".join(small)
            rec = yvlib.run_harness(binary, ["run - " + hx(src)], shards=1)[0]
            val = yvlib.coq_eval(["YV:C05Run"], ['c05_case %s %s "%s"' % (FE, FV, hx(src))], tag="C05shrink", preamble=PRE)[0]
            v.update({"input": src, "actual": impl_canon(rec), "expected": model_canon(val[2:].split("#")[1])})
    ctx.violations[:] = ctx.violations[:5]
    # 2b. the function fragment
    fg = FnGen(rng)
    fg.shapes = st.shapes
    n_fn = max(40, int((400 if quick else 5000) * SCALE))
    fprogs = directed_fn(fg, max(20, int((60 if quick else 800) * SCALE)))
    fprogs += [(' '.join(fg.program(i % 2 == 1)), ('fn', i)) for i in range(n_fn)]
    check_functions(ctx, st, fprogs, 'f')
    ctx.violations[:] = ctx.violations[:5]
    # 2c. scale families
    check_scale(ctx, st, rng, quick, 'sc')
    ctx.violations[:] = ctx.violations[:5]
    # 3. grouping: decompile the real bytes
    n_dec = max(50, int((500 if quick else 6000) * SCALE))
    cases = []
    for _ in range(n_dec):
        if rng.random() < 0.5:
            locs = [("a", rng.choice(NUMS[:8])), ("b", rng.choice(NUMS[:8]))][:rng.randint(1, 2)]
        else:
            locs = []
        names = [n for n, _ in locs] + ["g", "h"]
        cases.append((g.dexpr(rng.choice([2, 3, 3, 4]), names), locs))
    # every ordered pair of plain operators, both nestings
    for o1 in PLAIN + ['..']:
        for o2 in PLAIN + ['..']:
            x, y, z = ('var', 'g'), ('var', 'h'), ('lit', '3')
            cases.append((('bin', o2, ('bin', o1, x, y), z), []))
            cases.append((('bin', o1, x, ('bin', o2, y, z)), []))
            st.shapes.add(("dpair", o1, o2))
    check_decompile(ctx, st, cases, "d")
    # 4. beyond the fragment: the full reference interpreter
    n_bey = max(20, int((150 if quick else 2500) * SCALE))
    n_try = max(30, int((250 if quick else 3000) * SCALE))
    n_rec = max(30, int((250 if quick else 3000) * SCALE))
    bey = (directed_beyond(g, max(20, int((40 if quick else 600) * SCALE)), max(30, int((80 if quick else 1200) * SCALE)), n_try, n_rec)
           + list(BEYOND_FIXED) + [beyond_program(g) for _ in range(n_bey)])
    bey += alias_sources(rng, quick, st)
    check_beyond(ctx, st, bey, "b")
    ctx.violations[:] = ctx.violations[:5]
    if len(ctx.corr_broken) > 8:
        ctx.corr_broken[:] = ctx.corr_broken[:8] + ["... %d more" % (len(ctx.corr_broken) - 8)]
    pairs = len([s for s in st.shapes if s[0] in ("pair", "dpair")])
    ctx.cov.update({
        "evaluations": st.n["programs"] + len(cases),
        "distinct_nontrivial": len(st.shapes),
        "rule": "distinct shapes exercised: (operator, operator) pairs at every relative position incl. unary and compound "
                "(bare, left- and right-parenthesised, operand triples that reveal the grouping), (operator, kind, kind) triples "
                "over 8 operand kinds, decompiled operator pairs in both nestings, (enclosing statement form, statement form) "
                "nestings of random programs, beyond-fragment templates, (loop kind, jump in try block, jump in catch clause, "
                "outer handler placement, if-wrapped, guarded) shapes of try/catch-in-loop programs, (exit kind, fn/block, loop "
                "kind, nesting, global store, push) shapes of captured-loop-local programs, (depth, count) of nested interpolations",
        "operator_pairs": pairs,
        "kind_triples": len([s for s in st.shapes if s[0] in ("kind", "un")]),
        "statement_nestings": len([s for s in st.shapes if s[0] in ("top", "block", "if", "else", "elseif", "while")]),
        "try_in_loop_shapes": len([s for s in st.shapes if s[0] == "try"]),
        "recovery_shapes": len([s for s in st.shapes if s[0] in ("recover", "recover1")]),
        "capture_exit_shapes": len([s for s in st.shapes if s[0] in ("capexit", "capexit-decl")]),
        "nested_interpolation_shapes": len([s for s in st.shapes if s[0] in ("interp-nest", "brace") or s[:2] == ("fn", "interp-nest")]),
        "scale_shapes": len([s for s in st.shapes if s[0] in ("zone", "ladder")]),
        "aliasing_shapes": len([s for s in st.shapes if s[0] == "alias"]),
        "function_shapes": len([s for s in st.shapes if "fn" in s[:2] or "return" in s[:2] or "var-lambda" in s[:2]]),
        "samples": [progs[len(PROBES)][0], " ".join(structured[0])[:300], " ".join(structured[n_rand])[:300], bey[-1][:300],
                    show(cases[0][0])[:200]],
        "traces_validated_against_impl": st.n["bytes_equal"],
    })
    ctx.cov.update(st.n)


def directed_fn(g, n_cap):
    """directed programs of the function fragment: fixed probes, captured loop-body locals + break / continue / return + slot
    reuse, nested interpolations with braces"""
    return ([(p_, ('fnprobe',)) for p_ in FN_PROBES + CAPEXIT_FIXED_FRAG + INTERP_FIXED_FRAG]
            + [(capture_exit_program(g, True), ('capexit', i)) for i in range(n_cap)])


def directed_beyond(g, n_cap, n_interp, n_try, n_rec):
    """directed programs compared with the full reference interpreter"""
    return (list(CAPEXIT_FIXED_BEYOND) + list(INTERP_FIXED) + list(INTERP_FIXED_FRAG) + list(TRY_FIXED) + list(RECOVERY_FIXED)
            + [capture_exit_program(g, False) for _ in range(n_cap)] + [interp_program(g) for _ in range(n_interp)]
            + [try_program(g) for _ in range(n_try)] + [recovery_program(g) for _ in range(n_rec)])


def search(ctx):
    """obligations or correspondences broken: look for a failing input.  Bounded to ~5 minutes: first the directed families
    (one per modelled mechanism that a side condition or a byte comparison speaks about) at three times their quick size,
    then - only if they found nothing - the quick generators again at twice their size with the advanced random state."""
    global SCALE
    st = Stats()
    fg = FnGen(ctx.rng)
    fg.shapes = st.shapes
    log("[C05] search: directed families")
    check_fragment(ctx, st, [(p, ("probe",)) for p in PROBES], "sp")
    if not ctx.violations:
        check_functions(ctx, st, directed_fn(fg, int(200 * SCALE)), "sf")
    if not ctx.violations:
        check_scale(ctx, st, ctx.rng, True, "ssc")
    if not ctx.violations:
        check_beyond(ctx, st, alias_sources(ctx.rng, True, st), "sal")
    if not ctx.violations:
        check_beyond(ctx, st, directed_beyond(fg, int(150 * SCALE), int(250 * SCALE), int(400 * SCALE), int(400 * SCALE)), "sb")
    ctx.violations[:] = ctx.violations[:5]
    if ctx.violations:
        return
    log("[C05] search: random generators x2")
    old_tier, old_scale = ctx.tier, SCALE
    ctx.tier, SCALE = "quick", SCALE * 2
    try:
        run(ctx)
    finally:
        ctx.tier, SCALE = old_tier, old_scale
