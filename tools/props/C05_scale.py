"""C05 round 9: SCALE families and ALIASING operands (generators only; wired into tools/props/C05.py).

Scale: every dimension of the C05 statement / expression grammar pushed through a ladder of sizes, one dimension at a
time, with an oracle that needs no model evaluation of a big program:
  * `zone_program`: a ZONE of statements over few names (declarations at every depth that shadow each other and the
    globals of the same names, blocks that end, later declarations that take the freed slots, reads, assignments, compound
    assignments, reads through a lambda, bounded loops, if/else) placed under N live padding locals.  The oracle is LEXICAL
    SCOPING itself, computed by a 40-line evaluator over a stack of dictionaries (no slots, no indices); the padding
    locals have fresh names, so the printed lines are the same at every size, and the unpadded program is also sent
    through the proved pipeline (ExprSem / FnSem / FnVM, bytes vs CompileExpr / FnCompile), which ties the oracle to S.
  * `ladder_programs`: closed-form templates, the result at size m is a known function of m.
Aliasing: every binary / index / index-assignment / compound-assignment form with operands that are the SAME object or
contain each other (compared with the full reference interpreter by the caller)."""

LADDER = (17, 33, 40, 65, 129, 255)
ZNAMES = ('n', 's', 'k', 'q')


# ----------------------------------------------------------------------------------------------------------------
# zone programs: statement lists over ZNAMES with a lexical-scoping oracle

class Zone:
    def __init__(self, rng):
        self.r = rng
        self.ctr = 0
        self.fresh = 0

    def expr(self, vis, d=2):
        r = self.r
        x = r.random()
        if d <= 0 or x < 0.3:
            if vis and r.random() < 0.8:
                return ('v', r.choice(vis))
            return ('i', r.randint(0, 9))
        if x < 0.4 and vis:
            return ('call', r.choice(vis))
        return (r.choice('+-+'), self.expr(vis, d - 1), self.expr(vis, d - 1))

    def stmts(self, vis, depth, budget, inloop=False):
        """vis: names that resolve (globals of ZNAMES always do).  Returns a statement list."""
        r = self.r
        out = []
        here = set()
        n = r.randint(2, 5)
        for _ in range(n):
            if budget[0] <= 0:
                break
            budget[0] -= 1
            x = r.random()
            if x < 0.28:
                cand = [z for z in ZNAMES if z not in here]
                if not cand:
                    continue
                name = r.choice(cand)
                # the initialiser must not read the name being declared (ReadVarInInitialiser when an outer LOCAL of the
                # same name exists is a compile error in a block; at global level it reads the global: kept out)
                out.append(('var', name, self.expr([v for v in vis if v != name])))
                here.add(name)
            elif x < 0.38:
                self.fresh += 1
                nm = 't%d' % self.fresh           # a variable of another name: takes a slot freed by an ended block
                out.append(('var', nm, self.expr(vis)))
                vis = vis + [nm]
                here.add(nm)
            elif x < 0.5:
                out.append(('set', r.choice(vis), self.expr(vis)))
            elif x < 0.66:
                out.append(('cset', r.choice(vis), r.choice('+-'), self.expr(vis)))
            elif x < 0.78:
                out.append(('print', self.expr(vis)))
            elif x < 0.9 and depth > 0:
                out.append(('block', self.stmts(list(vis), depth - 1, budget, inloop)))
            elif x < 0.95 and depth > 0:
                out.append(('if', self.expr(vis), self.stmts(list(vis), depth - 1, budget, inloop),
                            self.stmts(list(vis), depth - 1, budget, inloop)))
            elif depth > 0 and not inloop:
                self.ctr += 1
                out.append(('loop', 'i%d' % self.ctr, r.randint(2, 3), self.stmts(list(vis), depth - 1, budget, True)))
            else:
                out.append(('print', ('v', r.choice(vis))))
        # directed tail: the block-local shadow has ended -> a new variable takes its slot -> the OLD name is used
        return out


def zone_show_e(e):
    k = e[0]
    if k == 'v':
        return e[1]
    if k == 'i':
        return str(e[1])
    if k == 'call':
        return '(|| %s)()' % e[1]
    return '(%s %s %s)' % (zone_show_e(e[1]), k, zone_show_e(e[2]))


def zone_show(stmts):
    out = []
    for s in stmts:
        k = s[0]
        if k == 'var':
            out.append('var %s = %s;' % (s[1], zone_show_e(s[2])))
        elif k == 'set':
            out.append('%s = %s;' % (s[1], zone_show_e(s[2])))
        elif k == 'cset':
            out.append('%s %s= %s;' % (s[1], s[2], zone_show_e(s[3])))
        elif k == 'print':
            out.append('print(%s);' % zone_show_e(s[1]))
        elif k == 'block':
            out.append('{ ' + zone_show(s[1]) + ' }')
        elif k == 'if':
            out.append('if %s > 3 { %s } else { %s }' % (zone_show_e(s[1]), zone_show(s[2]), zone_show(s[3])))
        elif k == 'loop':
            out.append('var %s = 0; while %s < %d { %s += 1; %s }' % (s[1], s[1], s[2], s[1], zone_show(s[3])))
        elif k == 'pad':
            out.append(' '.join('var %s = %d;' % (nm, v) for nm, v in s[1]))
    return ' '.join(out)


def zone_eval(stmts, scopes, out):
    """lexical scoping, nothing else: `scopes` is a list of dictionaries, innermost last"""
    def look(nm):
        for sc in reversed(scopes):
            if nm in sc:
                return sc
        raise KeyError(nm)

    def ev(e):
        k = e[0]
        if k in ('v', 'call'):
            return look(e[1])[e[1]]
        if k == 'i':
            return e[1]
        a, b = ev(e[1]), ev(e[2])
        return a + b if k == '+' else a - b
    for s in stmts:
        k = s[0]
        if k == 'var':
            v = ev(s[2])
            scopes[-1][s[1]] = v
        elif k == 'set':
            look(s[1])[s[1]] = ev(s[2])
        elif k == 'cset':
            sc = look(s[1])
            v = ev(s[3])
            sc[s[1]] = sc[s[1]] + v if s[2] == '+' else sc[s[1]] - v
        elif k == 'print':
            out.append(str(ev(s[1])))
        elif k == 'block':
            scopes.append({})
            zone_eval(s[1], scopes, out)
            scopes.pop()
        elif k == 'if':
            scopes.append({})
            zone_eval(s[2] if ev(s[1]) > 3 else s[3], scopes, out)
            scopes.pop()
        elif k == 'loop':
            scopes[-1][s[1]] = 0
            while scopes[-1][s[1]] < s[2]:
                scopes.append({})
                scopes[-2][s[1]] += 1
                zone_eval(s[3], scopes, out)
                scopes.pop()
        elif k == 'pad':
            for nm, v in s[1]:
                scopes[-1][nm] = v


def zone_live(stmts):
    """maximal number of simultaneously live locals declared by the statement list"""
    cur, peak = 0, 0
    for s in stmts:
        k = s[0]
        if k == 'var':
            cur += 1
        elif k == 'loop':
            cur += 1
            peak = max(peak, cur + zone_live(s[3]))
        elif k == 'block':
            peak = max(peak, cur + zone_live(s[1]))
        elif k == 'if':
            peak = max(peak, cur + zone_live(s[2]), cur + zone_live(s[3]))
        elif k == 'pad':
            cur += len(s[1])
        peak = max(peak, cur)
    return peak


DIRECTED_TAILS = [
    # (the seed's class) shadow in a block, block ends, another name takes the slot, the old name is used
    [('block', [('var', 'n', ('i', 100)), ('cset', 'n', '+', ('i', 1))]), ('var', 'step', ('i', 10)),
     ('cset', 'n', '+', ('v', 'step')), ('print', ('v', 'n')), ('print', ('v', 'step'))],
    [('block', [('var', 's', ('i', 7)), ('block', [('var', 's', ('i', 8)), ('var', 'k', ('i', 9))]), ('var', 'u1', ('i', 1)),
                ('set', 's', ('+', ('v', 's'), ('v', 'k'))), ('print', ('v', 's')), ('print', ('v', 'u1'))]),
     ('var', 'u2', ('i', 2)), ('var', 'u3', ('i', 3)), ('cset', 's', '-', ('v', 'u3')), ('print', ('v', 's')), ('print', ('v', 'k')),
     ('print', ('+', ('v', 'u2'), ('v', 'u3')))],
    # a name that is ONLY block-local: afterwards it is the global again
    [('block', [('var', 'q', ('i', 5)), ('print', ('v', 'q'))]), ('var', 'w', ('i', 6)), ('print', ('v', 'q')),
     ('set', 'q', ('i', 77)), ('print', ('v', 'w')), ('print', ('call', 'q'))],
    # the same in every iteration of a loop
    [('var', 'n', ('i', 0)), ('loop', 'it', 3, [('block', [('var', 'n', ('i', 100)), ('cset', 'n', '+', ('i', 1))]),
                                                 ('var', 'step', ('i', 10)), ('cset', 'n', '+', ('v', 'step'))]),
     ('print', ('v', 'n'))],
]


def zone_program(rng, size, where, directed=None):
    """-> (source, expected canonical outcome, meta).  size = live padding + zone locals at the peak (0: no padding)."""
    z = Zone(rng)
    body = z.stmts(list(ZNAMES), 3, [rng.randint(10, 28)])
    if directed is not None:
        # (a name declared twice in one scope is a compile error: the tail gets its own scope)
        body = body[:rng.randint(0, len(body))] + [('block', DIRECTED_TAILS[directed % len(DIRECTED_TAILS)])]
    body.append(('print', ('+', ('+', ('v', 'n'), ('v', 's')), ('+', ('v', 'k'), ('v', 'q')))))
    glob = [('var', nm, ('i', 1000 * (i + 1))) for i, nm in enumerate(ZNAMES)]
    npad = max(0, size - zone_live(body)) if size else 0
    # where the padding sits: all in front | split between the front and an inner block around the zone (the live count
    # crosses the size on the way in and falls below it on the way out) | interleaved in front and behind a first part
    split = rng.choice(('front', 'inner', 'mid')) if npad > 1 and len(body) > 1 else 'front'
    pads = [('p%03d' % i, i) for i in range(npad)]
    c = npad
    if split == 'front':
        inner = [('pad', pads)] + body
    elif split == 'inner':
        c = rng.randint(1, npad - 1)
        inner = [('pad', pads[:c]), ('block', [('pad', pads[c:])] + body[:-1]), body[-1]]
    else:
        c = rng.randint(1, npad - 1)
        m = rng.randint(1, len(body) - 1)
        inner = [('pad', pads[:c])] + body[:m] + [('pad', pads[c:])] + body[m:]
    if pads:
        inner.append(('print', ('+', ('v', pads[0][0]), ('v', pads[c - 1][0]))))
    out = []
    scopes = [{}]
    zone_eval(glob, scopes, out)
    if where == 'inner-fn':       # inside run, n and s are upvalues of outer's locals, not globals
        scopes.append({'n': -1, 's': -2})
    scopes.append({})
    zone_eval(inner, scopes, out)
    scopes.pop()
    if where == 'inner-fn':
        out.append(str(scopes[-1]['n'] + scopes[-1]['s']))
        scopes.pop()
    g_ = zone_show(glob)
    if where == 'block':
        src = g_ + ' { ' + zone_show(inner) + ' }'
    elif where == 'fn':
        src = g_ + ' fn run() { ' + zone_show(inner) + ' } run();'
    elif where == 'lambda':
        src = g_ + ' var run = || { ' + zone_show(inner) + ' }; run();'
    else:     # 'inner-fn': the zone's function is nested in a function with its own locals of the same names
        src = g_ + ' fn outer() { var n = -1; var s = -2; fn run() { ' + zone_show(inner) + ' } run(); print(n + s); } outer();'
    out.append(str(sum(scopes[0][nm] for nm in ZNAMES)))
    src += ' print(n + s + k + q);'
    return src, '|'.join(out) + '#ok', ('zone', where, size, split, directed)


# ----------------------------------------------------------------------------------------------------------------
# closed-form ladders: one dimension each

def ladder_programs(rng, sizes, big):
    """-> [(source, expected, meta)].  `sizes`: the ladder for dimensions bounded by 255; `big`: for unbounded ones."""
    out = []

    def add(dim, m, src, lines):
        out.append((src, '|'.join(str(x) for x in lines) + '#ok', ('ladder', dim, m)))
    for m in sizes:
        m = min(m, 255)
        # nesting depth of blocks, a shadowing declaration at every depth; each level reads its own after the inner ended
        d = min(m, 120)
        src = ''.join('{ var n = %d; var a%d = n; ' % (i, i) for i in range(d)) + 'print(n); ' + ''.join(
            'var b%d = %d; print(n + a%d + b%d); n += 1; print(n); } ' % (i, i, i, i) for i in reversed(range(d)))
        lines = [d - 1]
        for i in reversed(range(d)):
            lines += [3 * i, i + 1]
        add('block-depth', d, 'var n = -5; ' + src + 'print(n);', lines + [-5])
        # scope end pops m locals at once; the slots are taken again
        k = m - 2
        src = ('fn f() { var a = 1; { ' + ' '.join('var x%d = %d;' % (i, i) for i in range(k)) + ' a += x%d; } ' % (k - 1)
               + ' '.join('var y%d = %d;' % (i, 2 * i) for i in range(k)) + ' return a + y%d + y0 + y%d; } print(f());' % (k - 1, k // 2))
        add('scope-end-pops', k, src, [1 + (k - 1) + 2 * (k - 1) + 2 * (k // 2)])
        # break / continue out of a block with m locals
        k = m - 3
        src = ('fn f() { var t = 0; var i = 0; while i < 3 { i += 1; ' + ' '.join('var x%d = i + %d;' % (j, j) for j in range(k))
               + ' if i == 2 { continue; } t += x%d; if i == 3 { break; } } var z = 7; return t + z; } print(f());' % (k - 1))
        add('break-under-locals', k, src, [(1 + k - 1) + (3 + k - 1) + 7])
        # m captured variables: one closure reads and writes all of them
        k = min(m, 250)
        src = ('fn mk() { ' + ' '.join('var u%d = %d;' % (i, i) for i in range(k)) + ' fn g() { u%d += 1; return ' % (k - 1)
               + ' + '.join('u%d' % i for i in range(k)) + '; } return g; } var g = mk(); g(); print(g());')
        add('upvalues', k, src, [k * (k - 1) // 2 + 2])
        # upvalues of both kinds with coinciding indices: c reads x_i through b's upvalues (is_local = false, index i) and
        # y_i from b's frame (is_local = true, slot i + 1), interleaved
        k = min(m, 250) // 2
        src = ('fn a() { ' + ' '.join('var x%d = %d;' % (i, i) for i in range(k)) + ' fn b() { ' + ' '.join('var y%d = %d;' % (i, 1000 * i) for i in range(k))
               + ' fn c() { y%d += 1000; x0 -= 1; return ' % (k - 1) + ' + '.join('x%d + y%d' % (i, i) for i in range(k)) + '; } return c; } return b(); } var c = a(); c(); print(c());')
        add('upvalues-mixed', 2 * k, src, [1001 * (k * (k - 1) // 2) + 2000 - 2])
        # m closures, each over its own loop-body local
        src = ('var fs = []; var i = 0; while i < %d { var j = i * 2; fs.push(|| j); i += 1; } var t = 0; for f in fs { t += f(); } print(t); print(fs[%d]());' % (m, m - 1))
        add('closures-per-iteration', m, src, [m * (m - 1), 2 * (m - 1)])
        # parameters / arguments
        src = ('fn f(' + ', '.join('a%d' % i for i in range(m)) + ') { return a0 * 1000 + a%d - a%d; } print(f(' % (m - 1, m // 2)
               + ', '.join(str(i + 1) for i in range(m)) + '));')
        add('arguments', m, src, [1000 + m - (m // 2 + 1)])
        # vector / tuple literal, interpolation parts
        src = 'var v = [' + ', '.join(str(3 * i) for i in range(m)) + ']; print(v.len()); print(v[%d] + v[0] + v[-1]);' % (m // 2)
        add('vec-literal', m, src, [m, 3 * (m // 2) + 3 * (m - 1)])
        src = 'var v = (' + ', '.join(str(3 * i) for i in range(m)) + '); print(v[%d] + v[-1]);' % (m // 3)
        add('tuple-literal', m, src, [3 * (m // 3) + 3 * (m - 1)])
        kk = min(m, 120)
        src = 'var x = 1; print("' + ''.join('${x + %d}.' % i for i in range(kk)) + '".len());'
        add('interpolation-parts', kk, src, [sum(len(str(1 + i)) + 1 for i in range(kk))])
    for m in big:
        # distinct constants
        src = 'fn f() { return ' + ' + '.join(str(i) for i in range(m)) + '; } print(f()); print("c%d" + "c%d");' % (m - 1, m)
        add('constants', m, src, [m * (m - 1) // 2, 'c%dc%d' % (m - 1, m)])
        # constants that differ only in their fraction / only in their type (number 7 and string "7")
        src = 'fn f() { return ' + ' + '.join(('%d.5' % (i // 2)) if i % 2 else str(i // 2) for i in range(m)) + '; } print(f()); print("%d" + "%d.5"); print(%d == "%d");' % (m // 4, m // 4, m // 4, m // 4)
        add('constants-near', m, src, [repr(sum((i // 2) + (0.5 if i % 2 else 0) for i in range(m))).replace('.0', '') , '%d%d.5' % (m // 4, m // 4), 'false'])
        src = 'var s = 0; ' + ' '.join('var g%d = %d; s += g%d;' % (i, i, i) for i in range(m)) + ' print(s); print(g%d + g0 + g%d);' % (m - 1, m // 2)
        add('globals', m, src, [m * (m - 1) // 2, m - 1 + m // 2])
        # binary chains (left-nested) and short-circuit chains
        src = 'print(' + ' - '.join(str(i) for i in range(m)) + '); print(' + ' && '.join('%d' % (i + 1) for i in range(m)) + '); print(' + ' || '.join(['nil'] * (m - 1) + ['%d' % m]) + ');'
        add('operator-chain', m, src, [-(m * (m - 1) // 2), m, m])
        # long jumps: if / else bodies and loop bodies of m statements
        mm = min(m, 2000)
        body = ' '.join('t += %d;' % (i % 7) for i in range(mm))
        tot = sum(i % 7 for i in range(mm))
        src = ('var t = 0; var c = 0; while c < 3 { c += 1; if c == 2 { ' + body + ' } else { t += 1000000; if c == 3 { break; } continue; } ' + body + ' } print(t);')
        add('jump-distance', mm, src, [2 * tot + 2000000])
        # else-if chain
        mm = min(m, 300)
        src = ('fn pick(x) { ' + ' else '.join('if x == %d { return %d; }' % (i, i * 2) for i in range(mm)) + ' else { return -1; } } print(pick(%d) + pick(0) + pick(%d)); print(pick(%d));' % (mm - 1, mm // 2, mm))
        add('else-if-chain', mm, src, [2 * (mm - 1) + 2 * (mm // 2), -1])
        # iteration counts, vector growth, string growth
        src = ('var t = 0; var v = []; var s = ""; var i = 0; while i < %d { { var d = i; t += d; } var e = 1; t += e; v.push(i); s = s + "x"; i += 1; } print(t); print(v.len() + v[-1] + v[%d]); print(s.len()); for x in 0..%d { t -= 1; } print(t);' % (m, m // 2, m))
        add('iterations', m, src, [m * (m - 1) // 2 + m, m + m - 1 + m // 2, m, m * (m - 1) // 2])
    for d in (10, 31, 60):
        src = 'fn r(n) { if n == 0 { return 0; } var a = n; return r(n - 1) + a; } print(r(%d));' % d
        add('call-depth', d, src, [d * (d + 1) // 2])
    for d in (10, 31, 60):       # deep recursion with many locals per frame (the value stack grows)
        kk = 40
        src = ('fn r(n) { ' + ' '.join('var a%d = n + %d;' % (i, i) for i in range(kk)) + ' if n == 0 { return a0; } var b = r(n - 1); return b + a%d - a0; } print(r(%d));' % (kk - 1, d))
        add('call-depth-locals', d, src, [d * (kk - 1)])
    for d in (17, 33, 65, 120):
        src = 'print(' + '(' * d + '1' + ' + 1)' * d + '); print(' + '- ' * d + '3); print(' + '[' * d + '5' + ']' * d + '[0]' * d + ');'
        add('expression-depth', d, src, [d + 1, 3 if d % 2 == 0 else -3, 5])
    return out


# ----------------------------------------------------------------------------------------------------------------
# aliasing operands: the same object on both sides, or one operand containing the other

ALIAS_OBJ = {'vec': '[1, 2, 3]', 'tup': '(1, 2)', 'str': '"ab"', 'range': '(0..2)', 'fn': '|x| x', 'map': '{1: 2}', 'num': '1'}
ALIAS_BIN = ['+', '-', '*', '/', '%', '==', '!=', '<', '<=', '>', '>=', '&', '|', '^', '<<', '>>', '&&', '||', '..']


def alias_wraps(kind):
    """operand expressions built from the variable v: itself, containers holding it"""
    w = ['v', '[v]', '(1, v)', '[[v], v]', '(v,)']
    if kind != 'range':
        w.append('{1: v}')
    return w


def alias_programs(rng, full):
    """-> list of sources (each catches its own errors and prints kind + message, then the operands again)"""
    out = []

    def guarded(decl, stmt, after='print(v);'):
        return '%s try { %s } catch e { print(type(e)); print(e.context); } %s' % (decl, stmt, after)
    for kind, lit in ALIAS_OBJ.items():
        decl = 'var v = %s;' % lit
        wr = alias_wraps(kind)
        for op in ALIAS_BIN:
            for a in (wr if full else [wr[0], rng.choice(wr[1:])]):
                dirs = ((a, 'v'), ('v', a)) if a != 'v' else (('v', 'v'),)
                if not full and a != 'v':       # quick: one direction, and numbers (not objects) only as `v op v`
                    if kind == 'num':
                        continue
                    dirs = (rng.choice(dirs),)
                for l, r_ in dirs:
                    out.append((guarded(decl, 'print(%s %s %s);' % (l, op, r_)), ('alias', 'bin', op, kind, a)))
        for op in ['+', '-', '*', '|', '<<']:
            for a in (wr if full else [wr[0], rng.choice(wr[1:])]):
                out.append((guarded(decl, 'v %s= %s; print(v);' % (op, a)), ('alias', 'compound', op, kind, a)))
                out.append((guarded('fn f() { ' + decl, 'v %s= %s; print(v);' % (op, a), 'print(v); } f();'), ('alias', 'compound-local', op, kind, a)))
        for a in wr:
            out.append((guarded(decl, 'print(v[%s]);' % a), ('alias', 'index', kind, a)))
            out.append((guarded(decl, 'v[%s] = 0; print("stored");' % a), ('alias', 'set-index', kind, a)))
            out.append((guarded(decl, 'v[0] = %s; print("stored"); print(v[0] == v);' % a, 'print(v.len());' if kind in ('vec',) else 'print(v);'),
                        ('alias', 'set-index-value', kind, a)))
            # the language has no `v[i] op= e`; spelled out
            out.append((guarded(decl, 'v[%s] = v[%s] + 1; print("stored");' % (a, a)), ('alias', 'compound-index', kind, a)))
            out.append((guarded(decl, 'v[0] = v[0] + %s; print("stored");' % a, 'print(v.len());' if kind in ('vec',) else 'print(v);'),
                        ('alias', 'compound-index-value', kind, a)))
            out.append((guarded(decl, 'print(v[%s..1]); print(v[0..%s]);' % (a, a)), ('alias', 'slice', kind, a)))
            out.append((guarded('fn f() { ' + decl, 'v[%s] = v; print("stored");' % a, 'print(v.len()); } f();' if kind == 'vec' else 'print(v); } f();'),
                        ('alias', 'set-index-local', kind, a)))
        out.append((guarded(decl, 'print("${v} ${[v]} ${v == v} ${(v, v)[1] == v}");'), ('alias', 'interp', kind, 'v')))
    # a vector inside itself (cyclic), then used as index / operand of itself
    for stmt in ['v[v] = 0;', 'v[v[3]] = 0;', 'print(v[v]);', 'print(v + v);', 'print(v == v[3]);', 'v[3][v] = 1;', 'v[3][3][0] = v[3][1]; print(v[0]);',
                 'v[0] = v[0] + v;', 'v[3] = v[3] + 1;', 'print(v < v);', 'print(v..v);', 'v[(v, 1)] = 2;', 'v[{1: v}] = 2;']:
        out.append(('var v = [1, 2, 3]; v.push(v); try { %s print("done"); } catch e { print(type(e)); print(e.context); } print(v.len());' % stmt,
                    ('alias', 'cyclic', stmt)))
    return out
