"""C06 - lexical scoping; closures capture variables, not values.

Theorems (coq/props/C06.v over Upvalues.v / Cells.v / ScopeLang.v / ScopeComp.v): invariant of the open-upvalue
list, refinement of the upvalue mechanism to a store of cells for every disciplined operation sequence, the
refutation for `Truncate` (what unwind_stack does), the upvalue index chain through n functions, and
compile_scope_correct (partial) for the mini-language.
Tie:
 (a) impl == M by trace: harness `utrace` (hook H4) - every dispatched instruction reports the open-upvalue slot list;
     the capture/close events (Closure descriptors, CloseUpvalue, Return, unwinding) are replayed through
     Upvalues.v (`ScopeRun.up_replay`, vm_compute) and must yield the reported list at every step; every reported list
     must satisfy open_list_ok.  For generated programs the WHOLE trace (fiber, function, pc, stack length, slot base,
     frames, list) must equal the trace of the model machine `run_m` (ScopeComp.trace_m).
 (b) compiler correspondence: decoded bytes of the real compiler for the rendered source == compile_scope's
     instructions (opcodes, operands incl. jump distances, Closure descriptors; constants by value).
 (c) impl == S: printed output of the rendered program on the real implementation == eval_cells; metamorphic
     triple (top level wrapped in a function / a block / a fiber prints the same).
     Directed family `run_crossfiber` (round 7, source texts outside the mini-language: fibers created first and called later with an
     argument, Fiber.yield): closures MADE on one fiber over variables that are OPEN on another fiber's stack and locals of their own, in
     both directions between the same two stacks; oracle = the full reference interpreter (SpecScripts.run_case) = the expectation the
     generator tracks; run on both builds, traces replayed through Upvalues.v.
     Directed families of round 9 (tools/props/C06_r9.py, outputs known by construction + full reference interpreter on the small ones):
     SCALE family (one capture / use / exit / slot re-use shape, every dimension - nesting depth around and inside the capturing scope,
     sibling blocks, locals, captured variables, closures, loop iterations, recursion depth - pushed through a ladder of sizes) and MODULE
     family (harness `mods`: globals read / written and closures created at points reached from a frame of ANOTHER module: catch, finally,
     after a fiber switch, after a return, in a callback).  search() runs these two first.
Known classes (notes/C06-findings.json): unwind_leaves_open_upvalue, break_dead_pops - attributed by ablation:
the model with that one repair switched on equals the Spec, and the model as configured equals the implementation."""
import json
import os
import re
import struct

import yvlib
from yvlib import hx, log
from . import C06_r9 as R9

LEVEL = "proof"
TRUSTED = [
    "Coq 8.16.1 kernel (coqc), vm_compute; no native_compute, no extraction",
    "translator/translate_c06.py (token shapes of break_statement, unwind_stack, try_statement, capture_upvalue, close_upvalues, add_upvalue, emit_scope_end, mark_initialised, mark_last_initialised, close_upvalue_impl, return_impl, closure_impl) and translate.py (LOCALS_MAX, UPVALUES_MAX, opcode numbering)",
    "hook H4 (vm.rs verif_trace, feature verif_hooks), the harness `yv` with ext_c06.rs `utrace`, tools/*.py (Python: generators, bytecode decoder, trace segmentation)",
    "ScopeLang.render (Coq) produces the source text that both sides run; the yarel scanner/parser turn it into the intended program (checked by the byte-level compiler correspondence)",
    "modelled, not verified: Rust raw-pointer arithmetic on the fiber stack (slot = (ptr - base)/size_of::<Value>), RefCell/Gc, the GC (closed upvalues stay alive)",
]
ASSUMPTIONS = [
    "the mini-language (blocks, fn, lambdas, bounded for, if <, break, continue, return, throw/try-catch, fibers, vec escape) spans the capture patterns of the property; methods/classes are not generated (their `self` slot is an ordinary parameter slot for capture purposes)",
    "the cross-fiber family (fibers created first and called later, Fiber.yield: outside the mini-language) is judged against the full reference interpreter SpecScripts.run_case (other owners' Coq files), which must agree with the expectation the generator tracks in Python cells",
    "eval_cells is the Spec for the mini-language: one cell per executed declaration, closures hold cells, the for-loop variable is ONE variable per loop (for_statement declares it in the loop's outer scope) that holds the StopIter value after exhaustion",
]

OPNAMES = None


def opcode_names():
    global OPNAMES
    if OPNAMES is None:
        with open(os.path.join(yvlib.COQ, "gen", "Opcodes.v")) as fh:
            m = re.search(r"Definition opcode_names : list string := \[(.*?)\]\.", fh.read(), re.S)
        OPNAMES = re.findall(r'"(\w+)"', m.group(1))
    return OPNAMES


def opnum(name):
    return opcode_names().index(name)


# ---------------------------------------------------------------------------------------------------------
# AST (tuples) and wire format of ScopeLang.decode_prog

def L(n):
    return ("lit", n)


def V(x):
    return ("var", x)


def ADD(a, b):
    return ("add", a, b)


def CALL(f, *args):
    return ("call", f, list(args))


def enc_e(e, out):
    k = e[0]
    if k == "lit":
        out += [0, e[1]]
    elif k == "var":
        out += [1, e[1]]
    elif k == "add":
        out.append(2)
        enc_e(e[1], out)
        enc_e(e[2], out)
    elif k == "call":
        out += [3, e[1], len(e[2])]
        for a in e[2]:
            enc_e(a, out)
    elif k == "vec":
        out.append(4)
    elif k == "callidx":
        out += [5, e[1], e[2], len(e[3])]
        for a in e[3]:
            enc_e(a, out)
    else:
        raise ValueError(e)


def enc_b(b, out):
    out.append(len(b))
    for s in b:
        enc_s(s, out)


def enc_s(s, out):
    k = s[0]
    if k == "decl":
        out += [10, s[1]]
        enc_e(s[2], out)
    elif k == "assign":
        out += [11, s[1]]
        enc_e(s[2], out)
    elif k == "print":
        out.append(12)
        enc_e(s[1], out)
    elif k == "expr":
        out.append(13)
        enc_e(s[1], out)
    elif k == "block":
        out.append(14)
        enc_b(s[1], out)
    elif k == "fun":
        out += [15, s[1], len(s[2])] + list(s[2])
        enc_b(s[3], out)
    elif k == "lam":
        out += [16, s[1], len(s[2])] + list(s[2])
        enc_b(s[3], out)
    elif k == "loop":
        out += [17, s[1], s[2]]
        enc_b(s[3], out)
    elif k == "if":
        out.append(18)
        enc_e(s[1], out)
        enc_e(s[2], out)
        enc_b(s[3], out)
        enc_b(s[4], out)
    elif k == "break":
        out.append(19)
    elif k == "continue":
        out.append(20)
    elif k == "return":
        out.append(21)
        enc_e(s[1], out)
    elif k == "throw":
        out.append(22)
        enc_e(s[1], out)
    elif k == "try":
        out.append(23)
        enc_b(s[1], out)
        out.append(s[2])
        enc_b(s[3], out)
    elif k == "fiber":
        out.append(24)
        enc_b(s[1], out)
    elif k == "vpush":
        out += [25, s[1]]
        enc_e(s[2], out)
    else:
        raise ValueError(s)


def wire(p):
    out = []
    enc_b(p, out)
    return '"%s"%%string' % " ".join(str(x) for x in out)


def blocks_of(s):
    """child statement lists of a statement"""
    k = s[0]
    if k in ("block", "fiber"):
        return [s[1]]
    if k in ("fun", "lam", "loop"):
        return [s[3]]
    if k == "if":
        return [s[3], s[4]]
    if k == "try":
        return [s[1], s[3]]
    return []


def with_blocks(s, bs):
    k = s[0]
    if k in ("block", "fiber"):
        return (k, bs[0])
    if k in ("fun", "lam", "loop"):
        return (k, s[1], s[2], bs[0])
    if k == "if":
        return (k, s[1], s[2], bs[0], bs[1])
    if k == "try":
        return (k, bs[0], s[2], bs[1])
    return s


def walk(p):
    for s in p:
        yield s
        for b in blocks_of(s):
            yield from walk(b)


def size(p):
    return sum(1 for _ in walk(p))


def syntactic_break_with_locals(p):
    """a `break` with at least one variable of the loop body declared before it (class break_dead_pops)"""
    def scan(b, in_loop, nlocals):
        n = nlocals
        for s in b:
            k = s[0]
            if k == "break" and in_loop and n > 0:
                return True
            if k in ("decl", "lam", "fun"):
                if k in ("lam", "fun") and scan(s[3], False, 0):
                    return True
                n += 1
            elif k == "loop":
                if scan(s[3], True, 0):
                    return True
            elif k == "fiber":
                if scan(s[1], False, 0):
                    return True
            elif k == "try":
                if scan(s[1], in_loop, n) or scan(s[3], in_loop, n + 1):
                    return True
            else:
                for c in blocks_of(s):
                    if scan(c, in_loop, n):
                        return True
        return False
    return scan(p, False, 0)


def syntactic_throw_and_closure(p):
    kinds = {s[0] for s in walk(p)}
    return "throw" in kinds and "try" in kinds and ("lam" in kinds or "fun" in kinds)


# ---------------------------------------------------------------------------------------------------------
# generator

class G:
    """generates programs of the mini-language; every random choice comes from rng"""

    def __init__(self, rng):
        self.rng = rng
        self.n = 0
        self.tags = set()

    def fresh(self):
        self.n += 1
        return self.n

    def lit(self):
        return L(self.rng.randint(0, 9))

    # --- small pieces ---
    def dummy(self, h, nparams=0):
        return ("lam", h, [self.fresh() for _ in range(nparams)], [("return", L(0))])

    def inc_body(self, x, by=None):
        by = by if by is not None else self.lit()
        return [("assign", x, ADD(V(x), by)), ("return", V(x))]

    def exit_wrap(self, inner, holders_ready=True):
        """wraps statements into a scope that is entered once and then left: block / function / loop / fiber"""
        r = self.rng
        kind = r.choice(["block", "fn", "lamcall", "loop1", "fiber", "block", "fn"])
        self.tags.add("scope:" + kind)
        if kind == "block":
            return [("block", inner)]
        if kind == "fn":
            f = self.fresh()
            return [("fun", f, [], inner), ("expr", CALL(f))]
        if kind == "lamcall":
            f = self.fresh()
            return [("lam", f, [], inner), ("expr", CALL(f))]
        if kind == "loop1":
            return [("loop", self.fresh(), 1, inner)]
        return [("fiber", inner)]

    def observe(self, calls, rounds=None):
        r = self.rng
        out = []
        rounds = rounds or r.randint(2, 4)
        for _ in range(rounds):
            out.append(("print", r.choice(calls)))
        return out

    def publish(self, holder, params, body):
        """h = |params| { body }  through a temporary local"""
        t = self.fresh()
        return [("lam", t, params, body), ("assign", holder, V(t))]

    # --- templates: each returns a statement list that can stand in ANY statement list ---
    def t_shared(self):
        """several closures over one variable; the variable is written after the closures exist"""
        r = self.rng
        self.tags.add("several_closures_one_var")
        k = r.randint(2, 4)
        hs = [self.fresh() for _ in range(k)]
        x = self.fresh()
        pre = [self.dummy(h) for h in hs]
        inner = [("decl", x, self.lit())]
        if r.random() < 0.4:
            inner.insert(0, ("decl", self.fresh(), self.lit()))      # x is not the first slot
        for i, h in enumerate(hs):
            body = self.inc_body(x) if i % 2 == 0 or r.random() < 0.3 else [("return", V(x))]
            inner += self.publish(h, [], body)
        inner.append(("assign", x, ADD(V(x), L(r.randint(1, 9)))))
        if r.random() < 0.5:
            inner.append(("print", V(x)))
        return pre + self.exit_wrap(inner) + self.observe([CALL(h) for h in hs], r.randint(3, 6))

    def t_many(self):
        """one closure over many variables, capture order different from declaration order"""
        r = self.rng
        self.tags.add("one_closure_many_vars")
        n = r.randint(2, 4)
        xs = [self.fresh() for _ in range(n)]
        h, g = self.fresh(), self.fresh()
        order = xs[:]
        r.shuffle(order)
        if order != xs:
            self.tags.add("capture_order_differs")
        body = [("assign", order[0], ADD(V(order[0]), L(1)))]
        e = V(order[0])
        for y in order[1:]:
            e = ADD(e, V(y))
        body.append(("return", e))
        inner = [("decl", x, L(10 ** i)) for i, x in enumerate(xs)]
        inner += self.publish(h, [], body)
        w = r.choice(xs)
        inner += self.publish(g, [], [("assign", w, ADD(V(w), L(r.randint(1, 5)))), ("return", V(w))])
        return [self.dummy(h), self.dummy(g)] + self.exit_wrap(inner) + self.observe([CALL(h), CALL(g)])

    def t_deep(self):
        """capture through several function levels (index chain through intermediate functions); the innermost function
        mixes variables declared at different levels, so its descriptors mix (slot, is_local) with (index, not local)"""
        r = self.rng
        levels = r.randint(2, 4)
        self.tags.add("levels:%d" % levels)
        x, y = self.fresh(), self.fresh()
        fs = [self.fresh() for _ in range(levels)]
        params = [[self.fresh()] if r.random() < 0.4 else [] for _ in range(levels)]
        mids = [self.fresh() for _ in range(levels - 1)]          # a local of every function that contains another one
        # innermost body: x is written; a random selection of the other visible variables is read, in random order
        pool = [y] + mids + [p for ps in params for p in ps]
        r.shuffle(pool)
        used = pool[:r.randint(1, len(pool))]
        if any(m in used for m in mids):
            self.tags.add("mixed_local_and_inherited_descriptors")
        if any(p in used for ps in params for p in ps):
            self.tags.add("param_capture")
        e = V(x)
        order = used[:]
        if r.random() < 0.5:
            order.insert(r.randint(0, len(order)), x)
            e = V(order[0])
            for z in order[1:]:
                e = ADD(e, V(z))
        else:
            for z in order:
                e = ADD(e, V(z))
        body = [("assign", x, ADD(V(x), L(1))), ("return", e)]
        if r.random() < 0.5 and used:
            body.insert(0, ("print", V(used[-1])))                 # first mention decides the upvalue index
        inner_def = None
        for d in range(levels - 1, -1, -1):
            f, ps = fs[d], params[d]
            if d == levels - 1:
                fbody = body
            else:
                pre = [("decl", mids[d], L(1000 * (d + 1)))]
                if r.random() < 0.4:
                    pre.insert(0, ("decl", self.fresh(), self.lit()))      # shifts slots
                if r.random() < 0.4:
                    w = y if r.random() < 0.5 else x
                    pre.append(("assign", w, ADD(V(w), L(1))))             # an intermediate level uses the variable too
                    self.tags.add("intermediate_uses_var")
                post = [("assign", mids[d], ADD(V(mids[d]), L(1)))] if r.random() < 0.5 else []
                fbody = pre + [inner_def] + post + [("return", V(fs[d + 1]))]
            inner_def = ("fun", f, ps, fbody) if r.random() < 0.6 else ("lam", f, ps, fbody)
        h = self.fresh()
        chain = []
        cur = fs[0]
        for d in range(levels - 1):
            nxt = self.fresh()
            chain.append(("decl", nxt, CALL(cur, *[self.lit() for _ in params[d]])))
            cur = nxt
        last_args = [self.lit() for _ in params[levels - 1]]
        inner = [("decl", x, self.lit()), ("decl", y, self.lit()), inner_def] + chain
        if last_args:
            inner += self.publish(h, [], [("return", CALL(cur, *last_args))])
        else:
            inner.append(("assign", h, V(cur)))
        inner.append(("assign", y, ADD(V(y), L(100))))
        return [self.dummy(h)] + self.exit_wrap(inner) + self.observe([CALL(h)], 3)

    def t_params(self):
        """closures over parameters: every call has its own variables"""
        r = self.rng
        self.tags.add("param_capture")
        mk, p, q = self.fresh(), self.fresh(), self.fresh()
        inner_f = self.fresh()
        body = [("lam", inner_f, [], [("assign", p, ADD(V(p), V(q))), ("return", V(p))])]
        if r.random() < 0.5:
            body.append(("assign", q, ADD(V(q), L(1))))
        body.append(("return", V(inner_f)))
        a, b = self.fresh(), self.fresh()
        return [("fun", mk, [p, q], body), ("decl", a, CALL(mk, L(1), L(2))), ("decl", b, CALL(mk, L(10), L(20)))] + \
            self.observe([CALL(a), CALL(b)], 4)

    def t_loop(self):
        """closures made in a loop body: body variables fresh per iteration, the loop variable shared"""
        r = self.rng
        vs, i, j = self.fresh(), self.fresh(), self.fresh()
        n = r.randint(2, 3)
        use_i = r.random() < 0.4
        body = [("decl", j, ADD(V(i), L(10)))]
        f = self.fresh()
        if use_i:
            self.tags.add("loop_var_capture")
            hi = self.fresh()
            pre_i = [self.dummy(hi)]
            body += self.publish(hi, [], [("return", L(1))] if False else [("decl", self.fresh(), L(0)), ("return", L(7))])
            body[-2] = ("lam", body[-2][1], [], [("print", V(i)), ("return", L(1))])
        else:
            pre_i = []
        self.tags.add("loop_body_var_capture")
        body.append(("lam", f, [], self.inc_body(j, L(1))))
        body.append(("vpush", vs, V(f)))
        exitk = r.choice(["none", "none", "break", "continue", "break_late"])
        pushes = n
        if exitk == "continue":
            self.tags.add("exit:continue")
            body.append(("if", V(i), L(1), [("continue",)], []))
            body.append(("assign", j, ADD(V(j), L(100))))
        elif exitk == "break":
            self.tags.add("exit:break")
            body.append(("if", V(i), L(1), [], [("break",)]))
            pushes = 2
            body.append(("assign", j, ADD(V(j), L(100))))
        elif exitk == "break_late":
            self.tags.add("exit:break")
            body.append(("assign", j, ADD(V(j), L(100))))
            body.append(("if", V(i), L(n - 1), [], [("break",)]))
        else:
            body.append(("assign", j, ADD(V(j), L(100))))
        after = [("decl", self.fresh(), L(77))]
        after.append(("print", V(after[0][1])))
        obs = self.observe([("callidx", vs, k, []) for k in range(pushes)], r.randint(3, 5))
        if use_i:
            obs.append(("expr", CALL(hi)))
        inner = [("decl", vs, ("vec",))] + pre_i + [("loop", i, n, body)] + after + obs
        return inner if r.random() < 0.3 else [("block", inner)] if r.random() < 0.5 else self.exit_wrap(inner)

    def t_shadow(self):
        """the same name declared at every level; writes to the inner one never disturb the outer one"""
        r = self.rng
        self.tags.add("shadowing")
        x = self.fresh()
        h0, h1, h2 = self.fresh(), self.fresh(), self.fresh()
        lvl2 = [("decl", x, L(300))] + self.publish(h2, [], self.inc_body(x, L(1))) + [("assign", x, ADD(V(x), L(5)))]
        k = r.choice(["block", "fn", "loop", "param"])
        self.tags.add("shadow_in:" + k)
        if k == "block":
            inner2 = [("block", lvl2)]
        elif k == "fn":
            f = self.fresh()
            inner2 = [("fun", f, [], lvl2), ("expr", CALL(f))]
        elif k == "loop":
            inner2 = [("loop", x, 2, self.publish(h2, [], [("print", V(x)), ("return", L(2))]))]
        else:
            f = self.fresh()
            inner2 = [("fun", f, [x], self.publish(h2, [], self.inc_body(x, L(1)))), ("expr", CALL(f, L(300)))]
        lvl1 = [("decl", x, L(20))] + self.publish(h1, [], self.inc_body(x, L(1))) + inner2 + [("print", V(x))]
        top = [("decl", x, L(1)), self.dummy(h0), self.dummy(h1), self.dummy(h2)]
        top += self.publish(h0, [], self.inc_body(x, L(1)))
        top += [("block", lvl1)] if r.random() < 0.5 else self.exit_wrap(lvl1)
        top += [("print", V(x))] + self.observe([CALL(h0), CALL(h1), CALL(h2)], 5)
        return [("block", top)]

    def t_escape(self):
        """closures escaping by return / by global-or-outer variable / by vec"""
        r = self.rng
        mk, x, f1, f2 = self.fresh(), self.fresh(), self.fresh(), self.fresh()
        how = r.choice(["return", "outer", "vec"])
        self.tags.add("escape:" + how)
        if how == "return":
            g = self.fresh()
            return [("fun", mk, [], [("decl", x, self.lit()), ("lam", f1, [], self.inc_body(x)), ("assign", x, ADD(V(x), L(3))),
                                     ("return", V(f1))]),
                    ("decl", g, CALL(mk)), ("decl", f2, CALL(mk))] + self.observe([CALL(g), CALL(f2)], 4)
        if how == "outer":
            h = self.fresh()
            return [self.dummy(h), ("fun", mk, [], [("decl", x, self.lit()), ("lam", f1, [], self.inc_body(x)), ("assign", h, V(f1)),
                                                    ("assign", x, ADD(V(x), L(3)))]),
                    ("expr", CALL(mk))] + self.observe([CALL(h)], 3)
        vs = self.fresh()
        return [("decl", vs, ("vec",)),
                ("fun", mk, [], [("decl", x, self.lit()), ("lam", f1, [], self.inc_body(x)), ("lam", f2, [], [("return", V(x))]),
                                 ("vpush", vs, V(f1)), ("vpush", vs, V(f2)), ("assign", x, ADD(V(x), L(3)))]),
                ("expr", CALL(mk))] + self.observe([("callidx", vs, 0, []), ("callidx", vs, 1, [])], 4)

    def t_exits(self):
        """a function left by return from inside nested loops / blocks while its variables are captured"""
        r = self.rng
        self.tags.add("exit:return")
        mk, x, y, i, f1, f2 = [self.fresh() for _ in range(6)]
        h1, h2 = self.fresh(), self.fresh()
        deep = [("decl", y, ADD(V(i), L(50)))] + self.publish(h2, [], self.inc_body(y)) + \
               [("if", V(i), L(1), [], [("return", V(y))])]
        body = [("decl", x, self.lit())] + self.publish(h1, [], self.inc_body(x)) + \
               [("loop", i, 3, [("block", deep)] if r.random() < 0.5 else deep), ("return", L(0))]
        return [self.dummy(h1), self.dummy(h2), ("fun", mk, [], body), ("print", CALL(mk))] + \
            self.observe([CALL(h1), CALL(h2)], 4)

    def t_throw(self):
        """an exception leaves frames / scopes whose variables are captured; caught outside"""
        r = self.rng
        self.tags.add("exit:exception")
        thr, x, e = self.fresh(), self.fresh(), self.fresh()
        h = self.fresh()
        inner = [("decl", x, self.lit())] + self.publish(h, [], self.inc_body(x)) + [("assign", x, ADD(V(x), L(2)))]
        k = r.choice(["frame", "block", "frame2", "tryblock", "tryblock"])
        if k == "tryblock":
            # the captured variable is the FIRST local of the try block: it sits exactly at the handler's stack height, the
            # slot into which unwind_stack pushes the exception
            self.tags.add("try_block_first_local_captured")
            after = [("decl", self.fresh(), L(2000))] + self.observe([CALL(h)], 2)
            return [self.dummy(h), ("try", inner + [("throw", L(7))], e, [("print", V(e))] + self.observe([CALL(h)], 1)),
                    ("block", after)]
        if k == "frame":
            body = inner + [("throw", L(7))]
        elif k == "block":
            body = [("block", inner + [("throw", L(7))])]
        else:
            g = self.fresh()
            body = [("fun", g, [], inner + [("throw", L(7))]), ("decl", self.fresh(), L(1)), ("expr", CALL(g))]
        after = [("decl", self.fresh(), L(2000)), ("decl", self.fresh(), L(3000))] + self.observe([CALL(h)], 2)
        return [self.dummy(h), ("fun", thr, [], body), ("try", [("expr", CALL(thr))], e, [("print", V(e))]), ("block", after)]

    def t_reuse(self):
        """a slot reused after its variable was closed gets a new variable"""
        r = self.rng
        self.tags.add("slot_reuse_after_close")
        h1, h2 = self.fresh(), self.fresh()
        x1, x2 = self.fresh(), self.fresh()
        b1 = [("decl", x1, L(1))] + self.publish(h1, [], self.inc_body(x1, L(1)))
        b2 = [("decl", x2, L(50))] + self.publish(h2, [], self.inc_body(x2, L(1)))
        if r.random() < 0.5:
            b2.append(("print", CALL(h1)))
        return [("block", [self.dummy(h1), self.dummy(h2), ("block", b1), ("block", b2)] +
                 self.observe([CALL(h1), CALL(h2)], 4))]

    def t_fiber(self):
        """a variable shared across fibers: captured in one, written in the other"""
        r = self.rng
        self.tags.add("across_fibers")
        x, h, g = self.fresh(), self.fresh(), self.fresh()
        if r.random() < 0.5:
            inner = [("decl", x, self.lit())] + self.publish(h, [], self.inc_body(x)) + \
                    [("fiber", [("print", CALL(h)), ("assign", x, ADD(V(x), L(10)))]), ("print", V(x))]
            return [self.dummy(h)] + self.exit_wrap(inner) + self.observe([CALL(h)], 2)
        inner = [("decl", x, self.lit())] + self.publish(h, [], self.inc_body(x)) + self.publish(g, [], [("return", V(x))])
        return [self.dummy(h), self.dummy(g), ("fiber", inner), ("print", CALL(h)),
                ("fiber", [("print", CALL(g)), ("print", CALL(h))]), ("print", CALL(g))]

    def rec_fn(self, f, other=None):
        """fn f(n) { if n < 3 { return 1 + f(n + 1) [+ other(n + 1)]; } else { return 0; } }  - f refers to (captures) itself"""
        n = self.fresh()
        e = ADD(L(1), CALL(f, ADD(V(n), L(1))))
        if other is not None:
            e = ADD(e, CALL(other, ADD(V(n), L(2))))
        return ("fun", f, [n], [("if", V(n), L(3), [("return", e)], [("return", L(0))])])

    def t_selfrec(self):
        """a self-recursive (or mutually recursive, through a holder) local fn declared in a NESTED block / loop body / function
        body: it captures its own variable inside its own initialiser; it escapes (outer variable or vec), is called after the
        block has ended AND after new locals took over its slot"""
        r = self.rng
        self.tags.add("selfrec_local_fn")
        f, g, pad = self.fresh(), self.fresh(), self.fresh()
        how = r.choice(["outer", "vec"])
        holder = self.fresh()
        pre = [("decl", holder, ("vec",))] if how == "vec" else [self.dummy(holder, 1)]
        esc = (lambda x: ("vpush", holder, V(x))) if how == "vec" else (lambda x: ("assign", holder, V(x)))
        call = (lambda a: ("callidx", holder, 0, [a])) if how == "vec" else (lambda a: CALL(holder, a))
        mutual = r.random() < 0.4
        inner = []
        if mutual:
            # hb holds g; f calls itself and (through hb) g, g calls itself and f
            self.tags.add("selfrec_mutual")
            hb = self.fresh()
            inner += [self.dummy(hb, 1), self.rec_fn(f, hb), self.rec_fn(g, f), ("assign", hb, V(g))]
        else:
            inner += [self.rec_fn(f)]
        inner += [esc(f), ("print", CALL(f, L(r.randint(0, 2))))]
        where = r.choice(["block", "block", "loop", "fnblock", "block2"])
        self.tags.add("selfrec_in:" + where)
        if where == "block":
            scope = [("block", inner)]
        elif where == "block2":
            scope = [("block", [("decl", self.fresh(), self.lit()), ("block", inner)])]
        elif where == "loop":
            scope = [("loop", self.fresh(), 1, inner)]
        else:
            k = self.fresh()
            scope = [("fun", k, [], [("block", inner), ("return", L(0))]), ("expr", CALL(k))]
        # afterwards new locals reuse the slots: a function and plain variables
        o, n2 = self.fresh(), self.fresh()
        after = [("fun", o, [n2], [("return", ADD(L(10), V(n2)))]), ("decl", self.fresh(), L(77)),
                 ("print", call(L(r.randint(0, 2)))), ("print", CALL(o, L(2))), ("print", call(L(0)))]
        body = ([("decl", pad, self.lit())] if r.random() < 0.7 else []) + scope + after
        outer = r.choice(["block", "fn", "block"])
        if outer == "block":
            return pre + [("block", body)] + [("print", call(L(1)))]
        k2 = self.fresh()
        return pre + [("fun", k2, [], body), ("expr", CALL(k2))] + [("print", call(L(1)))]

    def t_adjacent(self):
        """the FIRST local of an inner block is captured and sits directly above a captured local of the enclosing scope that
        stays live: after the inner block has ended the declaring scope writes / the closure reads and vice versa"""
        r = self.rng
        self.tags.add("captured_first_local_above_captured_local")
        add, peek, total, x, getx, n = [self.fresh() for _ in range(6)]
        # holders first (lower slots); the closures over `total` are created inside blocks of their own so that no temporary
        # stays between `total` and the inner block's first local
        body = [self.dummy(add, 1), self.dummy(peek)]
        if r.random() < 0.5:
            body.append(("decl", self.fresh(), self.lit()))
        body.append(("decl", total, self.lit()))
        body.append(("block", self.publish(add, [n], [("assign", total, ADD(V(total), V(n))), ("return", V(total))])))
        inner = [("decl", x, L(r.randint(1, 5)))] + [("lam", getx, [], [("return", V(x))])]
        if r.random() < 0.5:
            inner.append(("assign", x, ADD(V(x), L(1))))
        inner.append(("print", CALL(add, CALL(getx))))
        depth = r.randint(1, 3)
        blk = ("block", inner)
        body.append(blk)
        body += [("assign", total, ADD(V(total), L(10))), ("print", CALL(add, L(0))), ("print", V(total)),
                 ("block", self.publish(peek, [], [("return", V(total))])),
                 ("print", CALL(add, L(5))), ("print", V(total)), ("assign", total, ADD(V(total), L(100))),
                 ("print", CALL(peek)), ("print", CALL(add, L(0)))]
        for _ in range(depth - 1):
            body = [("decl", self.fresh(), self.lit()), ("block", body)] if r.random() < 0.5 else [("block", body)]
        self.tags.add("adjacent_depth:%d" % depth)
        if r.random() < 0.5:
            k = self.fresh()
            return [("fun", k, [], body), ("expr", CALL(k))]
        return [("block", body)]

    def t_fiberend(self):
        """getter + setter closures over variables declared at the TOP LEVEL of a fiber's entry function, escaping to outer
        holders and used after the fiber ran to its end (possibly after catching an error of its own); the captured variable holds
        a HEAP object that nothing else references (a closure, or a vec holding one), there is allocation between the end of the
        fiber and the uses (the debug build collects at every allocation), and reads / writes through both closures must go on
        being shared"""
        r = self.rng
        self.tags.add("fiber_entry_locals_outlive_fiber")
        get, put, c, k, a, a2, v, e, t = [self.fresh() for _ in range(9)]
        how = r.choice(["closure", "vec", "closure"])
        ending = r.choice(["end", "end", "error"])
        self.tags.add("fiberend:%s:%s" % (how, ending))
        counter = [("assign", c, ADD(V(c), V(a))), ("return", V(c))]
        body = [("decl", self.fresh(), self.lit())] if r.random() < 0.4 else []
        body.append(("decl", c, self.lit()))
        if how == "closure":
            body.append(("lam", k, [a], counter))
            rd = CALL(k, V(a2))
        else:
            body += [("decl", k, ("vec",)), ("lam", t, [a], counter), ("vpush", k, V(t))]
            rd = ("callidx", k, 0, [V(a2)])
        body += self.publish(get, [a2], [("return", rd)]) + self.publish(put, [v], [("assign", k, V(v)), ("return", L(0))])
        if r.random() < 0.5:
            body.append(("print", CALL(get, L(1))))
        if ending == "error":
            # an error that leaves a fiber ends the whole run in yarel (the caller cannot catch it: see the repl probes for
            # closures that outlive a failed run); here the fiber catches its own error as the last thing it does
            body.append(("try", [("decl", self.fresh(), self.lit()), ("throw", L(7))], e, [("print", V(e))]))
            self.top_only = True
        scope = [("fiber", body)]
        # afterwards: allocation, then reads through the getter, a write through the setter, reads again
        k2, b, nv = self.fresh(), self.fresh(), self.fresh()
        after = [("decl", self.fresh(), ("vec",)), ("print", CALL(get, L(1)))]
        after += [("lam", k2, [b], [("return", ADD(L(100), V(b)))])]
        after += [("print", CALL(get, L(2)))]
        if how == "closure":
            after += [("expr", CALL(put, V(k2)))]
        else:
            after += [("decl", nv, ("vec",)), ("vpush", nv, V(k2)), ("expr", CALL(put, V(nv)))]
        after += [("decl", self.fresh(), ("vec",)), ("print", CALL(get, L(3))), ("print", CALL(get, L(4)))]
        return [self.dummy(get, 1), self.dummy(put, 1)] + scope + after

    def t_crossfiber(self):
        """a lambda made on one fiber (over variables s.. that stay OPEN on that fiber's stack) RUNS ON ANOTHER fiber and there, in a
        block of its own, makes closures over s.. AND block locals (capture descriptors `inherited` and `local` mixed in a random
        order); the block ends, new locals take over the slots; the closures are used on the other fiber, on the first one while
        s.. are live (and written by the declaring scope), and after everything has been closed.  (Within the mini-language the
        second fiber is always created by the first; the directed family `run_crossfiber` has both directions.)"""
        r = self.rng
        self.tags.add("closure_made_on_another_fiber_than_its_inherited_variable")
        hg, hb, hl = self.fresh(), self.fresh(), self.fresh()
        svars = [self.fresh() for _ in range(r.randint(1, 2))]
        own = [self.fresh() for _ in range(r.randint(1, 2))]
        mk = self.fresh()

        def mix():
            seq = r.sample(svars, r.randint(1, len(svars))) + r.sample(own, r.randint(1, len(own)))
            r.shuffle(seq)
            if seq[0] in svars:
                self.tags.add("crossfiber_first_descriptor_inherited")
            return seq

        def total(seq):
            e = V(seq[0])
            for z in seq[1:]:
                e = ADD(e, V(z))
            return e
        g, b, l = mix(), mix(), mix()
        blk = [("decl", o, L(10 * (i + 1) + r.randint(0, 9))) for i, o in enumerate(own)]
        blk += self.publish(hg, [], [("return", total(g))])
        blk += self.publish(hb, [], [("assign", x, ADD(V(x), L(1))) for x in b] + [("return", total(b))])
        if r.random() < 0.5:
            blk.append(("print", CALL(hb)))
        blk += self.publish(hl, [], [("return", total(l))])
        body = [("decl", self.fresh(), self.lit()) for _ in range(r.randint(0, 2))]
        body.append(("block", [("decl", self.fresh(), self.lit()), ("block", blk)]) if r.random() < 0.3 else ("block", blk))
        later = self.fresh()
        body += [("decl", later, L(5000 + r.randint(0, 9))), ("decl", self.fresh(), L(6000)), ("print", V(later))]
        if r.random() < 0.6:
            body += [("print", CALL(hg)), ("print", CALL(hl))]
        body.append(("return", L(0)))
        inner = [("decl", self.fresh(), self.lit()) for _ in range(r.randint(0, 2))]
        inner += [("decl", s, L(100 * (i + 1) + r.randint(0, 9))) for i, s in enumerate(svars)]
        inner.append(("lam", mk, [], body))
        inner.append(("fiber", [("expr", CALL(mk))] if r.random() < 0.6 else
                      [("decl", self.fresh(), self.lit()), ("expr", CALL(mk)), ("print", CALL(hb))]))
        inner.append(("assign", svars[0], ADD(V(svars[0]), L(1000))))
        inner += self.observe([CALL(hg), CALL(hb), CALL(hl)], 3) + [("print", V(svars[0]))]
        host = r.choice(["wrap", "fiber", "fiber"])
        self.tags.add("crossfiber_host:" + host)
        scope = [("fiber", inner)] if host == "fiber" else self.exit_wrap(inner)
        return [self.dummy(hg), self.dummy(hb), self.dummy(hl)] + scope + [("decl", self.fresh(), ("vec",))] + \
            self.observe([CALL(hg), CALL(hb), CALL(hl)], 4)

    TEMPLATES = ["t_shared", "t_many", "t_deep", "t_params", "t_loop", "t_shadow", "t_escape", "t_exits", "t_throw",
                 "t_reuse", "t_fiber", "t_selfrec", "t_adjacent", "t_fiberend", "t_crossfiber"]

    def program(self, allow_throw=True):
        r = self.rng
        self.n = 0
        self.tags = set()
        self.top_only = False
        k = r.choice([1, 1, 2, 2, 3])
        names = [r.choice(self.TEMPLATES) for _ in range(k)]
        if not allow_throw:
            names = [n if n != "t_throw" else "t_shared" for n in names]
        parts = [getattr(self, n)() for n in names]
        # try statements stay at the top level of the program (one handler at a time); everything else may nest
        if "t_throw" in names or self.top_only:
            p = [s for part in parts for s in part]
            return p, sorted(self.tags | {"tmpl:" + n for n in names})
        p = []
        for part in parts:
            c = r.random()
            if c < 0.35:
                p += part
            elif c < 0.6:
                p.append(("block", part))
            elif c < 0.8:
                f = self.fresh()
                p += [("fun", f, [], part), ("expr", CALL(f))]
            elif c < 0.9:
                p.append(("loop", self.fresh(), r.randint(1, 2), part))
            else:
                p.append(("fiber", part))
        return p, sorted(self.tags | {"tmpl:" + n for n in names})


def wrap_variants(p, fresh):
    """the metamorphic triple: the top level inside a function called once, a block, a fiber"""
    f = fresh
    return {"fn": [("fun", f, [], p), ("expr", CALL(f))], "block": [("block", p)], "fiber": [("fiber", p)]}


def max_name(p):
    m = 0

    def ex(e):
        nonlocal m
        if e[0] == "var":
            m = max(m, e[1])
        elif e[0] == "add":
            ex(e[1])
            ex(e[2])
        elif e[0] == "call":
            m = max(m, e[1])
            for a in e[2]:
                ex(a)
        elif e[0] == "callidx":
            m = max(m, e[1])
            for a in e[3]:
                ex(a)
    for s in walk(p):
        for part in s[1:]:
            if isinstance(part, int):
                m = max(m, part)
            elif isinstance(part, tuple):
                ex(part)
            elif isinstance(part, list) and part and isinstance(part[0], int):
                m = max([m] + part)
    return m


def has_top_try(p):
    return any(s[0] == "try" for s in p)


# ---------------------------------------------------------------------------------------------------------
# the real compiler's bytes in the text form of ScopeComp.show_instr

def parse_functions(rec):
    """F/C lines of `compile` / `utrace` -> {idx: dict(arity, nups, code bytes, consts)}"""
    fs = {}
    for l in rec.lines:
        f = l.split(" ")
        if f[0] == "F":
            fs.setdefault(int(f[1]), {}).update(arity=int(f[2]), nups=int(f[3]),
                                                code=b"" if f[5] == "-" else bytes.fromhex(f[5]))
        elif f[0] == "C":
            fs.setdefault(int(f[1]), {})["consts"] = [c for c in f[2:] if c]
    return fs


def const_text(c):
    if c.startswith("n"):
        v = struct.unpack("<d", struct.pack("<Q", int(c[1:])))[0]
        return str(int(v)) if v == int(v) else repr(v)
    if c.startswith("s"):
        return yvlib.unhx(c[1:]).decode("utf-8", "replace")
    if c.startswith("f"):
        return "fn%s" % c[1:]
    return "?" + c


def decode_function(fs, idx):
    """-> list of (text, child function idx or None) ; raises ValueError on an opcode outside the fragment"""
    fn = fs[idx]
    code, consts = fn["code"], fn.get("consts", [])
    names = opcode_names()
    out = []
    pc = 0
    u8 = lambda o: code[o]
    u16 = lambda o: code[o] | (code[o + 1] << 8)
    simple = {"Nil": "NIL", "Pop": "POP", "Add": "ADD", "Less": "LESS", "CloseUpvalue": "CU", "Return": "RET",
              "BuildRange": "RANGE", "IterNext": "ITN", "GetItem": "GI", "PopExcHandler": "POH", "Throw": "THROW"}
    byte1 = {"GetLocal": "GL", "SetLocal": "SL", "GetUpvalue": "GU", "SetUpvalue": "SU", "Call": "CALL", "BuildVec": "VEC"}
    jumps = {"Jump": "JMP", "JumpIfFalse": "JIF", "JumpIfStopIter": "JSI", "Loop": "LOOP"}
    cnames = {"GetGlobal": "GG", "DefineGlobal": "DG", "SetGlobal": "SG"}
    while pc < len(code):
        op = names[code[pc]] if code[pc] < len(names) else "?%d" % code[pc]
        if op in simple:
            out.append((simple[op], None))
            pc += 1
        elif op in byte1:
            out.append(("%s %d" % (byte1[op], u8(pc + 1)), None))
            pc += 2
        elif op in jumps:
            out.append(("%s %d" % (jumps[op], u16(pc + 1)), None))
            pc += 3
        elif op in cnames:
            out.append(("%s %s" % (cnames[op], const_text(consts[u16(pc + 1)])), None))
            pc += 3
        elif op == "Constant":
            out.append(("CONST %s" % const_text(consts[u16(pc + 1)]), None))
            pc += 3
        elif op == "Invoke":
            out.append(("INV %s %d" % (const_text(consts[u16(pc + 1)]), u8(pc + 3)), None))
            pc += 4
        elif op == "PushExcHandler":
            out.append(("PEH %d %d" % (u16(pc + 1), u16(pc + 3)), None))
            pc += 5
        elif op == "Closure":
            child = int(consts[u16(pc + 1)][1:])
            n = fs[child]["nups"]
            ds = ["%d:%d" % (code[pc + 3 + 2 * i], code[pc + 4 + 2 * i]) for i in range(n)]
            out.append(("CLO" + "".join(" " + d for d in ds), child))
            pc += 3 + 2 * n
        else:
            raise ValueError("opcode %s outside the mini-language's fragment" % op)
    return out


def compare_code(fs, model_text):
    """structural comparison of the real function tree with ScopeComp.show_compiled; returns (mismatch or None, {real idx: model idx})"""
    if model_text.startswith("ERR"):
        return "model reports a compile error: " + model_text, {}
    mf = []
    for part in model_text.split("|"):
        head, _, body = part.partition(":")
        ar, nu = head.split(" ")
        mf.append((int(ar), int(nu), body.split(";") if body else []))
    mapping = {}

    def cmp(ri, mi):
        mapping[ri] = mi
        rfn = fs[ri]
        ar, nu, mins = mf[mi]
        if rfn["arity"] - 1 != ar or rfn["nups"] != nu:
            return "function %d: arity/upvalues real %d/%d model %d/%d" % (ri, rfn["arity"] - 1, rfn["nups"], ar, nu)
        try:
            rins = decode_function(fs, ri)
        except (ValueError, IndexError) as e:
            return "function %d: %s" % (ri, e)
        if len(rins) != len(mins):
            return "function %d: %d instructions, model %d | real %s | model %s" % (
                ri, len(rins), len(mins), ";".join(t for t, _ in rins), ";".join(mins))
        for k, ((rt, child), mt) in enumerate(zip(rins, mins)):
            if child is not None:
                m = re.match(r"CLO (\d+)(.*)$", mt)
                if not m or ("CLO" + m.group(2)) != rt:
                    return "function %d instr %d: real %s model %s" % (ri, k, rt, mt)
                e = cmp(child, int(m.group(1)))
                if e:
                    return e
            elif rt != mt:
                return "function %d instr %d: real %s model %s" % (ri, k, rt, mt)
        return None
    return cmp(0, len(mf) - 1), mapping


# ---------------------------------------------------------------------------------------------------------
# traces

def parse_trace(rec):
    steps = []
    for l in rec.lines:
        if l.startswith("T "):
            f = l.split(" ")
            u = f[11][2:]
            steps.append(dict(fiber=int(f[1]), fn=int(f[2]), pc=int(f[3]), op=int(f[4]), len=int(f[5]), base=int(f[6]),
                              frames=int(f[7]), nh=int(f[8]), hsize=int(f[9]), hframes=int(f[10]),
                              u=[int(x) for x in u.split(",")] if u else []))
    return steps


def list_ok(u, n):
    return all(a > b for a, b in zip(u, u[1:])) and all(0 <= x < n for x in u)


def model_config():
    with open(os.path.join(yvlib.COQ, "gen", "manifest.json")) as fh:
        return json.load(fh).get("c06", {})


def trace_groups(steps, fs):
    """event groups for ScopeRun.up_replay; returns (groups, info)"""
    unwind_closes = bool(model_config().get("unwind_closes_upvalues"))
    jf_closes = bool(model_config().get("jump_finally_closes_upvalues"))
    CLOSURE, CLOSEUP, RETURN, POPEXC, JUMPFIN = [opnum(x) for x in ("Closure", "CloseUpvalue", "Return", "PopExcHandler", "JumpFinally")]
    groups = []
    info = {"captures": 0, "closes": 0, "returns": 0, "unwinds": 0, "unwind_over_open": None, "undecodable": 0,
            "lists_bad": None, "max_open": 0, "switches": 0}
    last = None
    pending = True
    for i, s in enumerate(steps):
        info["max_open"] = max(info["max_open"], len(s["u"]))
        if not list_ok(s["u"], s["len"]) and info["lists_bad"] is None:
            info["lists_bad"] = (i, s["u"], s["len"])
        key = (s["fiber"], tuple(s["u"]))
        if last is not None and last[0] != s["fiber"]:
            info["switches"] += 1
        checked = False
        if pending or key != last:
            groups.append([1, s["fiber"], s["len"]] + s["u"])
            pending = False
            checked = True
        last = key
        op = s["op"]
        ev = []
        if op == CLOSURE:
            fn = fs.get(s["fn"])
            if fn is None:
                info["undecodable"] += 1
                break
            code = fn["code"]
            child = int(fn["consts"][code[s["pc"] + 1] | (code[s["pc"] + 2] << 8)][1:])
            for k in range(fs[child]["nups"]):
                if code[s["pc"] + 3 + 2 * k]:
                    ev.append([2, s["base"] + code[s["pc"] + 4 + 2 * k]])
                    info["captures"] += 1
            if ev:
                # closure_impl pushes the new closure BEFORE it captures (a local fn may capture the very slot it is stored in)
                ev.insert(0, [1, s["fiber"], s["len"] + 1] + s["u"])
        elif op == CLOSEUP:
            ev.append([3])
            info["closes"] += 1
        elif op == RETURN:
            ev += [[6], [4, s["base"]]]
            info["returns"] += 1
        nxt = steps[i + 1] if i + 1 < len(steps) else None
        if nxt is not None and nxt["fiber"] == s["fiber"] and nxt["nh"] == s["nh"] - 1 and op != POPEXC:
            # unwind_stack (or JumpFinally): stack.truncate(handler.init_stack_size)
            info["unwinds"] += 1
            if op == JUMPFIN:
                info["jump_finally"] = info.get("jump_finally", 0) + 1
            if (jf_closes if op == JUMPFIN else unwind_closes):
                ev.append([4, s["hsize"]])       # close_upvalues(init_stack_size); truncate
            elif any(x >= s["hsize"] for x in s["u"]):
                info["unwind_over_open"] = (i, s["u"], s["hsize"], "JumpFinally" if op == JUMPFIN else "unwind_stack")
                if not checked:
                    groups.append([1, s["fiber"], s["len"]] + s["u"])
                break
            else:
                ev.append([5, s["hsize"]])
        if ev:
            if not checked:
                groups.append([1, s["fiber"], s["len"]] + s["u"])
            groups += ev
            pending = True
    return groups, info


def groups_wire(groups):
    return '"%s"%%string' % ";".join(" ".join(str(x) for x in g) for g in groups)


def model_trace_cmp(steps, mtrace, mapping):
    """real trace vs ScopeComp.trace_m, instruction by instruction"""
    if mtrace is None or mtrace.startswith("#"):
        return "model trace unavailable: %s" % mtrace
    ms = mtrace.split(";")
    fibmap = {}
    for i, (s, m) in enumerate(zip(steps, ms)):
        f = m.split(" ")
        if len(f) < 6:
            return "step %d: model stopped (%s)" % (i, m)
        # model fiber ids are creation order; the harness numbers fiber ADDRESSES in first-seen order and the address of a
        # finished, collected fiber may be reused: require a consistent map model id -> reported id
        mf = fibmap.setdefault(int(f[0]), s["fiber"])
        mine = (mf, int(f[1]), int(f[2]), int(f[3]), int(f[4]), int(f[5]), [int(x) for x in f[6].split(",")] if len(f) > 6 and f[6] else [])
        real = (s["fiber"], mapping.get(s["fn"], -1), s["pc"], s["len"], s["base"], s["frames"], s["u"])
        if mine != real:
            return "step %d: real (fiber,fn,pc,len,base,frames,open)=%s model %s" % (i, real, mine)
    if len(ms) != len(steps):
        return "trace lengths differ: real %d model %d" % (len(steps), len(ms))
    return None


# ---------------------------------------------------------------------------------------------------------

def run_checked(binary, lines, case_timeout_ms=10000):
    """yvlib.run_harness + machine load: a case that crashed / timed out inside a batch (a whole shard may run out of time when the
    machine is overloaded) is re-run ALONE with a generous time-out before it is believed; a real crash reproduces"""
    recs = yvlib.run_harness(binary, lines, case_timeout_ms=case_timeout_ms)
    left = 40                       # bounded: when everything crashes, re-running is pointless
    for i, r in enumerate(recs):
        if r.crashed and left > 0:
            left -= 1
            recs[i] = yvlib.run_harness(binary, [lines[i]], case_timeout_ms=max(60000, 3 * case_timeout_ms), shards=1)[0]
    return recs


def norm_out(lines):
    return [re.sub(r" @ (0x[0-9a-f]+|ADDR)", "", l) for l in lines]


def impl_outcome(rec):
    k = rec.result[0]
    st = "ok" if k == "ok" else "err" if k == "err" else k + ":" + str(rec.result[1])[:80]
    return "|".join(norm_out(rec.output)) + "#" + st


# fixed programs OUTSIDE the mini-language (methods, while, late-bound globals, catch variables, return inside try);
# expected output known by construction; (name, source, expected lines, known class when the implementation deviates)
PROBES = [
    ("return_in_try_finally",
     "var G = nil; fn f() { try { var x = 5; G = || x; return 1; } finally { var y = 99; print(y); } } print(f()); print(G());",
     ["99", "1", "5"], None),
    ("method_parameter",
     "#[constructor(new)] class A { fn mk(self, p) { return || { p = p + 1; return p; }; } } var a = A.new(); var c = a.mk(5); "
     "var d = a.mk(50); print(c()); print(c()); print(d());", ["6", "7", "51"], None),
    ("while_body_variable",
     "var fs = []; var i = 0; while i < 3 { var j = i * 10; fs.push(|| { j = j + 1; return j; }); i = i + 1; } "
     "print(fs[0]()); print(fs[2]()); print(fs[0]());", ["1", "21", "2"], None),
    ("self_captured",
     "#[constructor(new)] class B { fn get(self) { return || self.v; } } var b = B.new(); b.v = 7; var g = b.get(); b.v = 8; print(g());",
     ["8"], None),
    ("global_looked_up_at_use", "fn f() { return g; } var g = 3; print(f()); g = 4; print(f());", ["3", "4"], None),
    ("while_break_captured",
     "fn w() { var q = 3; var h = nil; while true { var r = 9; h = || r; break; } var s = 5; print(s); print(q); print(h()); } w();",
     ["5", "3", "9"], None),
    ("catch_variable_captured",
     "var G = nil; { try { throw 5; } catch e { G = || { e = e + 1; return e; }; } var z = 100; print(G()); print(G()); print(z); }",
     ["6", "7", "100"], None),
    ("while_continue_captured",
     "fn w() { var fs = []; var i = 0; while i < 4 { i = i + 1; var r = i; fs.push(|| r); if i == 2 { continue; } var t = 50; } "
     "var s = 5; print(s); print(fs[1]()); print(fs[3]()); } w();", ["5", "2", "4"], None),
    ("throw_inside_frame_caught_inside",
     "var G = nil; fn f() { var a = 1; try { var x = 5; G = || { x = x + 1; return x; }; throw 2; } catch e { print(e); } "
     "var b = 7; print(b); return a; } print(f()); print(G());", ["2", "7", "1", "6"], None),
    # getter + setter closures over a local AND the parameter of a fiber's ENTRY function (both hold vectors built at run time, owned
    # only by the variable), escaping to globals: used while the fiber is suspended, then after it ran to its end, with allocation
    # in between
    ("fiber_entry_locals_suspended_then_finished",
     "var G = nil; var S = nil; var P = nil; var f = Fiber.new(|first| { var data = [first[0], first[0] + 1]; G = || data; "
     "S = |v| { data = v; return data; }; P = |x| { first.push(x); return first; }; Fiber.yield(nil); data.push(first[0] + 2); }); "
     "f.call([1]); print(G()); print(P(5)); var pad = [\"pad\"]; print(S([9])); print(G()); f.call(); var unrelated = [\"unrelated\"]; "
     "print(G()); print(P(6)); print(S([7, 8])); var noise = [\"noise\"]; print(G()); print(P(7));",
     ["[1, 2]", "[1, 5]", "[9]", "[9]", "[9, 3]", "[1, 5, 6]", "[7, 8]", "[7, 8]", "[1, 5, 6, 7]"], None),
    # the entry function of a fiber left by `return` from inside a loop: its own local and the loop-body local stay captured
    ("fiber_entry_return_from_loop",
     "var G = nil; var H = nil; Fiber.new(|| { var d = [1]; G = |x| { d.push(x); return d; }; for i in 0..3 { var e = [i]; "
     "H = |x| { e.push(x); return e; }; if i == 1 { return; } } }).call(); var pad = [\"pad\"]; print(G(2)); print(H(3)); "
     "var pad2 = [\"pad2\"]; print(G(4)); print(H(5));", ["[1, 2]", "[1, 3]", "[1, 2, 4]", "[1, 3, 5]"], None),
]

# closures that OUTLIVE a run (repl sessions: one VM, several snippets): over block locals of the script, over locals of a fiber whose
# error ended the whole run (an error leaving a fiber cannot be caught by its caller), over block locals of a script ended by an error;
# (name, snippets, expected printed lines over the whole session)
REPL_PROBES = [
    ("closures_outlive_the_run",
     ["var G = nil; var S = nil; { var d = [1, 2]; G = || d; S = |v| { d = v; return d; }; }",
      "var pad = [\"pad\"]; print(G()); print(S([3])); print(G());",
      "var H = nil; var T = nil; Fiber.new(|| { var q = [5]; H = || q; T = |v| { q = v; return q; }; { var z = [6]; G = || z; throw 1; } }).call();",
      "var pad2 = [\"x\"]; print(H()); print(T([8])); var pad3 = [\"y\"]; print(H()); print(G());",
      "{ var w = [1]; S = |x| { w.push(x); return w; }; throw 2; }",
      "var pad4 = [\"z\"]; print(S(2)); var pad5 = [\"u\"]; print(S(3));"],
     ["[1, 2]", "[3]", "[3]", "[5]", "[8]", "[8]", "[6]", "[1, 2]", "[1, 2, 3]"]),
]


def run_probes(ctx, stats):
    fast = ctx.harness("release")
    binary = ctx.harness("debug")
    recs = run_checked(fast, ["run - " + hx(src) for _, src, _, _ in PROBES], case_timeout_ms=10000)
    drecs = run_checked(binary, ["run - " + hx(src) for _, src, _, _ in PROBES], case_timeout_ms=10000)
    trecs = run_checked(binary, ["utrace - 20000 " + hx(src) for _, src, _, _ in PROBES], case_timeout_ms=20000)
    # repl sessions, on both builds (the debug build collects at every allocation)
    for name, snips, expect in REPL_PROBES:
        line = "repl - " + " ".join(hx(x) for x in snips)
        for build, b in (("release", fast), ("debug", binary)):
            r = run_checked(b, [line], case_timeout_ms=10000)[0]
            got = norm_out(r.output)
            if got != expect or r.crashed:
                ctx.violation("repl probe %s (%s build): printed output differs from the expected one" % (name, build),
                              input=" /// ".join(snips), expected=expect, actual=got + (["crashed: %s" % r.crashed] if r.crashed else []))
                break
    terms, keep = [], []
    for (name, src, expect, kc), r0, r1, t in zip(PROBES, recs, drecs, trecs):
        for build, r in (("release", r0), ("debug", r1)):
            got = norm_out(r.output)
            if got != expect or r.result[0] != "ok":
                ctx.violation("probe %s (%s build): printed output differs from the expected one" % (name, build), input=src,
                              expected=expect, actual=got + ([str(r.result)] if r.result[0] != "ok" else []), known_class=kc)
                if kc:
                    stats["known"][kc] = stats["known"].get(kc, 0) + 1
                break
        steps = parse_trace(t)
        if steps:
            groups, info = trace_groups(steps, parse_functions(t))
            stats["trace_steps"] += len(steps)
            if info["unwind_over_open"] and not kc:
                ctx.violation("probe %s: the stack was truncated below an open upvalue" % name, input=src,
                              expected="every open upvalue below the stack top", actual=str(info["unwind_over_open"]))
            elif info["lists_bad"] and not info["unwind_over_open"]:
                ctx.violation("probe %s: a reported open-upvalue list violates upvalue_list_inv" % name, input=src,
                              expected="strictly descending, below the stack top", actual=str(info["lists_bad"]), known_class=kc)
            terms.append("up_replay %s" % groups_wire(groups))
            keep.append(name)
    vals = yvlib.coq_eval(["YV:ScopeRun"], terms, shard_size=4, tag="C06probes")
    for name, v in zip(keep, vals):
        if v is None or not v.startswith("ok"):
            ctx.corr_broken.append("trace replay through Upvalues.v on probe %s: %s" % (name, v))
    return len(PROBES) + len(REPL_PROBES)


def limit_program(na, nb):
    """one function (inner) capturing na variables of its grandparent and nb of its parent (na + nb upvalues, all distinct),
    reading all, writing the last; then another closure reads the FIRST again, the parent reads the last, the grandparent the first"""
    L = ["fn outer() {"]
    L += [" var a%d = %d;" % (i, i) for i in range(na)]
    L.append(" fn mid() {")
    L += ["  var b%d = %d;" % (i, 1000 + i) for i in range(nb)]
    L.append("  fn inner() { var s = 0;")
    L += ["   s = s + a%d;" % i for i in range(na)]
    L += ["   s = s + b%d;" % i for i in range(nb)]
    L.append("   b%d = -1; return s; }" % (nb - 1))
    L.append("  print(inner()); var g = || a0; print(g()); print(b%d); }" % (nb - 1))
    L.append(" mid(); print(a0); }")
    L.append("outer();")
    expect = [str(sum(range(na)) + sum(1000 + i for i in range(nb))), "0", "-1", "0"]
    return "\n".join(L), expect


def run_limits(ctx, stats):
    """directed family at UPVALUES_MAX: functions capturing exactly 255, 256, 257 (and 258) distinct variables over two enclosing
    levels.  Spec: either the program is rejected at compile time, or every variable keeps its own value (a captured variable never
    aliases another one)."""
    fast = ctx.harness("release")
    cases = []
    for n in (255, 256, 257, 258):
        for na in (200, 128, n - 200):
            cases.append((n, na, n - na))
    progs = [limit_program(na, nb) for _, na, nb in cases]
    recs = run_checked(fast, ["run - " + hx(src) for src, _ in progs], case_timeout_ms=20000)
    outcome = {}
    for (n, na, nb), (src, expect), r in zip(cases, progs, recs):
        got = norm_out(r.output)
        if r.result[0] == "err" and "Compile" in str(r.result[1]) and not got:
            outcome["%d=%d+%d" % (n, na, nb)] = "rejected at compile time"
            continue
        if r.result[0] == "ok" and got == expect:
            outcome["%d=%d+%d" % (n, na, nb)] = "accepted, every variable keeps its own value"
            continue
        ctx.violation("a function capturing %d distinct variables (%d of its grandparent, %d of its parent): neither rejected at compile "
                      "time nor does every variable keep its own value" % (n, na, nb),
                      input=src if len(src) < 4000 else src[:1500] + "\n ... \n" + src[-1500:], expected=expect,
                      actual=got + ([str(r.result)] if r.result[0] != "ok" else []))
        outcome["%d=%d+%d" % (n, na, nb)] = "VIOLATION"
    stats["limit_family"] = outcome
    return len(cases)


# ---------------------------------------------------------------------------------------------------------
# directed family "cross-fiber capture" (round 7): closures MADE on one fiber while a variable they inherit is still OPEN on
# ANOTHER fiber's stack.  Source texts outside the mini-language (fibers created first and called later with an argument,
# Fiber.yield): the expected output is tracked in Python cells while the text is emitted AND computed by the full reference
# interpreter (SpecScripts.run_case); both must agree before the implementation is judged.

class XF:
    """one program: two fibers P (host) and Q.  P declares variables s.. and a lambda mk over them; mk RUNS ON Q (Q.call(mk)):
    in a block of its own it declares own.. and pushes three closures (getter, bump, late getter) that mix inherited s.. (open on
    P's stack) and own.. (locals of the frame on Q's stack) in a random order of first mention (= order of the capture
    descriptors); the block ends, later.. locals take over the slots, the closures are used on Q, on P while P's scope is live
    (P writes s in between) and after everything is closed.  `symmetric`: Q, suspended by Fiber.yield with ITS variables t.. open,
    hands a lambda of the same shape to P, which runs it on P's stack - so every program exercises both directions between the
    same two stacks, whichever of them the allocator placed at the higher address."""

    def __init__(self, rng):
        self.r = rng
        self.n = 0
        self.cell = {}
        self.tags = set()
        self.out = []
        self.exp = []

    def name(self, stem):
        self.n += 1
        return "%s%d" % (stem, self.n)

    def newvar(self, stem):
        x = self.name(stem)
        self.cell[x] = self.r.randint(1, 9) * 10 ** self.r.randint(0, 1) + self.n * 100
        return x

    def decl(self, ind, stem):
        x = self.newvar(stem)
        self.out.append("    " * ind + "var %s = %d;" % (x, self.cell[x]))
        return x

    @staticmethod
    def show(vals):
        return "[" + ", ".join(str(v) for v in vals) + "]"

    def closures(self, inherited, own):
        """(kind, source text, variables in order of first mention) of the three closures made inside the block"""
        r = self.r

        def pick():
            a = r.sample(inherited, r.randint(1, len(inherited)))
            b = r.sample(own, r.randint(1, len(own)))
            first = r.choice(["inherited", "own", "mixed"])
            if first == "inherited":
                seq = a[:1] + r.sample(a[1:] + b, len(a) + len(b) - 1)
            elif first == "own":
                seq = b[:1] + r.sample(b[1:] + a, len(a) + len(b) - 1)
            else:
                seq = r.sample(a + b, len(a) + len(b))
            self.tags.add("first_descriptor:" + ("inherited" if seq[0] in inherited else "own"))
            if any(x in inherited and y in own for x, y in zip(seq, seq[1:])):
                self.tags.add("own_descriptor_directly_after_inherited")
            return seq
        g, b, l = pick(), pick(), pick()
        return [("get", "|| [%s]" % ", ".join(g), g),
                ("bump", "|d| { %s return [%s]; }" % (" ".join("%s = %s + d;" % (x, x) for x in b), ", ".join(b)), b),
                ("get", "|| [%s]" % ", ".join(l), l)]

    def call(self, clos, holder, k, arg=None):
        """(expression text, expected printed text) of calling closure k held in the vec `holder`; updates the cells"""
        kind, _, vs = clos[k]
        if kind == "bump":
            for x in vs:
                self.cell[x] += arg
            return "%s[%d](%d)" % (holder, k, arg), self.show([self.cell[x] for x in vs])
        return "%s[%d]()" % (holder, k), self.show([self.cell[x] for x in vs])

    def use(self, clos, holder, ind, seq):
        for k in seq:
            text, e = self.call(clos, holder, k, self.r.randint(2, 9) if clos[k][0] == "bump" else None)
            self.out.append("    " * ind + "print(%s);" % text)
            self.exp.append(e)

    def maker(self, mk, inherited, ind):
        """emits  var mk = || { pads; var res = []; { own..; res.push(three closures); } later..; print; return res; };
        returns (closures, account) - account() appends the lines ONE run of mk prints and updates the cells"""
        r, out = self.r, self.out
        I = "    " * ind
        res = self.name("res")
        deep = r.random() < 0.35        # the closures are made one function level further in (inherited through two levels)
        if deep:
            self.tags.add("made_in_nested_lambda")
        out.append(I + "var %s = || {" % mk)
        lvl = ind + 1
        if deep:
            inner = self.name("inner")
            out.append("    " * lvl + "var %s = || {" % inner)
            lvl += 1
        for _ in range(r.randint(0, 2)):
            self.decl(lvl, "pad")
        out.append("    " * lvl + "var %s = [];" % res)
        nest = r.randint(1, 2)
        for i in range(nest):
            out.append("    " * (lvl + i) + "{")
            if i == 0 and nest == 2 and r.random() < 0.5:
                self.decl(lvl + 1, "mid")
        own = [self.decl(lvl + nest, "own") for _ in range(r.randint(1, 3))]
        clos = self.closures(inherited, own)
        split = r.random() < 0.5        # a call between the second and the third capture of the same variables
        for k, (_, text, _) in enumerate(clos):
            out.append("    " * (lvl + nest) + "%s.push(%s);" % (res, text))
            if k == 1 and split:
                out.append("    " * (lvl + nest) + "print(%s[1](1));" % res)
        for i in range(nest - 1, -1, -1):
            out.append("    " * (lvl + i) + "}")
        later = [self.decl(lvl, "later") for _ in range(r.randint(1, 3))]
        out.append("    " * lvl + "print(%s);" % " + ".join(later))
        post = r.random() < 0.6
        if post:
            out.append("    " * lvl + "print(%s[0]());" % res)
            out.append("    " * lvl + "print(%s[2]());" % res)
        out.append("    " * lvl + "return %s;" % res)
        if deep:
            lvl -= 1
            out.append("    " * lvl + "};")
            out.append("    " * lvl + "return %s();" % inner)
        out.append(I + "};")

        def account():
            if split:
                self.exp.append(self.call(clos, res, 1, 1)[1])
            self.exp.append(str(sum(self.cell[v] for v in later)))
            if post:
                self.exp.append(self.call(clos, res, 0)[1])
                self.exp.append(self.call(clos, res, 2)[1])
        return clos, account

    def garbage(self, ind):
        """other fibers allocated (kept or dropped) around the two: moves the stacks around in memory"""
        for _ in range(self.r.randint(0, 2)):
            self.out.append("    " * ind + ("KEEP.push(Fiber.new(|| 0));" if self.r.random() < 0.5 else "Fiber.new(|| 0).call();"))

    def emit_q(self, q, ind, symmetric):
        """Q's declaration.  symmetric: |f| { qpads; t..; var r = f(); var mk2 = ..; var back = Fiber.yield([r, mk2]);
        t0 = t0 + 2000; uses of back / r; }"""
        r, out = self.r, self.out
        I = "    " * ind
        if not symmetric:
            out.append(I + "var %s = Fiber.new(|f| f());" % q)
            return None
        f, rr, back, mk2 = self.name("f"), self.name("r"), self.name("back"), self.name("mk")
        out.append(I + "var %s = Fiber.new(|%s| {" % (q, f))
        for _ in range(r.randint(0, 2)):
            self.decl(ind + 1, "qpad")
        tvars = [self.decl(ind + 1, "t") for _ in range(r.randint(1, 3))]
        out.append(I + "    var %s = %s();" % (rr, f))
        clos2, account2 = self.maker(mk2, tvars, ind + 1)
        out.append(I + "    var %s = Fiber.yield([%s, %s]);" % (back, rr, mk2))
        t0 = tvars[0]
        out.append(I + "    %s = %s + 2000;" % (t0, t0))
        tail = [(0, None), (1, r.randint(2, 9)), (2, None)]
        for k, arg in tail:
            out.append(I + "    print(%s[%d](%s));" % (back, k, "" if arg is None else str(arg)))
        out.append(I + "    print(%s);" % t0)
        out.append(I + "    print(%s[0]());" % rr)
        out.append(I + "});")
        return dict(r=rr, back=back, clos2=clos2, account2=account2, t0=t0, tail=tail)

    def program(self):
        r, out, exp = self.r, self.out, self.exp
        host = r.choice(["block", "fn", "fiber", "fiber"])        # where P's variables live
        symmetric = r.random() < 0.75
        q_first = r.random() < 0.5                                  # Q created before P's scope / fiber exists, or inside it
        abandon = symmetric and r.random() < 0.25                   # Q is never resumed and its handle dropped
        self.tags |= {"host:" + host, "symmetric" if symmetric else "one_direction", "q_created:" + ("first" if q_first else "inside")}
        if abandon:
            self.tags.add("suspended_fiber_abandoned")
        out += ["var R1 = nil;", "var R2 = nil;", "var KEEP = [];"]
        q = self.name("q")
        qs = None
        if q_first:
            self.garbage(0)
            qs = self.emit_q(q, 0, symmetric)
            self.garbage(0)
        if host == "block":
            opener, closer = "{", "}"
        elif host == "fn":
            hf = self.name("host")
            opener, closer = "fn %s() {" % hf, "}\n%s();" % hf
        else:
            opener, closer = "Fiber.new(|| {", "}).call();"
        out.append(opener)
        I = "    "
        for _ in range(r.randint(0, 2)):
            self.decl(1, "ppad")
        if not q_first:
            self.garbage(1)
            qs = self.emit_q(q, 1, symmetric)
            self.garbage(1)
        svars = [self.decl(1, "s") for _ in range(r.randint(1, 3))]
        mk = self.name("mk")
        clos1, account1 = self.maker(mk, svars, 1)
        y, r1, r2 = self.name("y"), self.name("r"), self.name("r")
        # direction 1: P's lambda runs on Q
        if symmetric:
            out.append(I + "var %s = %s.call(%s);" % (y, q, mk))
            out.append(I + "var %s = %s[0];" % (r1, y))
        else:
            out.append(I + "var %s = %s.call(%s);" % (r1, q, mk))
        account1()
        s0 = svars[0]
        out.append(I + "%s = %s + 1000;" % (s0, s0))
        self.cell[s0] += 1000
        self.use(clos1, r1, 1, [0, 1, 2, 0])
        out.append(I + "print(%s);" % s0)
        exp.append(str(self.cell[s0]))
        if symmetric:
            # direction 2: Q's lambda runs on P while Q is suspended with its variables open
            out.append(I + "var %s = %s[1]();" % (r2, y))
            qs["account2"]()
            self.use(qs["clos2"], r2, 1, [0, 1, 2])
            if abandon:
                out.append(I + "%s = nil;" % q)
                out.append(I + "%s = nil;" % y)
            else:
                out.append(I + "%s.call(%s);" % (q, r2))
                self.cell[qs["t0"]] += 2000
                for k, arg in qs["tail"]:
                    exp.append(self.call(qs["clos2"], qs["back"], k, arg)[1])
                exp.append(str(self.cell[qs["t0"]]))
                exp.append(self.call(clos1, qs["r"], 0)[1])
            out.append(I + "var %s = [\"noise\"];" % self.name("noise"))
            self.use(qs["clos2"], r2, 1, [0, 1, 2])
            out.append(I + "R2 = %s;" % r2)
        self.use(clos1, r1, 1, [1, 0])
        out.append(I + "R1 = %s;" % r1)
        out.append(closer)
        # after P's scope has ended
        out.append("var %s = [\"noise\"];" % self.name("noise"))
        self.use(clos1, "R1", 0, [0, 1, 2])
        if symmetric:
            self.use(qs["clos2"], "R2", 0, [2, 1, 0])
        return "\n".join(out), exp, sorted(self.tags)


def crossfiber_case(rng):
    return XF(rng).program()


def ref_interpreter(srcs, tag, fuel=2000):
    """printed lines + result of the FULL reference interpreter (SpecScripts.run_case; other owners' files) per source text;
    None per source when unavailable / unparsed"""
    import binascii
    if not all(os.path.exists(os.path.join(yvlib.COQ, "theories", f)) for f in ("SpecRun.vo", "ParseRun.vo", "SpecScripts.vo")):
        return None
    terms = ['run_case %d [] "%s"' % (fuel, binascii.hexlify(s.encode()).decode()) for s in srcs]
    vals = yvlib.coq_eval(["YV:SpecScripts"], terms, shard_size=max(4, (len(terms) + 11) // 12), tag="C06ref" + tag,
                          preamble="Open Scope string_scope.\n")
    res = []
    for v in vals:
        mm = re.match(r"^out=\[([0-9a-f,]*)\];res=(ok|err|fuel)", v or "")
        if not mm:
            res.append(None)
            continue
        out = [binascii.unhexlify(x).decode("utf-8", "replace") for x in mm.group(1).split(",") if x] if mm.group(1) else []
        res.append((out, mm.group(2)))
    return res


def xf_judge(ctx, src, expect, tags, builds, stats):
    """runs one source of the family on the given builds (alone: used to confirm a deviation seen in a batch, and by --replay)"""
    for build, b in builds:
        r = run_checked(b, ["run - " + hx(src)], case_timeout_ms=20000)[0]
        got = norm_out(r.output)
        if got != expect or r.result[0] != "ok":
            ctx.violation("cross-fiber capture family (%s build): a closure made on one fiber over a variable of another fiber and a "
                          "local of its own prints something else than the reference interpreter" % build,
                          input=src, expected=expect, actual=got + ([str(r.result)] if r.result[0] != "ok" else []), xf=True, tags=tags)
            return False
    return True


def run_crossfiber(ctx, stats, n, ntrace):
    fast, binary = ctx.harness("release"), ctx.harness("debug")
    cases = [crossfiber_case(ctx.rng) for _ in range(n)]
    fam = {"programs": n, "tags": {}, "agree_with_reference_interpreter": 0, "reference_interpreter_unavailable": 0,
           "traces_replayed": 0, "trace_steps": 0, "fiber_switches_traced": 0, "captures_traced": 0}
    for _, _, t in cases:
        for x in t:
            fam["tags"][x] = fam["tags"].get(x, 0) + 1
    # the oracle: Python cells == full reference interpreter
    try:
        ref = ref_interpreter([s for s, _, _ in cases], "xf")
    except RuntimeError as e:
        ctx.notes.append("full reference interpreter did not evaluate (%s)" % str(e)[:160])
        ref = None
    if ref is None:
        ctx.notes.append("SpecRun/ParseRun/SpecScripts not built: cross-fiber family judged against the expectation tracked in Python only")
        fam["reference_interpreter_unavailable"] = n
    else:
        for (s, e, _), rv in zip(cases, ref):
            if rv is None or rv[1] == "fuel":
                fam["reference_interpreter_unavailable"] += 1
            elif rv[0] == e and rv[1] == "ok":
                fam["agree_with_reference_interpreter"] += 1
            else:
                ctx.broken.append("cross-fiber family: the expectation tracked by the generator differs from the full reference "
                                  "interpreter (oracle inconsistent): %s | generator %s | SpecRun %s" % (s[:600], e, rv))
    nviol = 0
    for build, b in (("release", fast), ("debug", binary)):
        recs = run_checked(b, ["run - " + hx(s) for s, _, _ in cases], case_timeout_ms=10000)
        for (s, e, t), r in zip(cases, recs):
            if (norm_out(r.output) != e or r.result[0] != "ok") and nviol < 3:
                # confirm alone (machine load: a time-out in a batch proves nothing)
                if not xf_judge(ctx, s, e, t, [(build, b)], stats):
                    nviol += 1
    # tie (a) on the family: trace replay through Upvalues.v, every reported list well-formed
    tcases = cases[:ntrace]
    trecs = run_checked(binary, ["utrace - 20000 " + hx(s) for s, _, _ in tcases], case_timeout_ms=20000)
    terms, keep = [], []
    for (s, e, t), r in zip(tcases, trecs):
        steps = parse_trace(r)
        if not steps:
            continue
        groups, info = trace_groups(steps, parse_functions(r))
        fam["trace_steps"] += len(steps)
        fam["fiber_switches_traced"] += info["switches"]
        fam["captures_traced"] += info["captures"]
        stats["trace_steps"] += len(steps)
        for kk in ("captures", "closes", "returns", "unwinds", "switches"):
            stats["ev_" + kk] += info[kk]
        if info["lists_bad"] and nviol < 5:
            nviol += 1
            ctx.violation("cross-fiber capture family: a reported open-upvalue list violates upvalue_list_inv (an entry of a fiber's list "
                          "does not point into that fiber's stack below the top, or the list is not strictly descending)", input=s,
                          expected="strictly descending slots of the running fiber, below the stack top", actual=str(info["lists_bad"]),
                          xf=True, tags=t)
        terms.append("up_replay %s" % groups_wire(groups))
        keep.append(s)
    vals = yvlib.coq_eval(["YV:ScopeRun"], terms, shard_size=max(4, (len(terms) + 7) // 8), tag="C06xftr")
    for s, v in zip(keep, vals):
        if v is None or not v.startswith("ok"):
            ctx.corr_broken.append("trace replay through Upvalues.v on a program of the cross-fiber family: %s | %s" % (v, s[:400]))
        else:
            fam["traces_replayed"] += 1
    fam["samples"] = [cases[0][0]] if cases else []
    stats["crossfiber_family"] = fam
    return n


def known_class_of(c, p):
    """which repair makes the model meet the Spec (ablation) - together with the syntactic class predicate"""
    if c["model"] == c["spec"] or "model_break_fixed" not in c:
        return None
    if c["model_break_fixed"] == c["spec"] and syntactic_break_with_locals(p):
        return "break_dead_pops"
    if c["model_unwind_fixed"] == c["spec"] and syntactic_throw_and_closure(p):
        return "unwind_leaves_open_upvalue"
    if c["model_both_fixed"] == c["spec"] and syntactic_break_with_locals(p) and syntactic_throw_and_closure(p):
        return "break_dead_pops+unwind_leaves_open_upvalue"
    return "?"


def evaluate(ctx, progs, tag, trace_n=0, want_code=True):
    """runs programs (ASTs) on the model (Coq) and on the implementation; fills ctx; returns per-program dicts"""
    binary = ctx.harness("debug")       # traces: debug assertions on
    fast = ctx.harness("release")       # bulk runs
    ws = [wire(p) for p in progs]
    terms = ["sl_bundle %s" % w for w in ws]
    vals = yvlib.coq_eval(["YV:ScopeRun"], terms, shard_size=max(8, (len(terms) + 15) // 16), tag="C06" + tag)
    res = []
    for i, p in enumerate(progs):
        v = vals[i]
        if v is None or v.startswith("#") or v.count("@") < 6:
            ctx.broken.append("model evaluation failed for a program (coq_eval): %s -> %s" % (ws[i][:200], v))
            res.append(None)
            continue
        src, ev, cur, nt, acc, dk, code = v.split("@", 6)
        res.append(dict(src=src, spec=ev, model=cur, nontrivial=(nt == "T"), closed_accesses=int(acc), code=code, prog=p,
                        discipline=dk[:1], cellrun_equal=dk[1:2]))
    # ablation only where the model differs from the Spec
    dev = [d for d in res if d is not None and d["model"] != d["spec"] and "#stuck" not in d["spec"]]
    if dev:
        av = yvlib.coq_eval(["YV:ScopeRun"], ["sl_ablate %s" % wire(d["prog"]) for d in dev], shard_size=8, tag="C06" + tag + "ab")
        for d, a in zip(dev, av):
            if a is not None and a.count("@") == 2:
                d["model_break_fixed"], d["model_unwind_fixed"], d["model_both_fixed"] = a.split("@")
    live = [d for d in res if d is not None]
    recs = run_checked(fast, ["run - " + hx(d["src"]) for d in live], case_timeout_ms=10000)
    crecs = run_checked(fast, ["compile " + hx(d["src"]) for d in live], case_timeout_ms=10000) if want_code else [None] * len(live)
    # the same sources on the DEBUG build, whose collector runs at every allocation: a captured variable that is no longer owned by
    # anything the collector traces (an upvalue left open into a dead stack) shows there at once, in the release build only after
    # enough allocation
    drecs = run_checked(binary, ["run - " + hx(d["src"]) for d in live], case_timeout_ms=10000)
    for d, r, c, dr in zip(live, recs, crecs, drecs):
        d["impl"] = impl_outcome(r)
        d["impl_debug"] = impl_outcome(dr)
        if d["impl_debug"] != d["impl"] and d["impl"] == d["spec"]:
            d["impl"], d["build"] = d["impl_debug"], "debug build, collector at every allocation; the release build prints the expected output"
        if c is not None:
            if c.result[0] != "ok":
                d["code_mismatch"] = "real compiler rejects the rendered source: %s %s" % (c.result, c.messages[:2])
                d["mapping"] = {}
            else:
                fs = parse_functions(c)
                d["code_mismatch"], d["mapping"] = compare_code(fs, d["code"])
    # traces
    tlive = [d for d in live if not d["spec"].endswith("stuck:fuel")][:trace_n]
    if tlive:
        trecs = run_checked(binary, ["utrace - 20000 " + hx(d["src"]) for d in tlive], case_timeout_ms=20000)
        gterms, mterms = [], []
        for d, r in zip(tlive, trecs):
            steps = parse_trace(r)
            fs = parse_functions(r)
            groups, info = trace_groups(steps, fs)
            d["trace_info"], d["trace_steps"] = info, steps
            gterms.append("up_replay %s" % groups_wire(groups))
            mterms.append("sl_trace %d %s" % (len(steps) + 5, wire(d["prog"])))
        gv = yvlib.coq_eval(["YV:ScopeRun"], gterms, shard_size=max(8, (len(gterms) + 7) // 8), tag="C06" + tag + "rp")
        mv = yvlib.coq_eval(["YV:ScopeRun"], mterms, shard_size=max(4, (len(mterms) + 15) // 16), tag="C06" + tag + "mt")
        for d, g, m in zip(tlive, gv, mv):
            d["replay"] = g
            d["mtrace_cmp"] = model_trace_cmp(d["trace_steps"], m, d.get("mapping", {})) if not d.get("code_mismatch") else "skipped"
    return res


def judge(ctx, d, stats, tags=None, variant=None):
    """one evaluated program: Spec vs impl, model vs impl, code, trace"""
    p = d["prog"]
    spec, model, impl = d["spec"], d["model"], d["impl"]
    if "#stuck" in spec:
        stats["discarded_stuck"] += 1
        return
    stats["evaluated"] += 1
    if d["nontrivial"]:
        stats["nontrivial"].add(d["src"])
    if d.get("discipline") == "T":
        stats["discipline_kept"] += 1
        if d.get("cellrun_equal") != "T":
            ctx.broken.append("run over the cell store differs from the run over Upvalues.v although the discipline was kept "
                              "(contradicts backend_swap): %s" % d["src"][:300])
    elif d.get("discipline") == "F" and not known_class_of(d, p):
        ctx.broken.append("the code of compile_scope pops / truncates a captured slot (discipline of upvalues_refine_cells "
                          "violated): %s" % d["src"][:300])
    if d.get("code_mismatch"):
        ctx.corr_broken.append("compile_scope != real compiler: %s | %s" % (d["code_mismatch"][:400], d["src"][:300]))
    if "#stuck" in model and model != impl:
        # the model left its fragment while the Spec did not: only legitimate inside a known class
        pass
    if impl != spec:
        k = known_class_of(d, p)
        if k and k != "?" and model == impl:
            stats["known"][k] = stats["known"].get(k, 0) + 1
            stats["known_witness"].setdefault(k, d["src"])
            for kk in k.split("+"):
                ctx.violation("output differs from the Spec (known class)", input=d["src"], expected=spec, actual=impl, known_class=kk,
                              prog=p)
        elif k and k != "?" and ("panic" in impl or "crash" in impl or "#err" in impl or "#timeout" in impl) and "#stuck" in model:
            # inside a known class the real VM reads reused slots: it may fail in ways the model's typed values do not follow
            stats["known"][k] = stats["known"].get(k, 0) + 1
            for kk in k.split("+"):
                ctx.violation("output differs from the Spec (known class)", input=d["src"], expected=spec, actual=impl, known_class=kk,
                              prog=p)
        else:
            ctx.violation("printed output differs from the reference evaluator (eval_cells)" + (" [variant %s]" % variant if variant else "") +
                          (" [%s]" % d["build"] if d.get("build") else ""),
                          input=d["src"], expected=spec, actual=impl, model=model, prog=p, tags=tags)
            if model != impl:
                ctx.corr_broken.append("run_m != impl on %s : model %s impl %s" % (d["src"][:300], model, impl))
    elif model != impl:
        ctx.corr_broken.append("run_m != impl (impl == Spec) on %s : model %s impl %s" % (d["src"][:300], model, impl))
    if "replay" in d:
        stats["traced"] += 1
        info = d["trace_info"]
        stats["trace_steps"] += len(d["trace_steps"])
        for kk in ("captures", "closes", "returns", "unwinds", "switches"):
            stats["ev_" + kk] += info[kk]
        stats["max_open"] = max(stats["max_open"], info["max_open"])
        if info["unwind_over_open"]:
            stats["known"]["unwind_leaves_open_upvalue(trace)"] = stats["known"].get("unwind_leaves_open_upvalue(trace)", 0) + 1
            ctx.violation("unwind_stack truncated the stack below an open upvalue (trace)", input=d["src"],
                          expected="every open upvalue below the stack top", actual=str(info["unwind_over_open"]),
                          known_class="unwind_leaves_open_upvalue", prog=p)
        elif info["lists_bad"]:
            ctx.violation("a reported open-upvalue list violates upvalue_list_inv", input=d["src"],
                          expected="strictly descending, below the stack top", actual=str(info["lists_bad"]), prog=p)
        if d["replay"] is None or not d["replay"].startswith("ok"):
            ctx.corr_broken.append("trace replay through Upvalues.v: %s | %s" % (d["replay"], d["src"][:300]))
        if d.get("mtrace_cmp") not in (None, "skipped") and not info["unwind_over_open"]:
            ctx.corr_broken.append("trace of run_m != trace of the VM: %s | %s" % (d["mtrace_cmp"], d["src"][:300]))
        elif d.get("mtrace_cmp") is None:
            stats["mtrace_equal"] += 1


def refspec_compare(ctx, ds, stats, tag):
    """the FULL reference interpreter (SpecScripts.run_case = run_program (parse_source src), other owners' files) on the
    rendered sources, against eval_cells; skipped when those files are not built"""
    import binascii
    if not all(os.path.exists(os.path.join(yvlib.COQ, "theories", f)) for f in ("SpecRun.vo", "ParseRun.vo", "SpecScripts.vo")):
        ctx.notes.append("SpecRun/ParseRun/SpecScripts not built: comparison with the full reference interpreter skipped")
        return
    terms = ['run_case 300 [] "%s"' % binascii.hexlify(d["src"].encode()).decode() for d in ds]
    vals = yvlib.coq_eval(["YV:SpecScripts"], terms, shard_size=max(4, (len(terms) + 15) // 16), tag="C06ref" + tag,
                          preamble="Open Scope string_scope.\n")
    for d, v in zip(ds, vals):
        mm = re.match(r"^out=\[([0-9a-f,]*)\];res=(ok|err|fuel)", v or "")
        if not mm:
            stats["refspec_failed"] += 1
            continue
        out = [binascii.unhexlify(x).decode("utf-8", "replace") for x in mm.group(1).split(",") if x] if mm.group(1) else []
        ref = "|".join(norm_out(out)) + "#" + mm.group(2)
        stats["refspec_compared"] += 1
        if ref != d["spec"]:
            stats["refspec_disagree"] += 1
            if d.get("impl") == ref:
                ctx.broken.append("eval_cells differs from the full reference interpreter AND from the implementation: %s | eval_cells %s | SpecRun %s"
                                  % (d["src"][:300], d["spec"], ref))
            elif len(ctx.notes) < 6:
                ctx.notes.append("SpecRun.run_program differs from eval_cells (= implementation) on: %s | eval_cells %s | SpecRun %s"
                                 % (d["src"][:300], d["spec"], ref))


def stage_membership(ctx, progs, tag):
    """how many generated programs lie inside the fragments for which compile_scope_correct is PROVED (stage 4: `stmt6 true false
    true false`; stage 5 = stage 4 + throw / try-catch: ScopeStage5.in_stage5); measured, evidence only"""
    if not all(os.path.exists(os.path.join(yvlib.COQ, "theories", f)) for f in ("ScopeStage5.v", "ScopeDefsN.v")):
        ctx.notes.append("ScopeStage5.v not present: membership in the proved fragments not counted")
        return None
    terms = ['ScopeRun.with_prog %s (fun p => String.append (if ScopeStage5.in_stage5 p then "T" else "F")%%string '
             '(if List.forallb (ScopeDefsN.stmt6 true false true false) p then "T" else "F")%%string)' % wire(p) for p in progs]
    try:
        vals = yvlib.coq_eval(["YV:ScopeRun", "YV:ScopeDefsN", "YV:ScopeStage5"], terms, shard_size=max(8, (len(terms) + 7) // 8), tag="C06" + tag)
    except RuntimeError as e:
        ctx.notes.append("membership in the proved fragments not counted: %s" % str(e)[:200])
        return None
    return {"programs": len(progs), "in_stage5_fragment": sum(1 for v in vals if v and v[:1] == "T"),
            "in_stage4_fragment": sum(1 for v in vals if v and v[1:2] == "T")}


def new_stats():
    return {"evaluated": 0, "discarded_stuck": 0, "nontrivial": set(), "known": {}, "known_witness": {}, "traced": 0,
            "trace_steps": 0, "ev_captures": 0, "ev_closes": 0, "ev_returns": 0, "ev_unwinds": 0, "ev_switches": 0,
            "max_open": 0, "mtrace_equal": 0, "discipline_kept": 0, "refspec_compared": 0, "refspec_disagree": 0, "refspec_failed": 0}


def script_traces(ctx, stats):
    """tie (a) on the repository's own scripts"""
    binary = ctx.harness("debug")
    files = []
    for d in ("closure", "for", "while"):
        dd = os.path.join(yvlib.REPO, "yarel", "tests", "scripts", d)
        if os.path.isdir(dd):
            files += [os.path.join(dd, f) for f in sorted(os.listdir(dd)) if f.endswith(".yl")]
    srcs = [open(f).read() for f in files]
    recs = run_checked(binary, ["utrace - 20000 " + hx(s) for s in srcs], case_timeout_ms=20000)
    terms, keep = [], []
    for f, r in zip(files, recs):
        steps = parse_trace(r)
        if not steps:
            continue
        groups, info = trace_groups(steps, parse_functions(r))
        terms.append("up_replay %s" % groups_wire(groups))
        keep.append((f, info, len(steps)))
    vals = yvlib.coq_eval(["YV:ScopeRun"], terms, shard_size=8, tag="C06scripts")
    n = 0
    for (f, info, ns), v in zip(keep, vals):
        n += 1
        stats["trace_steps"] += ns
        for kk in ("captures", "closes", "returns", "unwinds", "switches"):
            stats["ev_" + kk] += info[kk]
        if info["lists_bad"] and not info["unwind_over_open"]:
            ctx.violation("a reported open-upvalue list violates upvalue_list_inv", input=open(f).read(), actual=str(info["lists_bad"]),
                          expected="strictly descending, below the stack top", script=f)
        if v is None or not v.startswith("ok"):
            ctx.corr_broken.append("trace replay through Upvalues.v on %s: %s" % (os.path.relpath(f, yvlib.REPO), v))
    return n


def shrink_program(ctx, p, fails, budget=30):
    """greedy statement removal / block flattening, at most `budget` re-runs"""
    left = [budget]

    def try_(c):
        if left[0] <= 0:
            return False
        left[0] -= 1
        return fails(c)

    def variants(b):
        for i in range(len(b)):
            yield b[:i] + b[i + 1:]
            s = b[i]
            if s[0] == "block":
                yield b[:i] + s[1] + b[i + 1:]
            for j, c in enumerate(blocks_of(s)):
                for c2 in variants(c):
                    bs = blocks_of(s)
                    bs[j] = c2
                    yield b[:i] + [with_blocks(s, bs)] + b[i + 1:]
    cur = p
    progress = True
    while progress and left[0] > 0:
        progress = False
        for c in variants(cur):
            if size(c) < size(cur) and try_(c):
                cur = c
                progress = True
                break
    return cur


def run(ctx):
    quick = ctx.quick()
    rng = ctx.rng
    stats = new_stats()
    if ctx.replay_only:
        p = ctx.replay_only.get("prog")
        if p is None and (ctx.replay_only.get("scale") or ctx.replay_only.get("mf")):
            # a program of one of the round-9 families: the very source (+ module map), alone, on both builds
            if ctx.replay_only.get("scale"):
                R9.run_scale(ctx, stats, run_checked, norm_out, only_replay=ctx.replay_only)
            else:
                R9.run_modules(ctx, stats, run_checked, norm_out, 1, only_replay=ctx.replay_only)
            ctx.cov.update({"evaluations": 1, "rule": "replay of one program of the scale / module family"})
            return
        if p is None and ctx.replay_only.get("xf"):
            # a program of the cross-fiber family: the very source, alone, on both builds
            ok = xf_judge(ctx, ctx.replay_only["input"], ctx.replay_only["expected"], ctx.replay_only.get("tags"),
                          [("release", ctx.harness("release")), ("debug", ctx.harness("debug"))], stats) \
                if isinstance(ctx.replay_only.get("expected"), list) else True
            r = yvlib.run_harness(ctx.harness("debug"), ["utrace - 20000 " + hx(ctx.replay_only["input"])], case_timeout_ms=20000)[0]
            info = trace_groups(parse_trace(r), parse_functions(r))[1]
            if info["lists_bad"] and ok:
                ctx.violation("cross-fiber capture family: a reported open-upvalue list violates upvalue_list_inv",
                              input=ctx.replay_only["input"], expected="strictly descending, below the stack top",
                              actual=str(info["lists_bad"]), xf=True)
            ctx.cov.update({"evaluations": 1, "rule": "replay of one program of the cross-fiber family"})
            return
        if p is None:
            # a violation of a directed family (fixed source texts): re-run those families
            n = run_probes(ctx, stats) + run_limits(ctx, stats)
            ctx.cov.update({"evaluations": n, "rule": "replay of the directed families (probes, upvalue-limit family)",
                            "upvalue_limit_family": stats.get("limit_family", {})})
            return
        p = json.loads(json.dumps(p), object_hook=None)
        p = detuple(p)
        res = evaluate(ctx, [p], "replay", trace_n=1)
        if res[0]:
            judge(ctx, res[0], stats)
        ctx.cov.update({"evaluations": 1, "distinct_nontrivial": len(stats["nontrivial"]), "rule": "replay", "samples": [res[0]["src"] if res[0] else ""]})
        return
    scale = float(os.environ.get("C06_SCALE", "1"))      # developer knob (mutation runs); the registered check uses 1
    nprog = int((400 if quick else 3000) * scale)
    ntrace = int((140 if quick else 900) * scale)
    nmeta = int((50 if quick else 400) * scale)
    g = G(rng)
    progs, tags = [], []
    for _ in range(nprog):
        p, t = g.program()
        progs.append(p)
        tags.append(t)
    import time
    t0 = time.time()
    res = evaluate(ctx, progs, "gen", trace_n=ntrace)
    log("[C06] generated programs evaluated in %.1fs" % (time.time() - t0))
    tagcount = {}
    for d, t in zip(res, tags):
        if d is None:
            continue
        judge(ctx, d, stats, tags=t)
        if "#stuck" not in d["spec"]:
            for x in t:
                tagcount[x] = tagcount.get(x, 0) + 1
    # metamorphic triple on programs without a top-level try (a try stays at the top level: one handler at a time)
    meta_src = [(p, t) for p, t, d in zip(progs, tags, res) if d is not None and "#stuck" not in d["spec"] and not has_top_try(p)][:nmeta]
    mprogs, mkeys = [], []
    for p, t in meta_src:
        for k, q in wrap_variants(p, max_name(p) + 1).items():
            mprogs.append(q)
            mkeys.append((k, p))
    t0 = time.time()
    mres = evaluate(ctx, mprogs, "meta", trace_n=ntrace // 3)
    log("[C06] metamorphic variants evaluated in %.1fs" % (time.time() - t0))
    base_out = {id(p): d for p, d in zip(progs, res)}
    nmeta_ok = 0
    for (k, p), d in zip(mkeys, mres):
        if d is None:
            continue
        judge(ctx, d, stats, variant=k)
        b = base_out.get(id(p))
        if b is not None and b["impl"] != d["impl"] and b["impl"] == b["spec"] and d["impl"] != d["spec"] and not known_class_of(d, d["prog"]):
            pass  # already a violation through judge (impl != spec)
        if b is not None and b["spec"] != d["spec"]:
            ctx.broken.append("eval_cells is not invariant under wrapping the top level in a %s: %s" % (k, b["src"][:300]))
        else:
            nmeta_ok += 1
    refspec_compare(ctx, [d for d in res if d is not None and "#stuck" not in d["spec"]][:(60 if quick else 500)], stats, "gen")
    stages = stage_membership(ctx, [d["prog"] for d in res if d is not None and "#stuck" not in d["spec"]], "stages")
    nprobes = run_probes(ctx, stats)
    nlimits = run_limits(ctx, stats)
    t0 = time.time()
    nxf = run_crossfiber(ctx, stats, int((48 if quick else 400) * scale), int((16 if quick else 120) * scale))
    log("[C06] cross-fiber family evaluated in %.1fs" % (time.time() - t0))
    t0 = time.time()
    nr9 = run_round9(ctx, stats)
    log("[C06] scale + module families evaluated in %.1fs" % (time.time() - t0))
    t0 = time.time()
    nscripts = script_traces(ctx, stats)
    log("[C06] repository scripts traced in %.1fs" % (time.time() - t0))
    # shrink the first new violation
    fresh = [v for v in ctx.violations if not v.get("known_class") and v.get("prog")]
    if fresh:
        v = fresh[0]

        def fails(c):
            r = evaluate(ctx, [c], "shrink", trace_n=0, want_code=False)[0]
            return r is not None and "#stuck" not in r["spec"] and r["impl"] != r["spec"] and not known_class_of(r, c)
        small = shrink_program(ctx, v["prog"], fails)
        r = evaluate(ctx, [small], "shrunk", trace_n=0, want_code=False)[0]
        if r is not None and r["impl"] != r["spec"]:
            v.update(prog=small, input=r["src"], expected=r["spec"], actual=r["impl"], model=r["model"])
    known = [v for v in ctx.violations if v.get("known_class")]
    other = [v for v in ctx.violations if not v.get("known_class")]
    seen = set()
    kkeep = []
    for v in known:
        if v["known_class"] not in seen:
            seen.add(v["known_class"])
            kkeep.append(v)
    ctx.violations[:] = kkeep + other[:5]
    ctx.corr_broken[:] = ctx.corr_broken[:8]
    ctx.cov.update({
        "evaluations": stats["evaluated"] + nscripts + nprobes + nlimits + nxf + nr9,
        "scale_family": stats.get("scale_family", {}),
        "module_family": stats.get("module_family", {}),
        "deepnest_family": stats.get("deepnest_family", {}),
        "upvalue_limit_family": stats.get("limit_family", {}),
        "crossfiber_family": stats.get("crossfiber_family", {}),
        "generated_programs_inside_the_proved_fragments": stages,
        "probes_outside_the_mini_language": [n for n, _, _, _ in PROBES] + [n for n, _, _ in REPL_PROBES],
        "distinct_nontrivial": len(stats["nontrivial"]),
        "rule": "generated programs of the mini-language (templates: %s; each placed bare / in a block / in a function called once / in a loop / "
                "in a fiber, 1-3 per program) plus their metamorphic wrappings; non-trivial = during the run a captured variable whose scope has "
                "exited (closed upvalue) is WRITTEN by one function and afterwards READ by a different function (measured on the model machine "
                "run_m, whose per-instruction trace is compared with the VM's); distinct source texts counted" % ", ".join(G.TEMPLATES),
        "samples": [d["src"] for d in res if d is not None and d["nontrivial"]][:3],
        "programs_generated": len(progs), "metamorphic_variants": len(mprogs), "metamorphic_spec_invariant": nmeta_ok,
        "discarded_stuck_in_spec": stats["discarded_stuck"],
        "pattern_counts": tagcount,
        "known_class_hits": stats["known"],
        "traces_validated_against_impl": stats["traced"] + nscripts, "trace_steps": stats["trace_steps"],
        "trace_events": {k[3:]: v for k, v in stats.items() if k.startswith("ev_")}, "max_open_list_length": stats["max_open"],
        "model_machine_traces_equal": stats["mtrace_equal"],
        "discipline_kept_and_cell_store_run_equal": stats["discipline_kept"],
        "full_reference_interpreter": {"compared": stats["refspec_compared"], "disagree": stats["refspec_disagree"], "unparsed": stats["refspec_failed"]}, "repo_scripts_traced": nscripts,
        "model_config": json.load(open(os.path.join(yvlib.COQ, "gen", "manifest.json"))).get("c06", {}),
    })


def deepnest_programs(rng, quick):
    """mini-language part of the scale family (round 9): a captured block local, `pre` blocks around it, a chain of `inside` nested blocks
    after (or before) the capture in the SAME block, the closure used while the variable is live, after its block ended and after the
    slot was re-used.  Judged like every generated program: eval_cells (the cell Spec), run_m, compiler correspondence, trace equality."""
    g = G(rng)
    g.n = 500
    progs, tags = [], []
    ladder = [(1, 1), (2, 30), (1, 31), (1, 32), (3, 32), (1, 33), (2, 34), (1, 40), (31, 1), (32, 1), (33, 2), (1, 63), (1, 64), (2, 65), (33, 33)]
    if not quick:
        ladder += [(a, b) for a in (1, 2, 5) for b in range(25, 41)] + [(64, 1), (65, 2), (1, 96), (1, 129)]
    for pre, inside in ladder:
        h, x, c, w = g.fresh(), g.fresh(), g.fresh(), g.fresh()
        chain = [("decl", w, L(7))] if rng.random() < 0.6 else []
        if rng.random() < 0.3:
            chain.append(("print", CALL(h)))
        for i in range(inside):
            chain = [("block", ([("decl", g.fresh(), L(i % 10))] if rng.random() < 0.3 and i < 60 else []) + chain)]
        cap = [("decl", x, L(1))] + g.publish(h, [], g.inc_body(x, L(1)))
        inner = (chain + cap) if rng.random() < 0.25 else (cap + chain)
        inner += [("assign", x, ADD(V(x), L(5))), ("print", CALL(h))]
        for i in range(pre):
            inner = [("block", ([("decl", g.fresh(), L(i % 10))] if rng.random() < 0.3 and i < pre - 1 and i < 60 else []) + inner)]
        reuse = ("block", [("decl", c, L(100)), ("print", CALL(h)), ("print", CALL(h)), ("print", V(c))])
        progs.append([("block", [g.dummy(h)] + inner + [reuse])] if rng.random() < 0.5 else
                     [("fun", 499, [], [g.dummy(h)] + inner + [reuse]), ("expr", CALL(499))])
        tags.append(["scale:deepnest", "deepnest:pre=%d,inside=%d" % (pre, inside)])
    return progs, tags


def run_deepnest(ctx, stats):
    progs, tags = deepnest_programs(ctx.rng, ctx.quick())
    res = evaluate(ctx, progs, "deep", trace_n=len(progs) if ctx.quick() else 24)
    n = 0
    for d, t in zip(res, tags):
        if d is not None:
            judge(ctx, d, stats, tags=t)
            n += 1
    stats["deepnest_family"] = {"programs": len(progs), "evaluated": n, "ladder": [t[1] for t in tags][:40],
                                "stuck_in_spec": sum(1 for d in res if d is not None and "#stuck" in d["spec"])}
    return n


def run_round9(ctx, stats):
    """round 9: the SCALE family and the MODULE family (tools/props/C06_r9.py), outputs known by construction"""
    n = R9.run_scale(ctx, stats, run_checked, norm_out)
    run_deepnest(ctx, stats)          # counted in stats["evaluated"] by judge
    n += R9.run_modules(ctx, stats, run_checked, norm_out, 40 if ctx.quick() else 300)
    return n


def detuple(x):
    """JSON lists back to the tuple/list AST"""
    if isinstance(x, list):
        if x and isinstance(x[0], str):
            return tuple(detuple(y) for y in x)
        return [detuple(y) for y in x]
    return x


def search(ctx):
    """obligations / correspondences broken: look for a failing input with the thorough generators (Spec oracle)"""
    old = ctx.tier
    old_scale = os.environ.get("C06_SCALE")
    ctx.tier = os.environ.get("C06_SEARCH_TIER", "thorough")     # developer knob (mutation runs)
    if old_scale is None:
        os.environ["C06_SCALE"] = "0.5"      # bounds the search to about four minutes (the directed families are not scaled)
    try:
        # directed families first (seconds): a failing input from them ends the search
        before = len(ctx.violations)
        stats = new_stats()
        run_round9(ctx, stats)
        if len(ctx.violations) > before:
            ctx.cov.update({"scale_family": stats.get("scale_family", {}), "module_family": stats.get("module_family", {})})
            ctx.notes.append("search: the scale / module family produced a failing input; the random search was not run")
            return
        run(ctx)
    finally:
        ctx.tier = old
        if old_scale is None:
            os.environ.pop("C06_SCALE", None)
