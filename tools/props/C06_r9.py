"""C06, round 9: two directed families with outputs known by construction (helper module of tools/props/C06.py).

 * SCALE family (`run_scale`): ONE shape - a scope whose locals are captured by closures, closures used while the scope is live, the
   scope left by one of its exit paths, its stack slots re-used by later locals, closures used again - with every dimension the shape
   has pushed, one at a time, through a ladder of sizes (all others small and random): block nesting depth AROUND the capturing scope,
   nesting depth of blocks INSIDE it (before / between / after the captures), number of sibling blocks opened and closed inside it,
   number of plain locals, number of captured variables of the scope, number of closures, number of loop iterations that each create a
   closure over a fresh body variable, recursion depth (open upvalues spread over that many frames).  Oracle: the generator keeps every
   variable in a Python cell while it emits the text (size-independent: padding blocks / locals / siblings do not change what is
   printed; the closure results are a closed-form function of the sizes); programs that are small enough are ALSO evaluated by the
   full reference interpreter (SpecScripts.run_case) - a disagreement between the two is a broken obligation, never a violation.
 * MODULE family (`run_modules`, harness command `mods`): a global read / written and a closure created in the MAIN module (or in an
   imported one) at a point that was reached from a frame of ANOTHER module: in a catch block, in a finally block, after a fiber switch,
   after a return, in a lambda called back by the other module, in a handler entered while another handler's catch block is running.
   Every module has a global of the same NAME with a distinctive value, so the oracle is by construction (Python bookkeeping per
   module) + the full reference interpreter with the module map."""
import binascii
import os
import re

import yvlib
from yvlib import hx

SMALL = list(range(1, 41)) + [63, 64, 65]
LADDERS = {
    "pre": SMALL + [96, 129, 200],
    "inside": SMALL + [96, 129, 200],
    "sib": [1, 2, 17, 31, 32, 33, 64, 65, 129, 300, 1100, 5000],
    "npad": [1, 7, 8, 15, 16, 17, 31, 32, 33, 63, 64, 65, 127, 128, 129, 200, 230],
    "ncap": [2, 3, 8, 9, 16, 17, 31, 32, 33, 63, 64, 65, 127, 128, 129, 200, 230],
    "nclo": [2, 3, 9, 17, 33, 65, 129, 300, 1100],
    "iters": [1, 2, 17, 33, 65, 129, 300, 1100, 5000],
    "rec": [1, 2, 3, 9, 17, 31, 32, 33, 48, 58],
}
HOSTS = ("script", "fn", "fiber", "method")
EXITS = ("end", "return", "break", "continue", "throw")
INNER = ("empty", "local", "captured", "call", "capture_outer")
WHERE = ("before", "between", "after", "after", "after")


class Sim:
    """text + expected output, emitted together"""

    def __init__(self):
        self.L, self.exp, self.cells, self.clos = [], [], [], []     # cells: values; clos: list of cell-index lists (K[j])

    def var(self, v):
        self.cells.append(v)
        return len(self.cells) - 1

    def push_closure(self, names, cs):
        """K.push(|d| { each captured variable += d; return their sum; })"""
        body = " ".join("%s = %s + d;" % (n, n) for n in names)
        self.L.append("K.push(|d| { %s return %s; });" % (body, " + ".join(names)))
        self.clos.append(list(cs))
        return len(self.clos) - 1

    def call(self, j, d):
        for c in self.clos[j]:
            self.cells[c] += d
        self.L.append("print(K[%d](%d));" % (j, d))
        self.exp.append(str(sum(self.cells[c] for c in self.clos[j])))


def scale_program(rng, dim, n):
    """returns (source, expected lines, description dict)"""
    d = {"pre": rng.choice((1, 1, 2, 3)), "inside": rng.choice((0, 0, 1, 2)), "sib": rng.choice((0, 0, 1, 2)), "npad": rng.choice((0, 1, 2)),
         "ncap": rng.choice((1, 2, 3)), "nclo": rng.choice((1, 2, 3)), "iters": 0, "rec": 0}
    d[dim] = n
    d["host"] = rng.choice(HOSTS)
    # block ends matter most for the depth dimensions (CloseUpvalue / Pop per local); the paths that close MANY variables at once
    # (Return, unwinding, break / continue out of nested blocks) for the counting dimensions
    d["exit"] = rng.choice((("end", "end") if dim in ("pre", "inside", "sib") else ("return", "throw") if d["host"] != "script" else ("throw",))
                           + (EXITS if d["host"] != "script" else ("end", "break", "continue", "throw")))
    d["inner"] = rng.choice(INNER)
    d["where"] = rng.choice(WHERE)
    d["level_locals"] = rng.random() < 0.4 and d["inside"] + d["pre"] + d["npad"] + d["ncap"] < 200
    d["pre_captured"] = rng.random() < 0.4 and d["pre"] <= 70
    d["sib_captured"] = rng.random() < 0.3 and d["sib"] <= 300
    d["dim"], d["n"] = dim, n
    if dim == "ncap":
        d["nclo"] = max(d["nclo"], rng.choice((1, n)))
    s = Sim()
    L = s.L
    L.append("var K = [];")
    if d["host"] == "method":
        L.append("#[constructor(new)] class H { fn go(self) {")
    elif d["host"] == "fn":
        L.append("fn host() {")
    elif d["host"] == "fiber":
        L.append("Fiber.new(|| {")
    if d["exit"] == "throw":
        L.append("try {")
    if d["exit"] in ("break", "continue"):
        L.append("for it in 0..1 {" if rng.random() < 0.5 else "var wi = 0; while wi < 1 { wi = wi + 1;")
    # run-time history before the scope: closures over fresh loop-body variables / over locals of a recursion
    if d["iters"]:
        base = len(s.clos)
        L.append("for i in 0..%d { var v = i * 2; K.push(|d| { v = v + d; return v; }); }" % d["iters"])
        for i in range(d["iters"]):
            s.clos.append([s.var(i * 2)])
        picks = sorted(set([0, d["iters"] - 1] + [x for x in (15, 16, 31, 32, 33, 63, 64, 65, 255, 256, 257, 1023, 1024) if x < d["iters"]]))
        for i in picks:
            s.call(base + i, 1 + i % 3)
    if d["rec"]:
        base = len(s.clos)
        L.append("{ fn rec(k) { var v = k * 3; K.push(|d| { v = v + d; return v; }); if k > 0 { rec(k - 1); } v = v + 1; } rec(%d); }" % (d["rec"] - 1))
        for k in range(d["rec"] - 1, -1, -1):
            s.clos.append([s.var(k * 3 + 1)])
        for i in sorted(set([0, d["rec"] - 1, d["rec"] // 2])):
            s.call(base + i, 2)
    # the blocks AROUND the capturing scope
    for i in range(d["pre"]):
        L.append("{")
        if d["pre_captured"] and i < d["pre"] - 1:
            c = s.var(1000 + i)
            L.append("var b%d = %d;" % (i, 1000 + i))
            s.push_closure(["b%d" % i], [c])
        elif d["level_locals"] and i < d["pre"] - 1:
            L.append("var q%d = %d;" % (i, i))

    def chain():
        for i in range(d["inside"]):
            L.append("{")
            if d["level_locals"] and i < d["inside"] - 1:
                L.append("var m%d = %d;" % (i, i))
        if d["inside"]:
            k = d["inner"]
            if k == "local":
                L.append("var w = 7;")
            elif k == "captured":
                c = s.var(7)
                L.append("var w = 7;")
                s.push_closure(["w"], [c])
            elif k == "call" and s.clos:
                s.call(len(s.clos) - 1, 1)
            elif k == "capture_outer" and caps:
                s.push_closure(["a0"], [caps[0]])
        L.append("}" * d["inside"])
        for i in range(d["sib"]):
            if d["sib_captured"]:
                c = s.var(50 + i)
                L.append("{ var t = %d;" % (50 + i))
                s.push_closure(["t"], [c])
                L.append("}")
            else:
                L.append("{ var t = %d; }" % i)

    caps = []
    if d["where"] == "before":
        chain()
    for i in range(d["npad"]):
        L.append("var p%d = %d;" % (i, -i))
    for i in range(d["ncap"]):
        caps.append(s.var(10 + 3 * i))
        L.append("var a%d = %d;" % (i, 10 + 3 * i))
    first = len(s.clos)
    for j in range(d["nclo"]):
        if j == 0 and d["nclo"] in (1, d["ncap"]) and d["ncap"] > 3:
            vs = list(range(d["ncap"]))           # one closure over ALL variables of the scope
        else:
            vs = sorted(set([j % d["ncap"]] + [rng.randrange(d["ncap"]) for _ in range(rng.choice((0, 1, 2)))]))
            rng.shuffle(vs)
        s.push_closure(["a%d" % v for v in vs], [caps[v] for v in vs])
        if j == 0 and d["where"] == "between":
            chain()
    if d["where"] == "between" and d["nclo"] == 0:
        chain()
    if d["where"] == "after":
        chain()
    last = len(s.clos) - 1
    # use while the scope is live: directly and through closures
    v = rng.randrange(d["ncap"])
    s.cells[caps[v]] += 5
    L.append("a%d = a%d + 5;" % (v, v))
    s.call(first, 1)
    s.call(last, 2)
    L.append("print(a%d);" % v)
    s.exp.append(str(s.cells[caps[v]]))
    # exit path
    if d["exit"] == "return":
        L.append("return;")
    elif d["exit"] == "break":
        L.append("break;")
    elif d["exit"] == "continue":
        L.append("continue;")
    elif d["exit"] == "throw":
        L.append("throw 1;")
    L.append("}" * d["pre"])
    if d["exit"] in ("break", "continue"):
        L.append("}")
    if d["exit"] == "throw":
        L.append("} catch e { print(e); }")
        s.exp.append("1")

    def reuse():
        nre = min(240, d["npad"] + d["ncap"] + d["pre"] + 4)
        L.append("{")
        for i in range(nre):
            L.append("var c%d = %d;" % (i, 100000 + i))
        picks = sorted(set([0, first, last, len(s.clos) - 1, rng.randrange(len(s.clos)), (first + last) // 2]))
        for j in picks:
            s.call(j, 1 + j % 4)
        if nre <= 8:
            L.append("print([%s]);" % ", ".join("c%d" % i for i in range(nre)))
            s.exp.append("[%s]" % ", ".join(str(100000 + i) for i in range(nre)))
        else:
            L.append("var sum = 0;")
            for i in range(nre):
                L.append("sum = sum + c%d;" % i)
            L.append("print(sum);")
            s.exp.append(str(sum(100000 + i for i in range(nre))))
        for j in picks[:3]:
            s.call(j, 1)
        L.append("}")
    if d["exit"] != "return":
        reuse()
    if d["host"] == "method":
        L.append("} } H.new().go();")
    elif d["host"] == "fn":
        L.append("} host();")
    elif d["host"] == "fiber":
        L.append("}).call();")
    L.append("fn after() {")
    reuse()
    L.append("} after();")
    return "\n".join(L), s.exp, d


def scale_cases(rng, quick):
    cases = []
    for dim, ladder in LADDERS.items():
        for n in ladder:
            reps = 1 if (quick and dim in ("pre", "inside") and n < 28) or n > 300 else 4 if dim in ("pre", "inside") else 2
            for _ in range(reps):
                cases.append(scale_program(rng, dim, n))
    if not quick:
        for dim, ladder in LADDERS.items():
            for n in ladder:
                if n <= 300:
                    for _ in range(3):
                        cases.append(scale_program(rng, dim, n))
    return cases


def weight(d):
    return d["pre"] + d["inside"] + d["sib"] + d["npad"] + d["ncap"] + d["nclo"] + d["iters"] + d["rec"]


def ref_interpreter(cases, tag, fuel=3000):
    """printed lines + result of the FULL reference interpreter (SpecScripts.run_case; other owners' files) per (main, module map);
    None when unavailable, None per case when unparsed"""
    if not all(os.path.exists(os.path.join(yvlib.COQ, "theories", f)) for f in ("SpecRun.vo", "ParseRun.vo", "SpecScripts.vo")):
        return None
    hexs = lambda s: binascii.hexlify(s.encode()).decode()
    terms = []
    for main, mods in cases:
        ms = "; ".join('("%s", "%s")' % (k, hexs(v)) for k, v in sorted(mods.items()))
        terms.append('run_case %d [%s] "%s"' % (fuel, ms, hexs(main)))
    if not terms:
        return []
    vals = yvlib.coq_eval(["YV:SpecScripts"], terms, shard_size=max(4, (len(terms) + 11) // 12), tag="C06ref" + tag,
                          preamble="Open Scope string_scope.\n")
    res = []
    for v in vals:
        mm = re.match(r"^out=\[([0-9a-f,]*)\];res=(ok|err|fuel)", v or "")
        if not mm:
            res.append(None)
            continue
        out = [binascii.unhexlify(x).decode("utf-8", "replace") for x in mm.group(1).split(",") if x] if mm.group(1) else []
        res.append((out, mm.group(2)))
    return res


def clip(src):
    return src if len(src) < 6000 else src[:2500] + "\n ... \n" + src[-2500:]


def check_oracle(ctx, fam, what, cases, ref):
    """cases: list of (text for the message, expected lines); ref: list of (out, res) | None"""
    for (txt, e), rv in zip(cases, ref):
        if rv is None or rv[1] == "fuel":
            fam["reference_interpreter_unavailable"] += 1
        elif rv[0] == e and rv[1] == "ok":
            fam["agree_with_reference_interpreter"] += 1
        else:
            ctx.broken.append("%s: the expectation tracked by the generator differs from the full reference interpreter (oracle "
                              "inconsistent): %s | generator %s | SpecRun %s" % (what, txt[:700], e, rv))


def judge_one(ctx, run_checked, norm_out, builds, line, expect):
    """re-runs ONE case alone; returns (build, got) of the first build that deviates, or None"""
    for build, b in builds:
        r = run_checked(b, [line], case_timeout_ms=60000)[0]
        got = norm_out(r.output) + ([str(r.result)] if r.result[0] != "ok" else [])
        if got != expect:
            return build, got
    return None


def run_scale(ctx, stats, run_checked, norm_out, only_replay=None):
    fast, binary = ctx.harness("release"), ctx.harness("debug")
    quick = ctx.quick()
    if only_replay is not None:
        bad = judge_one(ctx, run_checked, norm_out, [("release", fast), ("debug", binary)], "run - " + hx(only_replay["full_input"]),
                        only_replay["expected"])
        if bad:
            ctx.violation("scale family (%s build): replayed program prints something else than expected" % bad[0],
                          input=clip(only_replay["full_input"]), full_input=only_replay["full_input"], expected=only_replay["expected"],
                          actual=bad[1], scale=True, shape=only_replay.get("shape"))
        return 1
    cases = scale_cases(ctx.rng, quick)
    fam = {"programs": len(cases), "ladders": LADDERS, "agree_with_reference_interpreter": 0, "reference_interpreter_unavailable": 0,
           "sent_to_reference_interpreter": 0, "run_on_debug_build_too": 0, "rejected_at_compile_time": {}, "by_dimension": {},
           "hosts": {}, "exits": {}}
    for _, _, d in cases:
        fam["by_dimension"][d["dim"]] = fam["by_dimension"].get(d["dim"], 0) + 1
        fam["hosts"][d["host"]] = fam["hosts"].get(d["host"], 0) + 1
        fam["exits"][d["exit"]] = fam["exits"].get(d["exit"], 0) + 1
    # oracle cross-check on the small programs
    small = [(s, e) for s, e, d in cases if weight(d) <= 14][:(24 if quick else 120)]
    fam["sent_to_reference_interpreter"] = len(small)
    try:
        ref = ref_interpreter([(s, {}) for s, _ in small], "scale")
    except RuntimeError as ex:
        ctx.notes.append("full reference interpreter did not evaluate the small programs of the scale family (%s)" % str(ex)[:160])
        ref = None
    if ref is None:
        fam["reference_interpreter_unavailable"] = len(small)
    else:
        check_oracle(ctx, fam, "scale family", small, ref)
    nviol = 0
    for build, b in (("release", fast), ("debug", binary)):
        sel = [c for i, c in enumerate(cases) if build == "release" or (weight(c[2]) <= 340 and (i % 3 == 0 or not quick))]
        if build == "debug":
            fam["run_on_debug_build_too"] = len(sel)
        recs = run_checked(b, ["run - " + hx(s) for s, _, _ in sel], case_timeout_ms=30000)
        for (s, e, d), r in zip(sel, recs):
            got = norm_out(r.output) + ([str(r.result)] if r.result[0] != "ok" else [])
            if got == e:
                continue
            if r.result[0] == "err" and "Compile" in str(r.result[1]) and not r.output:
                # a documented limit (LOCALS_MAX, nesting the parser refuses, ...): rejected, nothing ran
                key = "%s=%d" % (d["dim"], d["n"])
                fam["rejected_at_compile_time"][key] = fam["rejected_at_compile_time"].get(key, 0) + 1
                continue
            if nviol >= 4:
                continue
            bad = judge_one(ctx, run_checked, norm_out, [(build, b)], "run - " + hx(s), e)      # alone (machine load)
            if bad:
                nviol += 1
                shape = {k: d[k] for k in sorted(d)}
                ctx.violation("scale family (%s build, dimension %s = %d): closures over the locals of a scope - used while the scope is live, "
                              "after it was left by `%s` and after its stack slots were re-used - print something else than the variables' "
                              "values tracked by construction" % (build, d["dim"], d["n"], d["exit"]),
                              input=clip(s), full_input=s, expected=e, actual=bad[1], scale=True, shape=shape)
    nrej = sum(fam["rejected_at_compile_time"].values())
    if nrej > len(cases) // 4:
        ctx.broken.append("scale family: %d of %d programs were rejected at compile time (the family no longer runs)" % (nrej, len(cases)))
    fam["samples"] = [s for s, _, d in cases if weight(d) <= 10][:1]
    stats["scale_family"] = fam
    return len(cases)


# ---------------------------------------------------------------------------------------------------------
# MODULE family

class MF:
    """main module + imported modules ma, mb (mb imported by ma as well).  Every module declares `var g` (distinctive value) and `var K = []`
    and the same helper functions; `situations` are emitted into the main module (or into ma, driven from main)."""
    HELPERS = (
        "fn fail(x) { var loc = [x]; throw loc; }\n"
        "fn ret(x) { return x + g; }\n"
        "fn callme(f) { var r = f(); return [r, g]; }\n"
        "fn yielder(x) { var y = Fiber.yield(x + g); return y + g; }\n"
        "fn catcher(f) { try { f(); } catch e { g = g + 1; K.push(|| { g = g + 1; return g; }); return g; } return -1; }\n"
        "fn finaliser(f) { try { f(); } finally { g = g + 1; K.push(|| { g = g + 1; return g; }); } return -1; }\n"
        "fn bump() { g = g + 1; return g; }\n")

    def __init__(self, rng):
        self.rng = rng
        self.g = {"main": 1, "ma": 1000, "mb": 1000000}
        self.K = {"main": [], "ma": [], "mb": []}     # closures: which module's g they bump
        self.L, self.exp = [], []

    def other(self):
        return self.rng.choice(("ma", "mb"))

    def plan(self):
        r = self.rng
        return r.sample(("read", "write", "closure", "fncall", "closure_now"), r.choice((2, 3, 4)))

    def emit(self, kinds):
        text = {"read": "print(g);", "write": "g = g + 1; print(g);", "closure": "K.push(|| { g = g + 1; return g; });",
                "closure_now": "print((|| { g = g + 1; return g; })());", "fncall": "print(bump());"}
        for k in kinds:
            self.L.append(text[k])

    def sim(self, kinds, here="main"):
        for k in kinds:
            if k == "read":
                self.exp.append(str(self.g[here]))
            elif k == "closure":
                self.K[here].append(here)
            else:
                self.g[here] += 1
                self.exp.append(str(self.g[here]))

    def probe(self, here="main"):
        """statements at the current point of module `here` that read / write the global and create closures bound to `here`"""
        kinds = self.plan()
        self.emit(kinds)
        self.sim(kinds, here)

    def thrower(self, m):
        """an expression statement whose evaluation throws from a frame of module m (directly, through the other module, or through
        a main-module lambda called back by m)"""
        k = self.rng.choice(("direct", "direct", "through", "callback"))
        if k == "direct":
            return "%s.fail(1);" % m
        if k == "through":
            o = "mb" if m == "ma" else "ma"
            return "%s.callme(|| %s.fail(2));" % (o, m)
        return "%s.callme(|| { throw [3]; });" % m

    def situation(self):
        r, L = self.rng, self.L
        m = self.other()
        k = r.choice(("catch", "catch", "finally_throw", "finally_ret", "fiber", "fiber_direct", "return", "callback", "nested_catch",
                      "their_catch", "their_finally"))
        self.kinds.append(k)
        if k == "catch":
            L.append("try { %s } catch e {" % self.thrower(m))
            self.probe()
            L.append("}")
            self.probe()
        elif k == "finally_throw":
            L.append("try { try { %s } finally {" % self.thrower(m))
            self.probe()
            L.append("} } catch e2 {")
            self.probe()
            L.append("}")
        elif k == "finally_ret":
            L.append("try { print(%s.ret(5)); } finally {" % m)
            self.exp.append(str(5 + self.g[m]))
            self.probe()
            L.append("}")
        elif k == "fiber":
            # the fiber runs a main-module lambda that calls into m, which yields: main continues after the switch with m's frame suspended
            later = self.plan()
            L.append("{ var f = Fiber.new(|| { var z = %s.yielder(7); print(z);" % m)
            self.emit(later)
            L.append("});")
            L.append("print(f.call());")
            self.exp.append(str(7 + self.g[m]))
            self.probe()
            L.append("f.call(9);")
            self.exp.append(str(9 + self.g[m]))
            self.sim(later)                 # the body after the yield runs only now
            self.probe()
            L.append("}")
        elif k == "fiber_direct":
            L.append("{ var f = Fiber.new(%s.yielder);" % m)
            L.append("print(f.call(7));")
            self.exp.append(str(7 + self.g[m]))
            self.probe()
            L.append("print(f.call(9));")
            self.exp.append(str(9 + self.g[m]))
            self.probe()
            L.append("}")
        elif k == "return":
            L.append("print(%s.ret(5));" % m)
            self.exp.append(str(5 + self.g[m]))
            self.probe()
        elif k == "callback":
            L.append("print(%s.callme(|| {" % m)
            self.probe()
            L.append("return g; }));")
            self.exp.append("[%d, %d]" % (self.g["main"], self.g[m]))
            self.probe()
        elif k == "nested_catch":
            o = "mb" if m == "ma" else "ma"
            L.append("try { %s } catch e {" % self.thrower(m))
            L.append("try { %s } catch e3 {" % self.thrower(o))
            self.probe()
            L.append("}")
            self.probe()
            L.append("}")
        elif k == "their_catch":
            # m's own handler catches what a MAIN lambda (or the other module) threw: m's catch block must see m's global
            o = "mb" if m == "ma" else "ma"
            th = r.choice(("throw [4];", "%s.fail(4);" % o))
            self.g[m] += 1
            self.K[m].append(m)
            L.append("print(%s.catcher(|| { %s }));" % (m, th))
            self.exp.append(str(self.g[m]))
            self.probe()
        else:
            o = "mb" if m == "ma" else "ma"
            th = r.choice(("throw [4];", "%s.fail(4);" % o))
            self.g[m] += 1
            self.K[m].append(m)
            L.append("try { %s.finaliser(|| { %s }); } catch e4 {" % (m, th))
            self.probe()
            L.append("}")

    def program(self):
        r = self.rng
        self.kinds = []
        self.L.append('import "ma"; import "mb";')
        self.L.append("var g = 1; var K = [];")
        self.L.append(self.HELPERS)
        host = r.choice(("script", "fn", "block"))
        self.L.append({"script": "", "fn": "fn host() {", "block": "{"}[host])
        for _ in range(r.choice((1, 2, 3))):
            self.situation()
        self.L.append({"script": "", "fn": "} host();", "block": "}"}[host])
        # use every closure made on the way (main's and the modules')
        for mod in ("main", "ma", "mb"):
            pre = "" if mod == "main" else mod + "."
            for j, owner in enumerate(self.K[mod]):
                self.g[owner] += 1
                self.L.append("print(%sK[%d]());" % (pre, j))
                self.exp.append(str(self.g[owner]))
        self.L.append("print([g, ma.g, mb.g]);")
        self.exp.append("[%d, %d, %d]" % (self.g["main"], self.g["ma"], self.g["mb"]))
        mods = {"ma": 'import "mb";\nvar g = 1000; var K = [];\n' + self.HELPERS,
                "mb": "var g = 1000000; var K = [];\n" + self.HELPERS}
        return "\n".join(x for x in self.L if x), mods, self.exp, self.kinds


def mods_line(main, mods, opts="-"):
    return "mods %s %s %s" % (opts, hx(main), " ".join("%s=%s" % (hx(k), hx(v)) for k, v in sorted(mods.items())))


def run_modules(ctx, stats, run_checked, norm_out, n, only_replay=None):
    fast, binary = ctx.harness("release"), ctx.harness("debug")
    if only_replay is not None:
        bad = judge_one(ctx, run_checked, norm_out, [("release", fast), ("debug", binary)],
                        mods_line(only_replay["input"], only_replay["modules"]), only_replay["expected"])
        if bad:
            ctx.violation("module family (%s build): replayed program prints something else than expected" % bad[0],
                          input=only_replay["input"], modules=only_replay["modules"], expected=only_replay["expected"], actual=bad[1],
                          mf=True)
        return 1
    cases = [MF(ctx.rng).program() for _ in range(n)]
    fam = {"programs": n, "situations": {}, "agree_with_reference_interpreter": 0, "reference_interpreter_unavailable": 0}
    for _, _, _, ks in cases:
        for k in ks:
            fam["situations"][k] = fam["situations"].get(k, 0) + 1
    try:
        ref = ref_interpreter([(s, m) for s, m, _, _ in cases], "mods")
    except RuntimeError as ex:
        ctx.notes.append("full reference interpreter did not evaluate the module family (%s)" % str(ex)[:160])
        ref = None
    if ref is None:
        fam["reference_interpreter_unavailable"] = n
    else:
        check_oracle(ctx, fam, "module family", [(s, e) for s, _, e, _ in cases], ref)
    nviol = 0
    for build, b in (("release", fast), ("debug", binary)):
        recs = run_checked(b, [mods_line(s, m) for s, m, _, _ in cases], case_timeout_ms=20000)
        for (s, m, e, ks), r in zip(cases, recs):
            got = norm_out(r.output) + ([str(r.result)] if r.result[0] != "ok" else [])
            if got == e or nviol >= 3:
                continue
            bad = judge_one(ctx, run_checked, norm_out, [(build, b)], mods_line(s, m), e)
            if bad:
                nviol += 1
                ctx.violation("module family (%s build): a global read / written or a closure created at a point reached from a frame of "
                              "ANOTHER module (situations: %s) does not use the globals of the module the code is written in"
                              % (build, ", ".join(ks)), input=s, modules=m, expected=e, actual=bad[1], mf=True)
    fam["samples"] = [{"main": cases[0][0], "expected": cases[0][2]}] if cases else []
    stats["module_family"] = fam
    return n
