"""C07 - Classes: construction, fields, dispatch, inheritance, super, static.

Theorems (coq/props/C07.v over Classes.v / ClassSpec.v / ClassLang.v / ClassesProofs.v): copy-down tables = nearest
definition in the declared ancestry; invoke = get-then-call; bound methods keep their receiver; `super` is the declared
superclass; `Self` is the invoking class; derives = declared ancestor; constructors return the instance; no implicit
super initialisation; the error table; eval_mech = eval_spec for EVERY program (and a refutation for the model
variant of the compiler before commit 0fbde2d, whose `super` inside a nested function used the wrong receiver).

Tie, per generated program of the mini-language (ClassLang.v):
 (a) impl == M: printed lines and error outcome of the rendered program, and the harness dump (`classes`, ext_c07.rs)
     of every class object reachable from the globals (name, superclass, metaclass, method tables with the identity of
     each method value = function name / arity / defining line) against M's copy-down tables;
 (b) impl == S: printed lines and error outcome against eval_spec;
 (c) metamorphic: the program with every statement-level `x.m(a)` rewritten to `var t = x.m; t(a)` prints the same.
Round 8 (props/C07_limits.v over ClassLimits.v / ClassLimitsProofs.v): the errors of the property at the limits of the machine -
call_closure tests the arity before the frame limit (side condition on the current source), an error found while the callee is
determined wins at every depth, the frame limit is reported exactly at frames_max frames, natives are exempt; generator family
Gen.limit_scenario (a self-limiting descent to exactly FRAMES_MAX frames through every call path, then every error through
every call path there and one frame higher).
Round 9 (props/C07_members.v over ClassMembers.v / ClassMembersProofs.v): member lookup has no memory and `super.n` never
consults the heap (fields, dynamic class); regenerated tables of the Vm's state fields and of the lookup functions' shapes;
Gen.member_matrix (every access form x every place of the name x every kind of shadowing field on the receiver) and the SCALE
family of tools/props/C07_scale.py (every dimension through 17..300, result known by construction)."""
import os
import re

import yvlib
from yvlib import hx, log

LEVEL = "proof"
TRUSTED = [
    "Coq 8.16.1 kernel (coqc), vm_compute; no native_compute, no extraction",
    "harness `yv` command `classes` (harness/src/ext_c07.rs): reads ObjClass.{name,superclass,metaclass,methods}, "
    "ObjInstance.{class,fields}, ObjBoundMethod.receiver, ObjFunction.{name,arity,chunk.lines}",
    "ClassLang.render (Gallina) as the concrete syntax of the mini-language; tools/props/C07.py generator",
    "modelled, not verified: HashMap as association list, Gc pointers as indices, the value stack as `slot 0`",
]
ASSUMPTIONS = [
    "the identity of a method value is (function name, arity, line of its first instruction); render puts every method on its own line",
    "the mini-language's evaluator is shared between S and M except for member lookup, invoke, super access, derives",
    "module receivers of get/set/invoke are outside the model; the 64-frame limit is modelled (ClassLang.frames_max) and "
    "reached by generated programs (self-limiting descents, Gen.limit_scenario); fibers, user-written catch/finally bodies and "
    "the value-stack limit are not modelled",
]

FIXED_SUPER_NESTED = "super-receiver-in-nested-function"   # fixed in /repo by commit 0fbde2d
NAMES = "ABCDEFGH"


# ------------------------------------------------------------------------------------------
# AST -> Gallina text


def qs(s):
    return '"%s"' % s


def clist(items):
    return "[" + ";".join(items) + "]"


def E_str(s):
    return "(EStr %s)" % qs(s)


def E_num(n):
    return "(ENum %d)" % n


def E_var(x):
    return "(EVar %s)" % qs(x)


def E_get(e, n):
    return "(EGet %s %s)" % (e, qs(n))


def E_inv(e, n, args):
    return "(EInvoke %s %s %s)" % (e, qs(n), clist(args))


def E_call(e, args):
    return "(ECall %s %s)" % (e, clist(args))


def E_sinv(n, args):
    return "(ESuperInvoke %s %s)" % (qs(n), clist(args))


def E_sget(n):
    return "(ESuperGet %s)" % qs(n)


def E_eq(a, b):
    return "(EEq %s %s)" % (a, b)


def S_print(e):
    return "(SPrint %s)" % e


def S_ptype(e):
    return "(SPrintType %s)" % e


def S_expr(e):
    return "(SExpr %s)" % e


def S_var(x, e):
    return "(SVar %s %s)" % (qs(x), e)


def S_assign(x, e):
    return "(SAssign %s %s)" % (qs(x), e)


def S_setf(o, n, v):
    return "(SSetField %s %s %s)" % (o, qs(n), v)


def S_ret(e=None):
    return "(SReturn None)" if e is None else "(SReturn (Some %s))" % e


def S_try(body):
    return "(STry %s)" % clist(body)


def S_if(cond, th, el=()):
    return "(SIf %s %s %s)" % (cond, clist(th), clist(el))


def S_for(x, e, body):
    return "(SFor %s %s %s)" % (qs(x), e, clist(body))


def S_block(body):
    return "(SBlock %s)" % clist(body)


def S_fun(name, params, body, label=0):
    return "(SFun %s %s %s %d)" % (qs(name), clist(qs(p) for p in params), clist(body), label)


def M_decl(kind, name, params, body, label):
    return "(MDecl %s %s %s %s %d)" % (kind, qs(name), clist(qs(p) for p in params), clist(body), label)


def S_class(name, sup, defctor, ms, label):
    return "(SClass (CDecl %s %s %s %s %d))" % (
        qs(name), "(Some %s)" % qs(sup) if sup else "None", "(Some %s)" % qs(defctor) if defctor else "None",
        clist(ms), label)


# ------------------------------------------------------------------------------------------
# generator


class Gen:
    """One random program.  Keeps a rough static picture (which global names denote classes, their constructor
    arity, which methods an instance variable probably has) only to make most statements succeed; the oracle is
    the Coq model, not this picture."""

    def __init__(self, rng, big=False, force_limit=None, force_matrix=False):
        self.force_matrix = force_matrix
        self.r = rng
        self.big = big
        self.force_limit = force_limit   # a kind of LIMIT_KINDS: the program contains that descent to the frame limit
        self.label = 0
        self.stmts = []
        self.globals = []        # every global name, for the harness dump
        self.classes = {}        # name -> info dict
        self.order = []          # class names in definition order
        self.insts = []          # (var, class name)
        self.features = set()
        self.nvar = 0
        self.nfun = 0
        self.nested_super = rng.random() < 0.3    # programs with `super` inside functions nested in methods
        self.object_names = rng.random() < 0.45   # programs whose classes override Object's own method names

    def lab(self):
        self.label += 1
        return self.label

    def arg(self):
        r = self.r.random()
        if r < 0.5:
            return E_num(self.r.randint(0, 9))
        if r < 0.8:
            return E_str("s%d" % self.r.randint(0, 9))
        if r < 0.9:
            return "ENil"
        return "(EBool true)"

    def args(self, n):
        return [self.arg() for _ in range(n)]

    # ----- class bodies
    def ancestors(self, name):
        res = []
        cur = self.classes[name]["parent"]
        while cur and cur in self.classes and cur not in res:
            res.append(cur)
            cur = self.classes[cur]["parent"]
        return res

    def visible(self, name):
        """name -> (arity, kind) of the members an instance of `name` probably has (nearest definition)"""
        vis = {}
        for c in reversed([name] + self.ancestors(name)):
            vis.update(self.classes[c]["methods"])
        return vis

    def derives_body(self, cname, parent, kind):
        """a member named like Object's native method `derives` (core.rs bind_object_class; `Type` copies it):
        the user definition must win for the class and all its descendants"""
        r = self.r
        body = [S_print(E_str("%s.derives" % cname))]
        if kind != "KStatic" and r.random() < 0.6:
            # what the next definition up the declared ancestry (a user override, or Object's native) answers
            body.append(S_print(E_sinv("derives", [E_var("c")])) if parent else S_print(E_var("c")))
            if parent:
                self.features.add("super_object_method")
        body.append(S_ret(E_str("%s.derives!" % cname)))
        return body

    def method_body(self, cname, mname, idx, params, kind, parent, own_names):
        r = self.r
        if mname == "derives":
            return self.derives_body(cname, parent, kind)
        body = [S_print(E_str("%s.%s" % (cname, mname)))]
        recv = "ECapSelf" if kind == "KStatic" else "ESelf"
        for p in params:
            if r.random() < 0.6:
                body.append(S_print(E_var(p)))
        if kind == "KStatic":
            if r.random() < 0.6:
                body.append(S_print("ECapSelf"))
                self.features.add("Self")
            if mname[0] == "s" and r.random() < 0.35:
                # (only s0/s1: a static method that shadows an instance method name never constructs, so that
                # initialiser -> self.m -> super.m -> Self.new cannot loop)
                # construct through Self: the class the static method was invoked through
                k = r.choice([0, 0, 1])
                body.append(S_ret(E_inv("ECapSelf", "new", self.args(k))))
                self.features.add("Self.new")
                return body
            if mname == "s0" and r.random() < 0.3:
                body.append(S_expr(E_inv("ECapSelf", "s1", [])))       # s1 never calls back: calls terminate
        else:
            if r.random() < 0.4:
                f = "f%d" % r.randint(0, 2)
                body.append(S_setf("ESelf", f, E_var(params[0]) if params and r.random() < 0.6 else self.arg()))
                self.features.add("field_write")
            if r.random() < 0.12:
                body.append(S_print(E_get("ESelf", "f%d" % r.randint(0, 2))))
                self.features.add("field_read")
        if parent:
            vis = self.visible(parent) if parent in self.classes else {}
            if r.random() < (0.7 if mname in vis else 0.25):
                # super.m with a name of the same or a higher index, so that calls terminate
                cands = [n for n in vis if n[0] == "m" and n[1:].isdigit() and int(n[1:]) >= idx] if mname[0] == "m" else [mname]
                target = mname if (mname in vis or not cands or r.random() < 0.5) else r.choice(cands)
                ar = vis.get(target, (len(params), None))[0]
                if r.random() < 0.1:
                    ar = r.randint(0, 3)
                if r.random() < 0.15:
                    body.append(S_var("sf", E_sget(target)))
                    body.append(S_expr(E_call(E_var("sf"), self.args(ar))))
                    self.features.add("super_get")
                else:
                    body.append(S_expr(E_sinv(target, self.args(ar))))
                self.features.add("super")
        if kind != "KStatic" and self.object_names and r.random() < 0.3:
            q = E_var(r.choice(["Object", cname]))
            body.append(S_print(E_inv("ESelf", "derives", [q])))
            self.features.add("object_method_via_self")
            if parent and r.random() < 0.6:
                body.append(S_print(E_sinv("derives", [q])))
                self.features.add("object_method_via_super")
        if kind != "KStatic" and mname[0] == "m" and r.random() < 0.45:
            vis = self.visible(cname)
            later = sorted(n for n in vis if n[0] == "m" and n[1:].isdigit() and int(n[1:]) > idx)
            if later:
                n = r.choice(later)
                ar = vis[n][0] if r.random() < 0.92 else r.randint(0, 2)
                body.append(S_expr(E_inv("ESelf", n, self.args(ar))))
                self.features.add("self_call")
        if self.nested_super and parent and r.random() < 0.3:
            # `super` inside a function nested in the method: the receiver is the METHOD's self/Self (an upvalue)
            ar = len(params)
            style = r.random()
            if style < 0.45:
                body.append(S_fun("inner", [], [S_ret(E_sinv(mname, self.args(ar)))]))
                call = E_call(E_var("inner"), [])
            elif style < 0.7:
                # a bound `super.m` taken inside the nested function, called outside it
                body.append(S_fun("inner", [], [S_ret(E_sget(mname))]))
                body.append(S_var("sg", E_call(E_var("inner"), [])))
                call = E_call(E_var("sg"), self.args(ar))
                self.features.add("super_get_in_nested_fn")
            else:
                # two levels of nesting, with a parameter of the inner function as argument
                body.append(S_fun("outer", ["u"], [S_fun("inner2", [], [S_ret(E_sinv(mname, [E_var("u")] * ar))]),
                                                  S_ret(E_call(E_var("inner2"), []))]))
                call = E_call(E_var("outer"), [self.arg()])
                self.features.add("super_in_doubly_nested_fn")
            if kind != "KStatic" and r.random() < 0.5:
                body.append(S_print(E_eq(call, "ESelf")))
            else:
                body.append(S_expr(call))
            self.features.add("super_in_nested_fn")
        rr = r.random()
        if kind == "KStatic":
            if rr < 0.3:
                body.append(S_ret("ECapSelf"))
        elif rr < 0.35:
            body.append(S_ret("ESelf"))
            self.features.add("return_self")
        elif rr < 0.5:
            body.append(S_ret(self.arg()))
        return body

    def ctor_body(self, cname, params, parent):
        r = self.r
        body = [S_print(E_str("%s.new" % cname))]
        for i, p in enumerate(params):
            if r.random() < 0.7:
                body.append(S_setf("ESelf", "f%d" % i, E_var(p)))
        if r.random() < 0.3:
            body.append(S_setf("ESelf", "f2", E_str("init" + cname)))
        if parent and parent in self.classes:
            ct = self.classes[parent]["ctor_visible"]
            if r.random() < (0.6 if ct is not None else 0.1):
                ar = ct if ct is not None and r.random() < 0.9 else r.randint(0, 2)
                body.append(S_expr(E_sinv("new", self.args(ar))))
                self.features.add("super_new")
            else:
                self.features.add("explicit_ctor_without_super")
        if r.random() < 0.15:
            body.append(S_ret())
            body.append(S_print(E_str("unreachable")))
            self.features.add("ctor_early_return")
        if r.random() < 0.2:
            vis = self.visible(cname)
            ms = sorted(n for n in vis if n[0] == "m" and vis[n][1] == "KMethod")
            if ms:
                n = r.choice(ms)
                body.append(S_expr(E_inv("ESelf", n, self.args(vis[n][0]))))
                self.features.add("ctor_calls_method")
        return body

    def gen_class(self, name, parent, local=False):
        r = self.r
        info = {"parent": parent, "methods": {}, "ctor": None, "ctor_visible": None}
        self.classes[name] = info
        ms = []
        defctor = None
        style = r.random()
        pinfo = self.classes.get(parent) if parent else None
        if style < 0.45:
            defctor = "new"
            info["ctor"] = 0
            self.features.add("default_ctor")
        elif style < 0.8:
            ps = ["a", "b"][: r.choice([0, 1, 1, 2])]
            info["ctor"] = len(ps)
            ms.append(("KInit", "new", ps, None))
            self.features.add("explicit_ctor")
        else:
            self.features.add("no_own_ctor")
        # what an INSTANCE sees as `new` (copy-down); the class value itself only has its own statics
        info["ctor_visible"] = info["ctor"] if info["ctor"] is not None else (pinfo["ctor_visible"] if pinfo else None)
        inherited = self.visible(parent) if pinfo else {}
        if pinfo:
            # middle classes override what they inherit, leaves stay sparse: instances of a leaf then dispatch to
            # a definition in the middle of the chain that itself overrides an ancestor's
            names = [n for n in ["m0", "m1", "m2", "m3"] if (n in inherited and r.random() < 0.5) or r.random() < 0.2]
        else:
            names = r.sample(["m0", "m1", "m2", "m3"], r.randint(2, 4))
        for n in sorted(names):
            if n in inherited and r.random() < 0.8:
                ar = inherited[n][0]
                self.features.add("override")
            else:
                ar = r.choice([0, 0, 1, 1, 2])
            kind = "KMethod"
            if r.random() < 0.06:
                kind = "KStatic"
                self.features.add("static_instance_name_clash")
            ms.append((kind, n, ["a", "b"][:ar], None))
        if self.object_names and r.random() < (0.45 if pinfo else 0.15):
            ms.append((r.choice(["KMethod"] * 5 + ["KStatic"]), "derives", ["c"], None))
            self.features.add("object_method_overridden" + ("_below_root" if pinfo else "_at_root"))
        for n in ["s0", "s1"]:
            if r.random() < 0.4:
                ms.append(("KStatic", n, ["a"][: r.choice([0, 0, 1])], None))
                self.features.add("static")
        if defctor and r.random() < 0.05:
            # default constructor shadowed by a later definition of the same name
            ms.append((r.choice(["KMethod", "KStatic"]), "new", [], None))
            info["ctor"] = None
            self.features.add("default_ctor_shadowed")
        if r.random() < 0.05 and ms:
            k, n, ps, _ = r.choice(ms)
            if n != "new":
                ms.append((k, n, ps, "dup"))
                self.features.add("duplicate_definition")
        r.shuffle(ms)
        for k, n, ps, _ in ms:
            if n != "new":
                info["methods"][n] = (len(ps), k)
        decls = []
        own_names = [m[1] for m in ms]
        for k, n, ps, tag in ms:
            if k == "KInit":
                body = self.ctor_body(name, ps, parent)
            else:
                idx = int(n[1:]) if n[0] in "ms" and n[1:].isdigit() else 0
                body = self.method_body(name, n, idx, ps, k, parent, own_names)
                if tag:
                    body[0] = S_print(E_str("%s.%s#2" % (name, n)))
            decls.append(M_decl(k, n, ps, body, self.lab()))
        lab = self.lab()
        if not local:
            self.order.append(name)
            self.globals.append(name)
        return S_class(name, parent, defctor, decls, lab)

    # ----- top level
    def new_var(self, prefix="x"):
        self.nvar += 1
        v = "%s%d" % (prefix, self.nvar)
        self.globals.append(v)
        return v

    def maybe_try(self, s, p=0.93):
        return S_try([s]) if self.r.random() < p else s

    def construct(self, cname, into=None):
        info = self.classes.get(cname, {"ctor": None})
        ar = info["ctor"] if info["ctor"] is not None else 0
        if self.r.random() < 0.06:
            ar = self.r.randint(0, 3)
        e = E_inv(E_var(cname), "new", self.args(ar))
        if info["ctor"] is None or ar != info["ctor"] or not info.get("bound_ok", True):
            self.stmts.append(S_try([S_expr(e)]))
            self.features.add("failing_construction")
            return None
        v = into or self.new_var()
        self.stmts.append(S_var(v, e))
        self.insts.append((v, cname))
        return v

    def use_instance(self):
        r = self.r
        if not self.insts:
            return
        v, cname = r.choice(self.insts)
        vis = self.visible(cname) if cname in self.classes else {}
        x = E_var(v)
        c = r.random()
        names = sorted(vis)
        if c < 0.40 and names:
            n = r.choice(names)
            ar = vis[n][0]
            if r.random() < 0.08:
                ar = r.randint(0, 3)
                self.features.add("wrong_arity")
            e = E_inv(x, n, self.args(ar))
            rr = r.random()
            if rr < 0.7:
                self.stmts.append(self.maybe_try(S_expr(e)))
            elif rr < 0.94:
                self.stmts.append(self.maybe_try(S_print(E_eq(e, x))))
                self.features.add("result_identity")
            else:
                w = self.new_var("r")
                self.stmts.append(S_var(w, e))
            self.features.add("invoke")
        elif c < 0.52 and names:
            n = r.choice(names)
            f = self.new_var("g")
            self.stmts.append(S_var(f, E_get(x, n)))
            ar = vis[n][0] if r.random() < 0.9 else r.randint(0, 3)
            self.stmts.append(self.maybe_try(S_expr(E_call(E_var(f), self.args(ar)))))
            self.features.add("method_in_variable")
        elif c < 0.62 and names and len(self.insts) >= 1:
            # a method stored in a field (of the same or of another instance), then called through the field
            n = r.choice(names)
            w, wc = r.choice(self.insts)
            fld = r.choice(["h0", "h1", n, r.choice(["m0", "m1", "m2"])])
            self.stmts.append(S_setf(E_var(w), fld, E_get(x, n)))
            ar = vis[n][0]
            self.stmts.append(self.maybe_try(S_expr(E_inv(E_var(w), fld, self.args(ar)))))
            self.features.add("method_in_field")
            if fld[0] == "m":
                self.features.add("field_shadows_method")
        elif c < 0.70:
            # a field shadowing a method: non-callable value, plain function, or a class
            fld = r.choice(["m0", "m1", "m2", "m3", "s0"])
            rr = r.random()
            if rr < 0.35:
                val = self.arg()
            elif rr < 0.75:
                fn = "pf%d" % self.nfun
                self.nfun += 1
                ps = ["p", "q"][: r.choice([0, 1, 1, 2])]
                self.stmts.append(S_fun(fn, ps, [S_print(E_str(fn))] + [S_print(E_var(p)) for p in ps] + [S_ret(E_num(1))]))
                self.globals.append(fn)
                val = E_var(fn)
                self.features.add("function_in_field")
            else:
                val = E_var(r.choice(self.order)) if self.order else "ENil"
            self.stmts.append(S_setf(x, fld, val))
            ar = vis.get(fld, (r.randint(0, 2), None))[0]
            self.stmts.append(self.maybe_try(S_expr(E_inv(x, fld, self.args(ar))), 0.9))
            self.features.add("field_shadows_method")
        elif c < 0.74 and self.order and self.object_names:
            q = r.choice(self.order + ["Object"])
            g = self.new_var("d")
            self.stmts.append(S_var(g, E_get(x, "derives")))
            self.stmts.append(self.maybe_try(S_print(E_call(E_var(g), [E_var(q)])), 0.6))
            self.features.add("object_method_bound")
        elif c < 0.78 and self.order:
            q = r.choice(self.order + ["Object"])
            e = E_inv(x, "derives", [E_var(q)])
            if r.random() < 0.12:
                e = E_inv(x, "derives", self.args(r.choice([0, 1, 2])))
                self.stmts.append(S_try([S_print(e)]))
            else:
                self.stmts.append(self.maybe_try(S_print(e), 0.3))
            self.features.add("derives")
        elif c < 0.84:
            self.stmts.append(S_ptype(x))
            self.features.add("type")
        elif c < 0.90:
            self.stmts.append(self.maybe_try(S_print(E_get(x, "f%d" % r.randint(0, 2))), 0.85))
        elif c < 0.95:
            w, _ = r.choice(self.insts)
            self.stmts.append(S_print(E_eq(x, E_var(w))))
        else:
            n = r.choice(["zz", "m9", "s9"])
            self.stmts.append(S_try([S_expr(E_inv(x, n, []) if r.random() < 0.5 else E_get(x, n))]))
            self.features.add("unknown_member")

    def use_class(self):
        r = self.r
        if not self.order:
            return
        cname = r.choice(self.order)
        info = self.classes[cname]
        C = E_var(cname)
        c = r.random()
        statics = [n for n, (ar, k) in info["methods"].items() if k == "KStatic"]
        inh_statics = [n for n, (ar, k) in self.visible(cname).items() if k == "KStatic"]
        if c < 0.35 and inh_statics:
            n = r.choice(inh_statics)
            ar = self.visible(cname)[n][0]
            e = E_inv(C, n, self.args(ar))
            if n in statics and r.random() < 0.3:
                w = self.new_var("k")
                self.stmts.append(S_var(w, e))
            else:
                self.stmts.append(self.maybe_try(S_expr(e), 0.9))
            self.features.add("static_through_class")
        elif c < 0.5 and inh_statics and self.insts:
            # a static method through an instance (possibly of a subclass): Self = the instance's class
            v, vc = r.choice(self.insts)
            vis = self.visible(vc) if vc in self.classes else {}
            st = [n for n, (ar, k) in vis.items() if k == "KStatic"]
            if st:
                n = r.choice(st)
                if r.random() < 0.5:
                    self.stmts.append(self.maybe_try(S_expr(E_inv(E_var(v), n, self.args(vis[n][0]))), 0.9))
                else:
                    w = self.new_var("w")
                    self.stmts.append(S_var(w, E_get(E_var(v), n)))
                    self.stmts.append(self.maybe_try(S_expr(E_call(E_var(w), self.args(vis[n][0]))), 0.9))
                self.features.add("static_through_instance")
        elif c < 0.6:
            self.stmts.append(S_try([S_expr(E_call(C, self.args(r.choice([0, 1]))))]))
            self.features.add("call_class")
        elif c < 0.7:
            tgt = r.choice([C, E_num(5), "ENil", E_str("str")])
            self.stmts.append(S_try([S_setf(tgt, "q", E_num(1))]))
            self.features.add("set_on_non_instance")
        elif c < 0.8:
            names = sorted(n for n, (ar, k) in info["methods"].items() if k != "KStatic")
            n = r.choice(names + ["zz"])
            self.stmts.append(S_try([S_expr(E_inv(C, n, [])) if r.random() < 0.5 else S_expr(E_get(C, n))]))
            self.features.add("instance_method_through_class")
        elif c < 0.88:
            q = r.choice(self.order + ["Object"])
            self.stmts.append(self.maybe_try(S_print(E_inv(C, "derives", [E_var(q)])), 0.5))
            self.features.add("derives_on_class")
        elif c < 0.94:
            self.stmts.append(S_ptype(C))
        else:
            tgt = r.choice([E_num(5), "ENil", E_str("str"), "(EBool false)"])
            self.stmts.append(S_try([S_expr(E_inv(tgt, "zz", [])) if r.random() < 0.5 else S_expr(E_get(tgt, "zz"))]))
            self.features.add("unknown_member_builtin")

    def bad_superclass(self):
        r = self.r
        c = r.random()
        if c < 0.4 and self.insts:
            sup = r.choice(self.insts)[0]
        else:
            sup = self.new_var("n")
            self.stmts.append(S_var(sup, self.arg()))
        self.stmts.append(S_try([S_class("Z%d" % self.lab(), sup, r.choice([None, "new"]), [], self.lab())]))
        self.features.add("non_class_superclass")

    def rebind(self):
        """rebinds the global name of a class that already has subclasses"""
        r = self.r
        parents = [c for c in self.order if any(self.classes[d]["parent"] == c for d in self.order)]
        if not parents:
            return
        p = r.choice(parents)
        others = [c for c in self.order if c != p and self.classes[c].get("bound_ok", True)]
        if others and r.random() < 0.7:
            o = r.choice(others)
            self.stmts.append(S_assign(p, E_var(o)))
            self.classes[p] = self.classes[o]       # the name now denotes the other class
        else:
            self.stmts.append(S_assign(p, self.arg()))
            self.classes[p] = dict(self.classes[p])
            self.classes[p]["bound_ok"] = False     # the name no longer denotes a class
        self.features.add("rebind_superclass_name")

    def inner_class(self, name, parent, cap):
        """a class DERIVED from a global class, declared in some local scope: its initialiser and its methods use
        `super.new(..)`, `super.m(..)`, a bound `super.m`, also from a nested function"""
        r = self.r
        pinfo = self.classes[parent]
        vis = self.visible(parent)
        info = {"parent": parent, "methods": {}, "ctor": None, "ctor_visible": None}
        self.classes[name] = info
        decls = []
        defctor = None
        pct = pinfo["ctor_visible"]
        if pct is not None and r.random() < 0.75:
            ps = ["a", "b"][: r.choice([1, 1, 2])]
            body = [S_print(E_str("%s.new" % name)), S_print(E_var(cap))]
            body += [S_setf("ESelf", "g%d" % i, E_var(q)) for i, q in enumerate(ps)]
            sargs = [E_var(ps[i % len(ps)]) for i in range(pct)]
            if r.random() < 0.25:
                body.append(S_fun("init_sup", [], [S_ret(E_sinv("new", sargs))], r.choice([0, 1])))
                body.append(S_expr(E_call(E_var("init_sup"), [])))
                self.features.add("super_new_in_nested_fn")
            else:
                body.append(S_expr(E_sinv("new", sargs)))
            body.append(S_print(E_eq("ESelf", "ESelf")))
            decls.append(M_decl("KInit", "new", ps, body, self.lab()))
            info["ctor"] = len(ps)
            self.features.add("scoped_super_new")
        else:
            defctor = "new"
            info["ctor"] = 0
        info["ctor_visible"] = info["ctor"]
        ms = sorted(n for n, (ar, k) in vis.items() if k == "KMethod" and n != "derives")
        for n in r.sample(ms, min(2, len(ms))):
            ar = vis[n][0]
            ps = ["a", "b"][:ar]
            pa = [E_var(q) for q in ps]
            body = [S_print(E_str("%s.%s" % (name, n))), S_print(E_var(cap))]
            st = r.random()
            if st < 0.4:
                body.append(S_print(E_eq(E_sinv(n, pa), "ESelf")))
                self.features.add("scoped_super_invoke")
            elif st < 0.7:
                body.append(S_var("sf", E_sget(n)))
                body.append(S_print(E_eq(E_call(E_var("sf"), pa), "ESelf")))
                self.features.add("scoped_super_bound")
            else:
                body.append(S_fun("via", [], [S_ret(E_sinv(n, pa))], r.choice([0, 1])))
                body.append(S_print(E_eq(E_call(E_var("via"), []), "ESelf")))
                self.features.add("scoped_super_in_nested_fn")
            body.append(S_ret("ESelf"))
            decls.append(M_decl("KMethod", n, ps, body, self.lab()))
            info["methods"][n] = (ar, "KMethod")
        return S_class(name, parent, defctor, decls, self.lab())

    def scoped_factory(self, kind=None, lam=None, via_instance=None):
        """a derived class declared in the local scope of a plain function, an instance method, a static method or an
        initialiser of ANOTHER class - directly or inside a lambda / nested function in it"""
        r = self.r
        parents = [c for c in self.order if self.classes[c].get("bound_ok", True)]
        if not parents:
            return
        withctor = [c for c in parents if self.classes[c]["ctor_visible"] is not None]
        parent = r.choice(withctor) if withctor and r.random() < 0.85 else r.choice(parents)
        kind = kind or r.choice(["fun", "method", "static", "static", "init"])
        lam = r.random() < 0.45 if lam is None else lam
        k = self.lab()
        iname = "I%d" % k
        cls = self.inner_class(iname, parent, "t")
        if lam:
            wrap = r.choice([0, 1])       # 1: written as a lambda
            scope = [S_fun("lam", [], [cls, S_ret(E_var(iname))], wrap)]
            got = E_call(E_var("lam"), [])
            self.features.add("scoped_class_in_lambda" if wrap else "scoped_class_in_nested_fn")
        else:
            scope = [cls]
            got = E_var(iname)
        K = self.new_var("K")
        if kind == "fun":
            fn = "mkf%d" % k
            self.stmts.append(S_fun(fn, ["t"], scope + [S_ret(got)]))
            self.globals.append(fn)
            self.stmts.append(S_var(K, E_call(E_var(fn), [E_str("cap%d" % k)])))
        else:
            oname = "F%d" % k
            self.globals.append(oname)
            if kind == "method":
                mem = M_decl("KMethod", "build", ["t"], [S_print(E_str("%s.build" % oname))] + scope + [S_ret(got)], self.lab())
                self.stmts.append(S_class(oname, None, "new", [mem], self.lab()))
                o = self.new_var("o")
                self.stmts.append(S_var(o, E_inv(E_var(oname), "new", [])))
                self.stmts.append(S_var(K, E_inv(E_var(o), "build", [E_str("cap%d" % k)])))
            elif kind == "static":
                mem = M_decl("KStatic", "build", ["t"], [S_print(E_str("%s.build" % oname)), S_print("ECapSelf")] + scope + [S_ret(got)],
                             self.lab())
                self.stmts.append(S_class(oname, None, "new", [mem], self.lab()))
                if (r.random() < 0.3) if via_instance is None else via_instance:
                    o = self.new_var("o")
                    self.stmts.append(S_var(o, E_inv(E_var(oname), "new", [])))
                    self.stmts.append(S_var(K, E_inv(E_var(o), "build", [E_str("cap%d" % k)])))
                    self.features.add("scoped_static_factory_through_instance")
                else:
                    self.stmts.append(S_var(K, E_inv(E_var(oname), "build", [E_str("cap%d" % k)])))
            else:
                mem = M_decl("KInit", "new", ["t"], [S_print(E_str("%s.new" % oname))] + scope + [S_setf("ESelf", "k", got)], self.lab())
                self.stmts.append(S_class(oname, None, None, [mem], self.lab()))
                o = self.new_var("o")
                self.stmts.append(S_var(o, E_inv(E_var(oname), "new", [E_str("cap%d" % k)])))
                self.stmts.append(S_var(K, E_get(E_var(o), "k")))
        self.features.add("scoped_class_in_" + kind)
        info = self.classes[iname]
        self.classes[K] = info
        x = self.new_var()
        args = [E_num(r.randint(0, 9)) for _ in range(info["ctor"])]
        self.stmts.append(S_var(x, E_inv(E_var(K), "new", args)))
        self.insts.append((x, iname))
        self.stmts.append(self.maybe_try(S_print(E_get(E_var(x), "f0")), 0.9))
        for n, (ar, _) in sorted(info["methods"].items()):
            self.stmts.append(self.maybe_try(S_print(E_eq(E_inv(E_var(x), n, self.args(ar)), E_var(x))), 0.9))
        self.stmts.append(S_print(E_inv(E_var(x), "derives", [E_var(parent)])) if "derives" not in self.visible(parent)
                          else S_ptype(E_var(x)))

    # ----- implicit member accesses of the VM: `iter` (for statement), `next` (IterNext), core.yl's map / reduce
    def iterator_classes(self, k, levels, iter_override):
        """a 1-3 level hierarchy of iterators below core Iter; `next` is a state machine over the field k; the middle
        class overrides `next` (and calls super.next()); constructors pass the tag up"""
        r = self.r
        base = "It%d" % k
        out = []
        nxt = [S_print(E_str(base + ".next")),
               S_if(E_eq(E_get("ESelf", "k"), E_num(0)), [S_setf("ESelf", "k", E_num(1)), S_ret(E_get("ESelf", "t"))]),
               S_if(E_eq(E_get("ESelf", "k"), E_num(1)), [S_setf("ESelf", "k", E_num(2)), S_ret(E_str("second"))]),
               S_ret(E_inv(E_var("StopIter"), "new", []))]
        ms = [M_decl("KInit", "new", ["t"], [S_setf("ESelf", "k", E_num(0)), S_setf("ESelf", "t", E_var("t"))], self.lab()),
              M_decl("KMethod", "next", [], nxt, self.lab())]
        if iter_override == 1:
            ms.append(M_decl("KMethod", "iter", [], [S_print(E_str(base + ".iter")), S_ret("ESelf")], self.lab()))
        out.append(S_class(base, "Iter", None, ms, self.lab()))
        top = base
        for lv in range(2, levels + 1):
            name = "It%d_%d" % (k, lv)
            ms = [M_decl("KInit", "new", ["t"], [S_expr(E_sinv("new", [E_var("t")]))], self.lab())]
            if lv == 2 or r.random() < 0.3:
                ms.append(M_decl("KMethod", "next", [], [S_print(E_str(name + ".next")), S_ret(E_sinv("next", []))], self.lab()))
            if iter_override == lv:
                ms.append(M_decl("KMethod", "iter", [], [S_print(E_str(name + ".iter")), S_ret(E_sinv("iter", []))], self.lab()))
            out.append(S_class(name, top, None, ms, self.lab()))
            top = name
        for c in [base] + ["It%d_%d" % (k, lv) for lv in range(2, levels + 1)]:
            self.globals.append(c)
        return out, base, top

    def iterator_scenario(self, fixed=None):
        """an instance FIELD named like a member the VM accesses implicitly (`next`, `iter`) shadows the class's method;
        every access path - x.n(), var g = x.n; g(), the for loop, map, reduce, nested loops - must see the field"""
        r = self.r
        k = self.lab()
        levels = fixed["levels"] if fixed else r.choice([1, 2, 3, 3])
        classes, base, top = self.iterator_classes(k, levels, fixed["iter_override"] if fixed else r.choice([0, 0, 1, 2]))
        self.stmts += classes
        f1, f2, mk = "itf%d" % k, "itg%d" % k, "itlim%d" % k
        self.stmts.append(S_fun(f1, ["v"], [S_print(E_var("v")), S_ret(E_str("mapped"))]))
        self.stmts.append(S_fun(f2, ["acc", "v"], [S_print(E_var("v")), S_ret(E_var("v"))]))
        # a closure with its own state, to be stored in the field `next`
        self.stmts.append(S_fun(mk, ["w"], [
            S_var("s", E_num(0)),
            S_fun("lim", [], [S_if(E_eq(E_var("s"), E_num(0)), [S_assign("s", E_num(1)), S_ret(E_var("w"))]),
                              S_ret(E_inv(E_var("StopIter"), "new", []))], r.choice([0, 1])),
            S_ret(E_var("lim"))]))
        self.globals += [f1, f2, mk]
        kinds = fixed["kinds"] if fixed else r.sample(["bound", "closure", "data", "none", "iter_bound", "iter_closure", "iter_data"],
                                                      r.randint(2, 4))
        paths = fixed["paths"] if fixed else None
        n = 0
        for kind in kinds:
            for path in (paths or r.sample(["call", "value", "for", "map", "reduce", "nested"], r.randint(3, 5))):
                n += 1
                x = self.new_var("it")
                self.stmts.append(S_var(x, E_inv(E_var(top), "new", [E_str("own%d" % n)])))
                X = E_var(x)
                other = E_inv(E_var(r.choice([base, top])), "new", [E_str("other%d" % n)])
                if kind == "bound":
                    self.stmts.append(S_setf(X, "next", E_get(other, "next")))
                elif kind == "closure":
                    self.stmts.append(S_setf(X, "next", E_call(E_var(mk), [E_str("lim%d" % n)])))
                elif kind == "data":
                    self.stmts.append(S_setf(X, "next", self.arg()))
                elif kind == "iter_bound":
                    self.stmts.append(S_setf(X, "iter", E_get(other, "iter")))
                elif kind == "iter_closure":
                    g = "itmk%d_%d" % (k, n)
                    self.stmts.append(S_fun(g, [], [S_print(E_str(g)), S_ret(other)]))
                    self.globals.append(g)
                    self.stmts.append(S_setf(X, "iter", E_var(g)))
                elif kind == "iter_data":
                    self.stmts.append(S_setf(X, "iter", self.arg()))
                self.features.add("iter_field_" + kind)
                self.features.add("iter_path_" + path)
                show = lambda e: [S_var("r", e), S_if(E_inv(E_var("r"), "derives", [E_var("StopIter")]),
                                                       [S_print(E_str("stop"))], [S_print(E_var("r"))])]
                if path == "call":
                    body = show(E_inv(X, "next", [])) 
                    self.stmts.append(S_try([S_block(body), S_block(show(E_inv(X, "next", [])))]))
                elif path == "value":
                    self.stmts.append(S_try([S_var("g", E_get(X, "next"))] + show(E_call(E_var("g"), []))))
                elif path == "for":
                    self.stmts.append(S_try([S_for("v", X, [S_print(E_var("v"))])]))
                elif path == "map":
                    self.stmts.append(S_try([S_for("v", E_inv(X, "map", [E_var(f1)]), [S_print(E_var("v"))])]))
                elif path == "reduce":
                    self.stmts.append(S_try([S_print(E_inv(X, "reduce", [E_var(f2), E_str("init")]))]))
                else:
                    y = E_inv(E_var(base), "new", [E_str("inner%d" % n)])
                    self.stmts.append(S_try([S_for("v", X, [S_for("w", y, [S_print(E_var("w"))]), S_print(E_var("v"))])]))
        self.features.add("iterator_hierarchy_%d_levels" % levels)

    # ----- the errors the property names, raised AT THE LIMITS of the machine and in combination (round 8)
    def limit_probes(self, nm, R, ctx, full):
        """statements for the body of a callable that runs with exactly FRAMES_MAX (or FRAMES_MAX - 1) frames on the fiber:
        every error the property names, and the matching successful call, through every call path (function, method
        invoke, bound method, method / function in a field, explicit and default constructor, static through class and
        instance, Self, super invoke / bound super, native, for loop).  Two conditions are then true at once (the frame limit
        and the wrong arity / the unknown member / the non-callable callee / the non-class superclass): which error is
        reported is part of the behaviour.  R = an instance of LB (self, or a global)."""
        r = self.r
        A, B, I, E, pf, x = nm["A"], nm["B"], nm["I"], nm["E"], nm["pf"], nm["x"]
        n1, n2 = E_num(1), E_num(2)
        P = []

        def add(f, *ss):
            P.append((f, list(ss)))

        # wrong arity: TypeError at every depth (call_closure tests the arity BEFORE the frame limit)
        add("arity_invoke_less", S_expr(E_inv(R, "m", [])))
        add("arity_invoke_more", S_expr(E_inv(R, "m", [n1, n2])))
        add("arity_bound", S_var("g", E_get(R, "m")), S_expr(E_call(E_var("g"), [n1, n2])))
        add("arity_method_in_field", S_setf(R, "h0", E_get(R, "n")), S_expr(E_inv(R, "h0", [n1])))
        add("arity_function", S_expr(E_call(E_var(pf), [n1])))
        add("arity_function_in_field", S_setf(R, "h1", E_var(pf)), S_expr(E_inv(R, "h1", [])))
        add("arity_ctor", S_expr(E_inv(E_var(B), "new", [n1])))
        add("arity_default_ctor", S_expr(E_inv(E_var(E), "new", [n1])))
        add("arity_static_class", S_expr(E_inv(E_var(A), "s", [])))
        add("arity_static_instance", S_expr(E_inv(R, "s", [n1, n2])))
        add("arity_static_bound", S_var("g", E_get(E_var(A), "s")), S_expr(E_call(E_var("g"), [])))
        add("arity_native", S_print(E_inv(R, "derives", [])))
        add("arity_native_bound", S_var("dv", E_get(R, "derives")), S_print(E_call(E_var("dv"), [E_var(A), E_var(A)])))
        # a failed call leaves the caller's locals as they were (the callee sits directly above them on the stack)
        def intact(f, callee, args):
            add(f, S_var("w1", E_str("w1-local")), S_var("w2", E_str("w2-local")), S_var("g", callee),
                S_try([S_expr(E_call(E_var("g"), args))]), S_print(E_var("w1")), S_print(E_var("w2")), S_ptype(E_var("g")))
        intact("arity_locals_intact_bound", E_get(R, "m"), [])
        intact("arity_locals_intact_function", E_var(pf), [])
        intact("arity_locals_intact_bound_ctor", E_get(E_var(B), "new"), [n1])
        if ctx in ("method", "init"):
            add("arity_super_invoke", S_expr(E_sinv("m", [])))
            add("arity_super_bound", S_var("sf", E_sget("m")), S_expr(E_call(E_var("sf"), [n1, n2])))
            add("arity_super_new", S_expr(E_sinv("new", [])))
            add("arity_super_native", S_print(E_sinv("derives", [])))
        if ctx == "static":
            add("arity_Self_new", S_expr(E_inv("ECapSelf", "new", [n1])))
            add("arity_super_static", S_expr(E_sinv("s", [])))
        # the same paths with the RIGHT arity: IndexError "Stack overflow." exactly when the fiber holds FRAMES_MAX frames
        # (natives push no frame); one frame higher the call is entered and ITS calls fail
        add("ok_invoke", S_print(E_eq(E_inv(R, "m", [n1]), R)))
        add("ok_invoke_calls_on", S_expr(E_inv(R, "n", [])))
        add("ok_bound", S_var("g", E_get(R, "m")), S_print(E_eq(E_call(E_var("g"), [n1]), R)))
        add("ok_method_in_field", S_setf(R, "h2", E_get(E_var(x), "n")), S_expr(E_inv(R, "h2", [])))
        add("ok_function", S_print(E_call(E_var(pf), [n1, n2])))
        add("ok_ctor", S_var("y", E_inv(E_var(B), "new", [n1, n2])), S_print(E_get(E_var("y"), "f1")))
        add("ok_default_ctor", S_var("y", E_inv(E_var(E), "new", [])), S_ptype(E_var("y")))
        add("ok_static_class", S_expr(E_inv(E_var(A), "s", [n1])))
        add("ok_static_instance", S_expr(E_inv(R, "s", [n1])))
        add("ok_static_factory", S_var("y", E_inv(E_var(B), "t", [])), S_ptype(E_var("y")))
        add("ok_native", S_print(E_inv(R, "derives", [E_var(A)])))
        add("ok_native_bound", S_var("dv", E_get(R, "derives")), S_print(E_call(E_var("dv"), [E_var(E)])))
        add("ok_for", S_for("v", E_inv(E_var(I), "new", []), [S_print(E_var("v"))]))
        add("ok_for_existing", S_for("v", E_var(nm["it"]), [S_print(E_var("v"))]))
        lz = "LQ%d" % self.lab()
        add("ok_local_class", S_class(lz, A, "new", [M_decl("KMethod", "n", [], [S_print(E_str(lz + ".n")), S_expr(E_sinv("n", []))],
                                                             self.lab())], self.lab()),
            S_var("q", E_inv(E_var(lz), "new", [])), S_expr(E_inv(E_var("q"), "n", [])))
        if ctx in ("method", "init"):
            add("ok_super_invoke", S_print(E_eq(E_sinv("m", [n1]), R)))
            add("ok_super_bound", S_var("sf", E_sget("m")), S_print(E_eq(E_call(E_var("sf"), [n1]), R)))
            add("ok_super_native", S_print(E_sinv("derives", [E_var(A)])))
        if ctx == "static":
            add("ok_Self_new", S_var("y", E_inv("ECapSelf", "new", [n1, n2])), S_print(E_get(E_var("y"), "f0")))
            add("ok_super_static", S_expr(E_sinv("s", [n1])))
        # unknown members, non-callable callees, field set on a non-instance, non-class superclass: the same at every depth
        add("unknown_invoke", S_expr(E_inv(R, "zz", [])))
        add("unknown_invoke_args", S_expr(E_inv(R, "zz", [n1, n2])))
        add("unknown_get", S_expr(E_get(R, "zz")))
        add("unknown_class_invoke", S_expr(E_inv(E_var(B), "zz", [])))
        add("unknown_instance_method_through_class", S_expr(E_inv(E_var(B), "m", [n1])))
        add("unknown_builtin", S_expr(E_inv(r.choice([E_num(5), "ENil", E_str("str")]), "zz", [])))
        add("not_callable_field", S_setf(R, "h3", n1), S_expr(E_inv(R, "h3", [])))
        add("not_callable_class", S_expr(E_call(E_var(B), [])))
        add("not_callable_instance", S_expr(E_call(R, [n1])))
        add("set_on_non_instance", S_setf(E_var(B), "q", n1))
        add("non_class_superclass", S_class("LZ%d" % self.lab(), x, r.choice([None, "new"]), [], self.lab()))
        add("non_class_superclass_with_members", S_var("ns", E_str("s")),
            S_class("LZ%d" % self.lab(), "ns", None, [M_decl("KMethod", "m", [], [S_print(E_str("never"))], self.lab())], self.lab()))
        if ctx in ("method", "init", "static"):
            add("unknown_super_invoke", S_expr(E_sinv("zz", [n1])))
            add("unknown_super_get", S_expr(E_sget("zz")))
        if not full:
            # a sample that always contains wrong-arity, right-arity and unknown-member probes
            groups = {}
            for f, ss in P:
                groups.setdefault(f.split("_")[0], []).append((f, ss))
            pick = []
            for gname, lst in sorted(groups.items()):
                kk = {"arity": r.randint(3, 6), "ok": r.randint(2, 5)}.get(gname, r.randint(0, 2))
                pick += r.sample(lst, min(kk, len(lst)))
            r.shuffle(pick)
            P = pick
        out = []
        for i, (f, ss) in enumerate(P):
            self.features.add("limit_probe_" + f)
            bare = len(ss) == 1 and i == len(P) - 1 and not full and r.random() < 0.25
            out.append(ss[0] if bare else S_try(ss))
        if not full and r.random() < 0.5 and self.insts:
            # statements of the ordinary top-level generators (over the program's own hierarchy), executed at the limit
            keep, keep_insts = self.stmts, list(self.insts)
            self.stmts = []
            for _ in range(r.randint(2, 5)):
                (self.use_instance if r.random() < 0.75 else self.use_class)()
            extra, self.stmts, self.insts = self.stmts, keep, keep_insts
            out += [s if s.startswith("(STry") else S_try([s]) for s in extra]
            self.features.add("limit_random_uses")
        return out

    LIMIT_KINDS = ["fun", "method", "bound", "field", "static", "static_instance", "ctor", "pingpong", "nested", "lambda"]

    def limit_scenario(self, kind=None, full=False):
        """a self-limiting descent: a callable that calls itself inside `try` until the call fails with IndexError
        "Stack overflow." - the frame that catches it runs with EXACTLY FRAMES_MAX frames (whatever the constant is), and
        executes the probes there; the frame above it executes a second set with FRAMES_MAX - 1 frames.  Every level prints a
        line, so the output also shows at which depth the limit was hit.  The descent itself goes through one call path:
        plain function, method invoke, bound method, method in a field, static method through Self / through an instance,
        constructor, super call + dynamic dispatch alternating, function / lambda nested in a method."""
        r = self.r
        k = self.lab()
        kind = kind or r.choice(self.LIMIT_KINDS)
        nm = {"A": "LA%d" % k, "B": "LB%d" % k, "I": "LI%d" % k, "E": "LE%d" % k, "D": "LD%d" % k, "pf": "lpf%d" % k,
              "x": "lx%d" % k, "it": "lit%d" % k}
        A, B, I, E, D, pf, x = nm["A"], nm["B"], nm["I"], nm["E"], nm["D"], nm["pf"], nm["x"]
        hit, hit2 = "lhit%d" % k, "lhit%d_2" % k
        false, true = "(EBool false)", "(EBool true)"

        def gate(R, ctx):
            lower = self.limit_probes(nm, R, ctx, full)
            upper = self.limit_probes(nm, R, ctx, full)
            return S_if(E_eq(E_var(hit), false), [S_assign(hit, true), S_print(E_str("at the limit"))] + lower,
                        [S_if(E_eq(E_var(hit2), false), [S_assign(hit2, true), S_print(E_str("one below the limit"))] + upper)])

        def descent(call, R, ctx, tag):
            return [S_print(E_str(tag)), S_try(call), gate(R, ctx)]

        a_ms = [("KInit", "new", ["a"], [S_setf("ESelf", "f0", E_var("a"))]),
                ("KMethod", "m", ["a"], [S_print(E_str(A + ".m")), S_ret("ESelf")]),
                ("KMethod", "n", [], [S_print(E_str(A + ".n")), S_expr(E_inv("ESelf", "m", [E_num(1)]))]),
                ("KStatic", "s", ["a"], [S_print(E_str(A + ".s"))])]
        b_ms = [("KInit", "new", ["a", "b"], [S_expr(E_sinv("new", [E_var("a")])), S_setf("ESelf", "f1", E_var("b"))]),
                ("KMethod", "m", ["a"], [S_print(E_str(B + ".m")), S_ret(E_sinv("m", [E_var("a")]))]),
                ("KStatic", "t", [], [S_print(E_str(B + ".t")), S_ret(E_inv("ECapSelf", "new", [E_num(1), E_num(2)]))])]
        post = []
        start = None
        if kind == "fun":
            dn = "ldown%d" % k
            post.append(S_fun(dn, [], descent([S_expr(E_call(E_var(dn), []))], E_var(x), "fun", "lv")))
            start = S_expr(E_call(E_var(dn), []))
        elif kind == "method":
            b_ms.append(("KMethod", "down", [], descent([S_expr(E_inv("ESelf", "down", []))], "ESelf", "method", "lv")))
            start = S_expr(E_inv(E_var(x), "down", []))
        elif kind == "bound":
            b_ms.append(("KMethod", "down", [], descent([S_var("d", E_get("ESelf", "down")), S_expr(E_call(E_var("d"), []))],
                                                        "ESelf", "method", "lv")))
            start = S_expr(E_inv(E_var(x), "down", []))
        elif kind == "field":
            b_ms.append(("KMethod", "down", [], descent([S_expr(E_inv("ESelf", "h9", []))], "ESelf", "method", "lv")))
            post.append(S_setf(E_var(x), "h9", E_get(E_var(x), "down")))
            start = S_expr(E_inv(E_var(x), "h9", []))
        elif kind in ("static", "static_instance"):
            b_ms.append(("KStatic", "down", [], descent([S_expr(E_inv("ECapSelf", "down", []))], E_var(x), "static", "lv")))
            start = S_expr(E_inv(E_var(B) if kind == "static" else E_var(x), "down", []))
        elif kind == "ctor":
            post.append(S_class(D, B, None, [M_decl("KInit", "new", [], descent([S_expr(E_inv(E_var(D), "new", []))], "ESelf", "init", "lv"),
                                                    self.lab())], self.lab()))
            start = S_expr(E_inv(E_var(D), "new", []))
        elif kind == "pingpong":
            # B.down -> super.step (A.step) -> self.down (B.down, dynamic dispatch) -> ...: whichever holds the last frame probes
            a_ms.append(("KMethod", "step", [], descent([S_expr(E_inv("ESelf", "down", []))], "ESelf", "plain_method", "lv-step")))
            a_ms.append(("KMethod", "down", [], [S_print(E_str("never"))]))
            b_ms.append(("KMethod", "down", [], descent([S_expr(E_sinv("step", []))], "ESelf", "method", "lv-down")))
            start = S_expr(E_inv(E_var(x), r.choice(["down", "step"]), []))
        else:
            lam = 1 if kind == "lambda" else 0
            inner = S_fun("inner", [], descent([S_expr(E_call(E_var("inner"), []))], "ESelf", "method", "lv"), lam)
            if lam:
                # a lambda cannot name itself before it is bound: it reaches itself through a field of self
                inner = S_fun("inner", [], descent([S_expr(E_inv("ESelf", "h8", []))], "ESelf", "method", "lv"), 1)
                b_ms.append(("KMethod", "start", [], [inner, S_setf("ESelf", "h8", E_var("inner")), S_expr(E_call(E_var("inner"), []))]))
            else:
                b_ms.append(("KMethod", "start", [], [inner, S_expr(E_call(E_var("inner"), []))]))
            start = S_expr(E_inv(E_var(x), "start", []))
        mk = lambda ms: [M_decl(kd, n, ps, body, self.lab()) for kd, n, ps, body in ms]
        self.stmts.append(S_class(A, None, None, mk(a_ms), self.lab()))
        self.stmts.append(S_class(B, A, None, mk(b_ms), self.lab()))
        self.stmts.append(S_class(E, None, "new", [], self.lab()))
        nxt = [S_if(E_eq(E_get("ESelf", "k"), E_num(0)), [S_setf("ESelf", "k", E_num(1)), S_ret(E_str(I + ".v"))]),
               S_ret(E_inv(E_var("StopIter"), "new", []))]
        self.stmts.append(S_class(I, "Iter", None, [M_decl("KInit", "new", [], [S_setf("ESelf", "k", E_num(0))], self.lab()),
                                                    M_decl("KMethod", "next", [], nxt, self.lab())], self.lab()))
        self.stmts.append(S_fun(pf, ["p", "q"], [S_print(E_str(pf)), S_ret(E_var("q"))]))
        self.stmts.append(S_var(x, E_inv(E_var(B), "new", [E_num(7), E_num(8)])))
        self.stmts.append(S_var(nm["it"], E_inv(E_var(I), "new", [])))
        self.stmts.append(S_var(hit, false))
        self.stmts.append(S_var(hit2, false))
        self.stmts += post
        self.stmts.append(self.maybe_try(start, 0.8))
        self.stmts.append(S_print(E_str("back at the top")))
        # the same callee once more from the top: the limit is hit at the same depth, no probes any more
        if r.random() < 0.3 or full:
            self.stmts.append(S_try([start]))
        self.globals += [A, B, I, E, pf, x, nm["it"]] + ([D] if kind == "ctor" else [])
        self.features.add("limit_descent_" + kind)

    # ----- round 9: every member-access FORM x every PLACE the name can live x what the receiver carries in a FIELD of that name
    MATRIX_NAMES = ["m", "p", "o", "s", "t", "derives", "zz"]
    MATRIX_FIELDS = ["none", "data", "function", "bound_other", "class", "bound_own"]

    def member_matrix(self, names=None, fields=None, receivers=None, full=False, alternate=False):
        """Three classes MA <- MB <- MC.  The name n is: m (method of MA overridden in MB), p (method of MA only: inherited),
        o (method of MB only: `super.o` does not exist), s (static of MA), t (static of MB), derives (Object's native), zz
        (nowhere).  For every n, MB has one accessor per access form - `super.n` as a VALUE (also taken inside a nested
        function), `super.n(..)`, `self.n` as a value, `self.n(..)`, and in static methods `Self.n`, `Self.n(..)`, `super.n`,
        `super.n(..)` -, and the top level uses `x.n(..)`, `var f = x.n; f(..)`.  The receiver x (an instance of MB or of MC)
        carries a FIELD named n holding: nothing, plain data, a plain function, a bound method of another instance, a class,
        a bound method of x itself for another name.  Which of field / own method / inherited method / static / Object's
        method each form reaches is decided by the model; fields must never be visible through `super` and `Self`."""
        r = self.r
        k = self.lab()
        A, B, C = "MA%d" % k, "MB%d" % k, "MC%d" % k
        pf, oth = "mpf%d" % k, "moth%d" % k
        names = names or (self.MATRIX_NAMES if full else r.sample(self.MATRIX_NAMES, r.randint(1, 2)))
        fields = fields or (self.MATRIX_FIELDS if full else r.sample(self.MATRIX_FIELDS, 2))
        receivers = receivers or ([B, C] if full else [r.choice([B, C])])
        receivers = [B if c == "B" else C if c == "C" else c for c in receivers]

        def args(n):
            return [E_var(A)] if n == "derives" else []

        def tagged(c, n, static=False):
            return [S_print(E_str("%s.%s" % (c, n)))] + ([S_print("ECapSelf"), S_ret("ECapSelf")] if static else [S_ret("ESelf")])

        a_ms = [("KMethod", "m", [], tagged(A, "m")), ("KMethod", "p", [], tagged(A, "p")), ("KStatic", "s", [], tagged(A, "s", True))]
        b_ms = [("KMethod", "m", [], tagged(B, "m")), ("KMethod", "o", [], tagged(B, "o")), ("KStatic", "t", [], tagged(B, "t", True))]
        inst_forms = ["super_value", "super_call", "super_value_nested", "self_value", "self_call"]
        stat_forms = ["Self_value", "Self_call", "static_super_value", "static_super_call"]
        for n in names:
            a = args(n)
            b_ms += [
                ("KMethod", "super_value_" + n, [], [S_var("f", E_sget(n)), S_ret(E_call(E_var("f"), a))]),
                ("KMethod", "super_call_" + n, [], [S_ret(E_sinv(n, a))]),
                ("KMethod", "super_value_nested_" + n, [], [S_fun("inner", [], [S_ret(E_sget(n))], r.choice([0, 1])),
                                                             S_var("f", E_call(E_var("inner"), [])), S_ret(E_call(E_var("f"), a))]),
                ("KMethod", "self_value_" + n, [], [S_var("f", E_get("ESelf", n)), S_ret(E_call(E_var("f"), a))]),
                ("KMethod", "self_call_" + n, [], [S_ret(E_inv("ESelf", n, a))]),
                ("KStatic", "Self_value_" + n, [], [S_var("f", E_get("ECapSelf", n)), S_ret(E_call(E_var("f"), a))]),
                ("KStatic", "Self_call_" + n, [], [S_ret(E_inv("ECapSelf", n, a))]),
                ("KStatic", "static_super_value_" + n, [], [S_var("f", E_sget(n)), S_ret(E_call(E_var("f"), a))]),
                ("KStatic", "static_super_call_" + n, [], [S_ret(E_sinv(n, a))]),
            ]
        mk = lambda ms: [M_decl(kd, n, ps, body, self.lab()) for kd, n, ps, body in ms]
        self.stmts.append(S_class(A, None, "new", mk(a_ms), self.lab()))
        self.stmts.append(S_class(B, A, "new", mk(b_ms), self.lab()))
        self.stmts.append(S_class(C, B, "new", mk([("KMethod", "p", [], tagged(C, "p"))] if r.random() < 0.5 or full else []), self.lab()))
        self.stmts.append(S_fun(pf, [], [S_print(E_str("field-function")), S_ret(E_num(1))]))
        self.stmts.append(S_var(oth, E_inv(E_var(A), "new", [])))
        self.globals += [A, B, C, pf, oth]
        ncell = 0
        for n in names:
            a = args(n)
            # through the class value (no receiver instance, no fields): once per name
            for f in stat_forms:
                self.stmts.append(S_try([S_print(E_eq(E_inv(E_var(B), "%s_%s" % (f, n), []), E_var(B)))]))
            for fk in fields:
                ncell += 1
                for rc in (receivers if not alternate else [receivers[ncell % len(receivers)]]):
                    x = self.new_var("mx")
                    X = E_var(x)
                    self.stmts.append(S_var(x, E_inv(E_var(rc), "new", [])))
                    val = {"none": None, "data": self.arg(), "function": E_var(pf), "bound_other": E_get(E_var(oth), "m"),
                           "class": E_var(A), "bound_own": E_get(X, "p")}[fk]
                    if val is not None:
                        self.stmts.append(S_setf(X, n, val))
                    forms = ["top_call", "top_value"] + inst_forms + stat_forms
                    if not full:
                        forms = ["top_call", "super_value", "super_call"] + r.sample(forms, r.randint(1, 3))
                        r.shuffle(forms)
                    for f in forms:
                        if f == "top_call":
                            e = E_inv(X, n, a)
                        elif f == "top_value":
                            self.stmts.append(S_try([S_var("f", E_get(X, n)), S_print(E_eq(E_call(E_var("f"), a), X))]))
                            self.features.add("matrix_form_top_value")
                            continue
                        else:
                            e = E_inv(X, "%s_%s" % (f, n), [])
                        self.stmts.append(S_try([S_print(E_eq(e, X))]))
                        self.features.add("matrix_form_" + f)
                    self.features.add("matrix_field_" + fk)
                    self.features.add("matrix_name_" + n)
        self.features.add("member_matrix")

    def local_factory(self):
        """a class declared in a function's scope, deriving from a global class, with methods that capture a
        local variable; the class escapes through a closure"""
        r = self.r
        if not self.order:
            return
        parent = r.choice(self.order) if r.random() < 0.8 else None
        if parent and not self.classes[parent].get("bound_ok", True):
            parent = None
        lname = "L%d" % self.lab()
        fname = "mk%d" % self.nfun
        self.nfun += 1
        cls = self.gen_class(lname, parent, local=True)
        # the methods may read the captured local `cap`
        cls = cls.replace('(SPrint (EStr "%s.m' % lname, '(SPrint (EVar "cap")); (SPrint (EStr "%s.m' % lname, 1)
        body = [S_var("cap", E_var("t")), cls]
        style = r.random()
        if style < 0.4:
            body.append(S_ret(E_var(lname)))
        elif style < 0.8:
            body.append(S_fun("get", [], [S_ret(E_var(lname))]))
            body.append(S_ret(E_var("get")))
        else:
            body.append(S_fun("make", [], [S_ret(E_inv(E_var(lname), "new", self.args(self.classes[lname]["ctor"] or 0)))]))
            body.append(S_ret(E_var("make")))
        self.stmts.append(S_fun(fname, ["t"], body))
        self.globals.append(fname)
        tag = E_str("cap%d" % r.randint(0, 9))
        info = self.classes[lname]
        if style < 0.4:
            k = self.new_var("K")
            self.stmts.append(S_var(k, E_call(E_var(fname), [tag])))
        elif style < 0.8:
            g = self.new_var("g")
            self.stmts.append(S_var(g, E_call(E_var(fname), [tag])))
            k = self.new_var("K")
            self.stmts.append(S_var(k, E_call(E_var(g), [])))
        else:
            g = self.new_var("g")
            self.stmts.append(S_var(g, E_call(E_var(fname), [tag])))
            k = None
            if info["ctor"] is not None:
                v = self.new_var()
                self.stmts.append(S_var(v, E_call(E_var(g), [])))
                self.insts.append((v, lname))
        if k:
            self.classes[k] = info
            if info["ctor"] is not None:
                v = self.new_var()
                self.stmts.append(S_var(v, E_inv(E_var(k), "new", self.args(info["ctor"]))))
                self.insts.append((v, lname))
            if r.random() < 0.3:
                # a second class object from the same declaration (distinct identity, same name)
                k2 = self.new_var("K")
                self.stmts.append(S_var(k2, E_call(E_var(fname), [E_str("cap_b")])) if style < 0.4 else
                                  S_var(k2, E_call(E_call(E_var(fname), [E_str("cap_b")]), [])))
                self.stmts.append(S_print(E_eq(E_var(k), E_var(k2))))
        self.features.add("local_class_captured")

    def program(self):
        r = self.r
        n = r.randint(3, 8 if self.big else 6)
        # hierarchy: depth <= 4, width <= 3
        kids = {}

        def depth(c):
            return len(self.ancestors(c))

        for i in range(n):
            name = NAMES[i]
            cands = [c for c in self.order if depth(c) < 3 and kids.get(id(self.classes[c]), 0) < 3
                     and self.classes[c].get("bound_ok", True)]
            if cands and r.random() < 0.85:
                # prefer deepening
                cands.sort(key=lambda c: -depth(c))
                parent = cands[0] if r.random() < 0.55 else r.choice(cands)
            else:
                parent = None
            if parent:
                kids[id(self.classes[parent])] = kids.get(id(self.classes[parent]), 0) + 1
            self.stmts.append(self.gen_class(name, parent))
            # statements between definitions: rebinding before a later subclass is declared
            if r.random() < 0.2:
                self.construct(name)
            if i >= 1 and r.random() < 0.12:
                self.rebind()
        for c in self.order:
            if r.random() < 0.8:
                self.construct(c)
        if self.force_limit or r.random() < 0.3:
            # early in the program: the descent needs ~8 levels of the model's fuel per frame
            self.limit_scenario(kind=self.force_limit)
        if r.random() < 0.45:
            self.scoped_factory()
        if r.random() < 0.4:
            self.iterator_scenario()
        if self.force_matrix or r.random() < 0.2:
            self.member_matrix()
        k = r.randint(8, 22 if self.big else 16)
        for _ in range(k):
            c = r.random()
            if c < 0.55:
                self.use_instance()
            elif c < 0.72:
                self.use_class()
            elif c < 0.78:
                self.construct(r.choice(self.order))
            elif c < 0.83:
                self.rebind()
            elif c < 0.88:
                self.bad_superclass()
            elif c < 0.92:
                self.local_factory()
            elif c < 0.96:
                self.scoped_factory()
            else:
                self.use_instance()
        return "[" + ";\n ".join(self.stmts) + "]"


def fixed_programs():
    """hand-written programs of the mini-language that every run includes"""
    shape = S_class("Shape", None, None, [M_decl("KMethod", "derives", ["c"], [S_ret(E_str("Shape.derives"))], 1)], 2)
    polygon = S_class("Polygon", "Shape", "new", [
        M_decl("KMethod", "via_self", ["c"], [S_ret(E_inv("ESelf", "derives", [E_var("c")]))], 3),
        M_decl("KMethod", "via_super", ["c"], [S_ret(E_sinv("derives", [E_var("c")]))], 4)], 5)
    square = S_class("Square", "Polygon", "new", [], 6)
    circle = S_class("Circle", "Object", "new", [], 7)
    stmts = [shape, polygon, square, circle,
             S_var("p", E_inv(E_var("Polygon"), "new", [])),
             S_print(E_inv(E_var("p"), "derives", [E_var("Object")])),
             S_var("b", E_get(E_var("p"), "derives")),
             S_print(E_call(E_var("b"), [E_var("Object")])),
             S_print(E_inv(E_var("p"), "via_self", [E_var("Object")])),
             S_print(E_inv(E_var("p"), "via_super", [E_var("Object")])),
             S_var("q", E_inv(E_var("Square"), "new", [])),
             S_print(E_inv(E_var("q"), "derives", [E_var("Object")])),
             S_print(E_inv(E_var("q"), "via_self", [E_var("Shape")])),
             S_var("o", E_inv(E_var("Circle"), "new", [])),
             S_print(E_inv(E_var("o"), "derives", [E_var("Object")])),
             S_print(E_inv(E_var("o"), "derives", [E_var("Shape")])),
             S_try([S_print(E_inv(E_var("Shape"), "derives", [E_var("Object")]))]),
             S_print(E_inv(E_var("Circle"), "derives", [E_var("Object")]))]
    a = S_class("A", None, None, [M_decl("KMethod", "say", [], [S_print(E_str("A.say")), S_ret("ESelf")], 1),
                                  M_decl("KStatic", "who", [], [S_print("ECapSelf"), S_ret("ECapSelf")], 2)], 3)
    b = S_class("B", "A", "new", [
        M_decl("KMethod", "get", [], [S_fun("inner", [], [S_ret(E_sinv("say", []))]), S_ret(E_var("inner"))], 4),
        M_decl("KMethod", "get2", [], [S_fun("inner", [], [S_ret(E_sget("say"))]), S_ret(E_var("inner"))], 5),
        M_decl("KMethod", "say", [], [S_print(E_str("B.say"))], 6),
        M_decl("KStatic", "who", [], [S_fun("inner", [], [S_ret(E_sinv("who", []))]), S_ret(E_call(E_var("inner"), []))], 7)], 8)
    nested = [a, b, S_var("x", E_inv(E_var("B"), "new", [])),
              S_print(E_eq(E_call(E_inv(E_var("x"), "get", []), []), E_var("x"))),
              S_var("g", E_call(E_inv(E_var("x"), "get2", []), [])),
              S_print(E_eq(E_call(E_var("g"), []), E_var("x"))),
              S_print(E_eq(E_inv(E_var("B"), "who", []), E_var("B"))),
              S_print(E_eq(E_inv(E_var("x"), "who", []), E_var("B")))]
    # a class factory in a STATIC method of another class (directly and inside a lambda): the inner class's initialiser
    # and methods use super; their receiver is the inner method's own self, not the factory's Self
    P = S_class("P", None, None, [
        M_decl("KInit", "new", ["a"], [S_setf("ESelf", "f0", E_var("a"))], 1),
        M_decl("KMethod", "m", [], [S_print(E_str("P.m")), S_print(E_get("ESelf", "f0")), S_ret("ESelf")], 2),
        M_decl("KMethod", "describe", [], [S_ptype("ESelf"), S_ret(E_get("ESelf", "f0"))], 3)], 4)

    def inner(nm, l0):
        return S_class(nm, "P", None, [
            M_decl("KInit", "new", ["a"], [S_print(E_var("t")), S_expr(E_sinv("new", [E_var("a")]))], l0),
            M_decl("KMethod", "m", [], [S_print(E_str(nm + ".m")), S_ret(E_sinv("m", []))], l0 + 1),
            M_decl("KMethod", "describe", [], [S_var("sf", E_sget("describe")), S_ret(E_call(E_var("sf"), []))], l0 + 2)], l0 + 3)

    F = S_class("F", None, "new", [
        M_decl("KStatic", "build", ["t"], [inner("I", 5), S_ret(E_var("I"))], 9),
        M_decl("KStatic", "build2", ["t"], [S_fun("lam", [], [inner("J", 10), S_ret(E_var("J"))], 1), S_ret(E_call(E_var("lam"), []))], 14),
        M_decl("KMethod", "build3", ["t"], [inner("L", 15), S_ret(E_var("L"))], 19)], 20)
    factory = [P, F]
    for i, (how, arg) in enumerate([(E_inv(E_var("F"), "build", [E_str("cap1")]), 5),
                                    (E_inv(E_var("F"), "build2", [E_str("cap2")]), 6),
                                    (E_inv(E_inv(E_var("F"), "new", []), "build", [E_str("cap3")]), 7),
                                    (E_inv(E_inv(E_var("F"), "new", []), "build3", [E_str("cap4")]), 8)]):
        K, x = "K%d" % i, "x%d" % i
        factory += [S_var(K, how), S_var(x, E_inv(E_var(K), "new", [E_num(arg)])),
                    S_try([S_print(E_get(E_var(x), "f0"))]),
                    S_try([S_print(E_eq(E_inv(E_var(x), "m", []), E_var(x)))]),
                    S_try([S_print(E_inv(E_var(x), "describe", []))])]
    return [{"term": "[" + ";\n ".join(stmts) + "]", "globals": ["Shape", "Polygon", "Square", "Circle", "p", "b", "q", "o"],
             "features": ["fixed:object_method_override"]},
            {"term": "[" + ";\n ".join(factory) + "]", "globals": ["P", "F"] + ["K%d" % i for i in range(4)] + ["x%d" % i for i in range(4)],
             "features": ["fixed:class_factory_in_static_method"]},
            {"term": "[" + ";\n ".join(nested) + "]", "globals": ["A", "B", "x", "g"],
             "features": ["fixed:super_in_nested_fn"]},
            fixed_iterator_program()] + fixed_limit_programs() + fixed_matrix_programs()


def fixed_limit_programs():
    """every error of the property through every call path with exactly FRAMES_MAX and FRAMES_MAX - 1 frames on the fiber,
    the descent to the limit taken through each call path in turn (two programs, 5 descents each, the full probe list)"""
    out = []
    kinds = Gen.LIMIT_KINDS
    for j, ks in enumerate([kinds[0::2], kinds[1::2]]):
        g = Gen(yvlib.Rng(11 + j))
        for kind in ks:
            g.limit_scenario(kind=kind, full=True)
        out.append({"term": "[" + ";\n ".join(g.stmts) + "]", "globals": list(dict.fromkeys(g.globals)),
                    "features": ["fixed:errors_at_the_frame_limit_%d" % j] + sorted(g.features)})
    return out


def fixed_matrix_programs():
    """the full member-access matrix (every form x every place of the name x every kind of shadowing field), in one program"""
    out = []
    for j in range(1):
        g = Gen(yvlib.Rng(23 + j))
        # the receiver alternates from cell to cell between an instance of the class that declares the accessors and an
        # instance of a subclass that inherits them
        g.member_matrix(receivers=["B", "C"], full=True, alternate=True)
        out.append({"term": "[" + ";\n ".join(g.stmts) + "]", "globals": list(dict.fromkeys(g.globals)),
                    "features": ["fixed:member_access_matrix_%d" % j] + sorted(g.features)})
    return out


def fixed_iterator_program():
    """a field named `next` / `iter` (bound method of another instance, closure, plain data) shadows the method of a
    3-level iterator hierarchy with a middle override, on every explicit and implicit access path"""
    g = Gen(yvlib.Rng(7))
    g.iterator_scenario(fixed={"levels": 3, "iter_override": 2,
                               "kinds": ["bound", "closure", "data", "iter_bound", "iter_closure"],
                               "paths": ["call", "value", "for", "map", "reduce", "nested"]})
    return {"term": "[" + ";\n ".join(g.stmts) + "]", "globals": list(dict.fromkeys(g.globals)),
            "features": ["fixed:field_shadows_implicit_member"]}


def gen_program(rng, big=False, force_limit=None, force_matrix=False):
    g = Gen(rng, big, force_limit, force_matrix)
    term = g.program()
    return {"term": term, "globals": list(dict.fromkeys(g.globals)), "features": sorted(g.features)}


# ------------------------------------------------------------------------------------------
# evaluation


def model_eval(cases, tag):
    shard = max(4, min(40, (len(cases) + yvlib.NPROC - 1) // yvlib.NPROC))
    res = yvlib.coq_eval(["YV:ClassLang"], ["run_case %s" % c["term"] for c in cases], shard_size=shard, tag=tag,
                         preamble="Open Scope string_scope.")
    out = []
    for c, s in zip(cases, res):
        if s is None:
            out.append(None)
            continue
        f = s.split("@")
        if len(f) != 8:
            out.append(None)
            continue
        out.append({"spec": f[0], "mech": f[1], "tables": f[2], "nontrivial": f[3] == "T", "known": f[4] == "T",
                    "src": f[5].replace("~", "\n"), "mech_meta": f[6], "src_meta": f[7].replace("~", "\n")})
    return out


def impl_outcome(rec):
    """the harness record in the format of ClassLang.show_outcome"""
    k, v = rec.result
    if k == "ok":
        tail = "ok"
    elif k == "err":
        msgs = rec.messages
        m = msgs[0] if msgs else ""
        mm = re.match(r"Unhandled (\w+): (.*)$", m)
        tail = "err:%s:%s" % (mm.group(1), mm.group(2)) if mm else "err:%s:%s" % (v, m)
    else:
        tail = "%s:%s" % (k, v)
    return "~".join(rec.output) + "#" + tail


def labels_of(src):
    m = {}
    for i, l in enumerate(src.split("\n")):
        mm = re.search(r"// L(\d+)$", l)
        if mm:
            m[i + 1] = int(mm.group(1))
    return m


def impl_tables(rec, src):
    """list of class records in the format of ClassLang.show_cls"""
    line2lab = labels_of(src)
    out = []

    def tb(t):
        if t == "-":
            return ""
        ent = []
        for e in t.split(","):
            k, idn = e.split("=")
            if idn not in ("native", "other"):
                a = idn.split("/")
                where = "core" if a[2] == "core" else "L%s" % line2lab.get(int(a[2]), "?%s" % a[2])
                idn = "%s/%s/%s" % (yvlib.unhx(a[0]).decode(), a[1], where)
            ent.append("%s=%s" % (yvlib.unhx(k).decode(), idn))
        return ",".join(ent)

    for f in rec.tagged("CL"):
        name = yvlib.unhx(f[0]).decode()
        sup = "-" if f[1] == "-" else yvlib.unhx(f[1]).decode()
        out.append("%s:%s:%s:%s:%s" % (name, sup, yvlib.unhx(f[2]).decode(), tb(f[3]), tb(f[4])))
    return out


def compare(ctx, cases, models, recs, recs_meta, stats):
    """returns the list of (index, kind, detail) of failures"""
    fails = []
    for i, (c, m, rec, recm) in enumerate(zip(cases, models, recs, recs_meta)):
        if m is None:
            ctx.broken.append("model evaluation failed for a generated program (coq_eval)")
            stats["model_failed"] += 1
            continue
        for key in ("spec", "mech", "mech_meta"):
            if "STUCK" in m[key].split("#")[-1] or m[key].endswith("#FUEL"):
                stats["model_stuck"] += 1
                fails.append((i, "model", "%s: %s" % (key, m[key].split("#")[-1])))
        impl = impl_outcome(rec)
        implm = impl_outcome(recm)
        tabs = impl_tables(rec, m["src"])
        mtabs = m["tables"].split(";")
        stats["classes_compared"] += len(tabs)
        if impl != m["mech"]:
            fails.append((i, "impl!=M", {"impl": impl, "mech": m["mech"]}))
        bad = [t for t in tabs if t not in mtabs]
        if bad:
            fails.append((i, "tables", {"impl": bad, "mech": mtabs}))
        if m["known"]:
            stats["nested_super_programs"] += 1
        if m["spec"] != m["mech"]:
            fails.append((i, "M!=S", {"spec": m["spec"], "mech": m["mech"]}))
        if impl != m["spec"]:
            fails.append((i, "impl!=S", {"impl": impl, "spec": m["spec"]}))
        if implm != impl:
            fails.append((i, "metamorphic", {"invoke": impl, "get_then_call": implm}))
        if m["mech_meta"] != m["mech"]:
            fails.append((i, "M-metamorphic", {"invoke": m["mech"], "get_then_call": m["mech_meta"]}))
        if m["nontrivial"]:
            stats["nontrivial"].add(m["src"])
    return fails


def run_batch(ctx, cases, tag, stats):
    import time
    t0 = time.time()
    binary = os.environ.get("C07_HARNESS") or ctx.harness("debug")
    fast = os.environ.get("C07_HARNESS") or ctx.harness("release")
    models = model_eval(cases, tag)
    t1 = time.time()
    lines, lines_meta = [], []
    for c, m in zip(cases, models):
        src = m["src"] if m else "print(1);"
        srcm = m["src_meta"] if m else "print(1);"
        lines.append("classes - %s %s" % (hx(src), " ".join(hx(g) for g in c["globals"])))
        lines_meta.append("run - %s" % hx(srcm))
    recs = yvlib.run_harness(binary, lines, case_timeout_ms=10000)
    recs_meta = yvlib.run_harness(fast, lines_meta, case_timeout_ms=10000)
    log("[C07] %s: %d programs, model %.1fs, implementation %.1fs" % (tag, len(cases), t1 - t0, time.time() - t1))
    return models, recs, recs_meta


def split_top(term):
    """top-level statements of a generated program term (the generator joins them with ';\\n ')"""
    return term[1:-1].split(";\n ")


def shrink(ctx, case, kind, stats):
    """greedy deletion of top-level statements, at most 3 rounds of one batch each"""
    cur = split_top(case["term"])
    for rnd in range(3):
        cands = []
        for i in range(len(cur)):
            t = cur[:i] + cur[i + 1:]
            cands.append({"term": "[" + ";\n ".join(t) + "]", "globals": case["globals"], "features": case["features"]})
        cands = cands[-30:]
        if not cands:
            break
        st = new_stats()
        models, recs, recsm = run_batch(ctx, cands, "c07_shrink", st)
        fails = compare(Dummy(), cands, models, recs, recsm, st)
        still = sorted({i for i, k, d in fails if k == kind})
        if not still:
            break
        cur = split_top(cands[still[-1]]["term"])
    return "[" + ";\n ".join(cur) + "]"


class Dummy:
    def __init__(self):
        self.broken = []



def new_stats():
    return {"model_failed": 0, "model_stuck": 0, "classes_compared": 0, "nested_super_programs": 0, "nontrivial": set()}


def report(ctx, cases, models, fails, stats, do_shrink=True):
    seen_kinds = set()
    nviol = 0
    for i, kind, detail in fails:
        c, m = cases[i], models[i]
        if kind == "model":
            ctx.broken.append("model stuck / out of fuel on a generated program: %s" % detail)
            continue
        if kind in ("M!=S", "M-metamorphic"):
            if kind not in seen_kinds:
                ctx.broken.append("%s on a generated program (contradicts eval_mech_eq_spec / invoke_eq_get_then_call: "
                                  "the evaluation or the rendering is broken): %s\n%s" % (kind, detail, m["src"]))
            seen_kinds.add(kind)
            continue
        if kind in ("impl!=M", "tables"):
            if kind not in seen_kinds:
                ctx.corr_broken.append("%s: %s" % (kind, str(detail)[:600]))
            seen_kinds.add(kind)
            if kind == "tables" and nviol < 5:
                # a table that differs from the copy-down of the declared ancestry is a violation witness too
                ctx.violation("class tables differ from the model's", input={"source": m["src"], "term": c["term"], "globals": c["globals"]},
                              expected=detail["mech"], actual=detail["impl"])
                nviol += 1
            continue
        if nviol >= 5:
            continue
        term = c["term"]
        src = m["src"]
        if do_shrink and nviol == 0 and not any(f.startswith("fixed:") for f in c["features"]):
            # (the hand-written fixed programs are reported as they are)
            try:
                term = shrink(ctx, c, kind, stats)
                mm = model_eval([{"term": term}], "c07_shrunk")[0]
                if mm:
                    src = mm["src"]
            except Exception as e:   # shrinking is best effort
                ctx.notes.append("shrinking failed: %r" % e)
        extra = {}
        if nviol == 0 and kind == "impl!=S":
            try:
                v = yvlib.coq_eval(["YV:ClassLang"], ["variant_case %s" % c["term"]], shard_size=1, tag="c07_variant",
                                   preamble="Open Scope string_scope.")[0]
                if v:
                    old, anyst, iterfc = v.split("@")
                    impl_o = detail.get("impl")
                    extra["implementation_behaves_like_model_variant"] = (
                        "SuperRunningFrame (super_ before 0fbde2d)" if impl_o == old else
                        "SuperAnyStaticSelf (receiver = Self of any enclosing static method)" if impl_o == anyst else
                        "IterFromClass (IterNext bypasses the instance's field `next`)" if impl_o == iterfc else "none")
            except Exception as e:
                extra["variant_diagnosis_failed"] = repr(e)
        ctx.violation("%s on a generated class program" % kind, input={"source": src, "term": term, "globals": c["globals"]},
                      expected=detail.get("spec", detail.get("invoke")), actual=detail.get("impl", detail.get("get_then_call")),
                      features=c["features"], **extra)
        nviol += 1


FINDING_WITNESS = '''class A {
  fn say(self) { print("A.say"); return self; }
}
#[constructor(new), derive(A)]
class B {
  fn get(self) {
    fn inner() { return super.say(); }
    return inner;
  }
  fn say(self) { print("B.say"); }
}
var b = B.new();
print(b.get()() == b);
'''


def regression_probe(ctx):
    """the witness of the finding recorded in notes/C07-findings.json (fixed by /repo commit 0fbde2d): inside a function
    nested in a method, `super.m()` must run with the METHOD's self.  Spec: prints A.say, true."""
    binary = os.environ.get("C07_HARNESS") or ctx.harness("debug")
    rec = yvlib.run_harness(binary, ["run - %s" % hx(FINDING_WITNESS)])[0]
    got = rec.output
    if got != ["A.say", "true"] or rec.result[0] != "ok":
        ctx.violation("super inside a nested function does not use the enclosing method's self (regression of %s)"
                      % FIXED_SUPER_NESTED, input={"source": FINDING_WITNESS}, expected=["A.say", "true"], actual=got)


def refspec_outcome(text):
    """YV.SpecScripts.run_case text -> the format of ClassLang.show_outcome (None when out of fuel / unparsable)"""
    m = re.match(r"out=\[(.*?)\];res=(.*)$", text or "")
    if not m:
        return None
    lines = [yvlib.unhx(h).decode("utf-8", "replace") for h in m.group(1).split(",")] if m.group(1) else []
    res = m.group(2)
    if res.startswith("ok:"):
        tail = "ok"
    elif res.startswith("err:"):
        mm = re.match(r"err:(\w+):\[(.*?)\]$", res)
        if not mm:
            return None
        msgs = [yvlib.unhx(h).decode("utf-8", "replace") for h in mm.group(2).split(",")] if mm.group(2) else [""]
        m2 = re.match(r"Unhandled (\w+): (.*)$", msgs[0])
        tail = "err:%s:%s" % (m2.group(1), m2.group(2)) if m2 else "err:%s:%s" % (mm.group(1), msgs[0])
    else:
        return None
    return "~".join(lines) + "#" + tail


def other_reference(ctx, cases, models, recs, limit):
    """the full reference interpreter of the other checks (SpecScripts.run_case over the parser model), when built"""
    need = ["SpecRun.v", "ParseRun.v", "SpecScripts.vo"]
    if not all(os.path.exists(os.path.join(yvlib.COQ, "theories", f)) for f in need):
        ctx.notes.append("SpecRun.v/ParseRun.v (full reference interpreter) not built: that comparison is skipped")
        return
    # the descents to the frame limit are expensive in the full interpreter (measured: the two fixed limit programs alone
    # ~4 min under load; they agreed): the quick tier takes ONE generated program with a descent, the thorough tier 6
    def is_limit(i):
        return any(f.startswith("limit_descent") for f in cases[i]["features"])
    plain = [i for i, m in enumerate(models) if m and not is_limit(i)]
    lim = [i for i, m in enumerate(models) if m and is_limit(i)]
    lim_take = [i for i in lim if not cases[i]["features"][0].startswith("fixed:")][:1 if ctx.quick() else 6]
    idx = sorted(plain[:max(0, limit - len(lim_take))] + lim_take)
    ctx.cov["reference_interpreter_limit_programs"] = len(lim_take)
    terms = ['run_case 400 nil "%s"' % hx(models[i]["src"]) for i in idx]
    shard = max(2, min(20, (len(terms) + yvlib.NPROC - 1) // yvlib.NPROC))
    try:
        res = yvlib.coq_eval(["YV:SpecScripts"], terms, shard_size=shard, tag="c07_refspec", preamble="Open Scope string_scope.")
    except Exception as e:
        ctx.notes.append("reference interpreter could not be evaluated: %r" % e)
        return
    agree = differ = skipped = 0
    first = None
    for i, t in zip(idx, res):
        ro = refspec_outcome(t)
        if ro is None:
            skipped += 1
            continue
        impl = impl_outcome(recs[i])
        if ro == impl:
            agree += 1
        else:
            differ += 1
            if first is None:
                first = {"source": models[i]["src"], "reference": ro, "impl": impl, "this_check_spec": models[i]["spec"]}
    ctx.cov.update({"reference_interpreter_programs": len(idx), "reference_interpreter_agree": agree,
                    "reference_interpreter_differ": differ, "reference_interpreter_skipped": skipped})
    if differ:
        # impl == S of this check is decided above; a disagreement with the other Spec is reported, not decided, here
        ctx.cov["reference_interpreter_first_difference"] = first
        ctx.notes.append("%d programs on which the implementation differs from the full reference interpreter "
                         "(SpecScripts.run_case); first one in coverage.reference_interpreter_first_difference" % differ)


# ------------------------------------------------------------------------------------------
# round 9: the SCALE family (tools/props/C07_scale.py): result known by construction at every size


def scale_diff(prog, rec):
    """None when the harness record shows exactly the expected lines, else a description of the first difference"""
    exp = prog["expected"]
    if rec.result[0] == "ok" and rec.output == exp:
        return None
    d = next((i for i, (a, b) in enumerate(zip(rec.output, exp)) if a != b), None)
    if d is None:
        return {"result": list(rec.result), "messages": rec.messages[:2], "printed_lines": len(rec.output), "expected_lines": len(exp)}
    return {"first_wrong_line": d + 1, "expected": exp[d], "actual": rec.output[d], "result": list(rec.result),
            "wrong_lines": sum(1 for a, b in zip(rec.output, exp) if a != b), "printed_lines": len(rec.output),
            "expected_lines": len(exp)}


def scale_family(ctx, ladder=None):
    """every dimension of the class programs pushed through the ladder 17..300, one at a time; debug build for the small
    sizes, release build for all sizes; a case that fails or times out is re-run alone before it is believed"""
    import time
    from props import C07_scale
    t0 = time.time()
    rng = yvlib.Rng(ctx.seed * 104729 + 9)
    progs = C07_scale.programs(rng, ladder)
    fixed_bin = os.environ.get("C07_HARNESS")
    builds = [("release", fixed_bin or ctx.harness("release"), progs)]
    if not fixed_bin:
        builds.append(("debug", ctx.harness("debug"), [p for p in progs if p["size"] <= 70]))
    nviol = 0
    lines = 0
    for bname, binary, ps in builds:
        recs = yvlib.run_harness(binary, ["run - %s" % hx(p["source"]) for p in ps], case_timeout_ms=60000)
        bad = []
        for p, rec in zip(ps, recs):
            lines += len(p["expected"])
            if scale_diff(p, rec) is not None:
                bad.append(p)
        bad.sort(key=lambda p: (p["size"], p["family"]))
        seen = set()
        for p in bad:
            if p["family"] in seen or nviol >= 4:
                continue
            rec = yvlib.run_harness(binary, ["run - %s" % hx(p["source"])], case_timeout_ms=120000, shards=1)[0]   # alone
            d = scale_diff(p, rec)
            if d is None:
                ctx.notes.append("scale program %s/%d (%s build) failed in the batch but passes alone (machine load)" % (p["family"], p["size"], bname))
                continue
            if "first_wrong_line" not in d and list(rec.result) == ["crash", "timeout"]:
                # no wrong line was printed; the time limit alone (2 minutes for <= 4200 lines) is not evidence on a loaded machine
                ctx.notes.append("scale program %s/%d (%s build) timed out twice (alone: 120 s): inconclusive, not reported as a violation"
                                 % (p["family"], p["size"], bname))
                continue
            seen.add(p["family"])
            nviol += 1
            ctx.violation("scale family %s at size %d: a member access reaches another member than the one named (or the run fails); "
                          "every method returns the name of its (class, method) pair" % (p["family"], p["size"]),
                          input={"source": p["source"], "scale_family": p["family"], "size": p["size"], "build": bname,
                                 "expected_output": p["expected"]},
                          expected=d.get("expected", "ok"), actual=d.get("actual", d.get("result")), detail=d,
                          failing_sizes=sorted({q["size"] for q in bad if q["family"] == p["family"]}))
    ctx.cov["scale_family"] = {"programs": len(progs), "families": sorted(C07_scale.BUILDERS), "ladder": ladder or C07_scale.LADDER,
                               "lines_compared": lines, "builds": [b[0] for b in builds], "wall_s": round(time.time() - t0, 1)}
    log("[C07] scale family: %d programs, %d lines, %.1fs, %d violations" % (len(progs), lines, time.time() - t0, nviol))


def scale_replay(ctx, inp):
    binary = os.environ.get("C07_HARNESS") or ctx.harness(inp.get("build", "release"))
    rec = yvlib.run_harness(binary, ["run - %s" % hx(inp["source"])], case_timeout_ms=120000, shards=1)[0]
    d = scale_diff({"expected": inp["expected_output"]}, rec)
    if d is not None:
        ctx.violation("scale family %s at size %s (replay)" % (inp.get("scale_family"), inp.get("size")), input=inp,
                      expected=d.get("expected", "ok"), actual=d.get("actual", d.get("result")), detail=d)


def run(ctx):
    if ctx.replay_only is not None:
        inp = ctx.replay_only.get("input", {})
        if "expected_output" in inp:
            scale_replay(ctx, inp)
            ctx.cov.update({"evaluations": 1, "distinct_nontrivial": 0, "rule": "replay of one scale program", "samples": [inp.get("scale_family", "")]})
            return
        if "term" not in inp:
            regression_probe(ctx)
            ctx.cov.update({"evaluations": 1, "distinct_nontrivial": 0, "rule": "replay", "samples": [inp]})
            return
        cases = [{"term": inp["term"], "globals": inp.get("globals", []), "features": []}]
        stats = new_stats()
        models, recs, recsm = run_batch(ctx, cases, "c07_replay", stats)
        fails = compare(ctx, cases, models, recs, recsm, stats)
        report(ctx, cases, models, fails, stats, do_shrink=False)
        ctx.cov.update({"evaluations": 1, "distinct_nontrivial": len(stats["nontrivial"]), "rule": "replay of one program",
                        "samples": [inp.get("source", "")]})
        return
    n = int(os.environ.get("C07_N", "0")) or (320 if ctx.quick() else 1600)
    cases = [gen_program(ctx.rng, big=(i % 3 == 2)) for i in range(n)]
    # the hand-written programs are the expensive ones for the model (descents to the frame limit, the full member-access
    # matrix): spread over the shards of the model evaluation instead of all in the first one
    fx = fixed_programs()
    gap = max(1, len(cases) // len(fx))
    for j, f in enumerate(fx):
        cases.insert(j * (gap + 1), f)
    stats = new_stats()
    models, recs, recsm = run_batch(ctx, cases, "c07", stats)
    fails = compare(ctx, cases, models, recs, recsm, stats)
    report(ctx, cases, models, fails, stats)
    regression_probe(ctx)
    scale_family(ctx)
    other_reference(ctx, cases, models, recs, 32 if ctx.quick() else 200)
    feats = {}
    for c in cases:
        for f in c["features"]:
            feats[f] = feats.get(f, 0) + 1
    outcomes = {}
    for m in models:
        if m:
            k = m["mech"].split("#")[-1].split(":")[0:2]
            outcomes[":".join(k)] = outcomes.get(":".join(k), 0) + 1
    lines = [len(m["mech"].split("#")[0].split("~")) for m in models if m]
    sample = next((m["src"] for m in models if m and m["nontrivial"]), models[0]["src"] if models[0] else "")
    ctx.cov.update({
        "evaluations": len(cases),
        "programs": len(cases),
        "distinct_nontrivial": len(stats["nontrivial"]),
        "rule": "random programs of the mini-language ClassLang.v (3-8 classes, depth <= 4, width <= 3; see "
                "input_distribution); a program is non-trivial when its evaluation trace (measured in eval_mech) contains a "
                "dispatch through an instance whose class inherits the member from a class that itself overrides an "
                "ancestor's definition AND a super access; distinct = distinct source text",
        "samples": [sample, cases[0]["term"][:1500]],
        "input_distribution": feats,
        "final_outcomes": outcomes,
        "printed_lines_total": sum(lines),
        "classes_compared_with_tables": stats["classes_compared"],
        "programs_with_super_in_a_nested_function": stats["nested_super_programs"],
        "comparisons_per_program": "impl==M (output, outcome, class tables), impl==S, M==S, metamorphic impl, metamorphic M",
        "traces_validated_against_impl": len(cases),
    })


def search(ctx):
    """obligations or correspondences are broken and no violation was found: look for a failing input with further,
    bigger programs compared with the Spec.  Bounded: batches of 160 programs until a failing input is found, at most
    3 batches (quick) / 6 (thorough) and at most ~4 minutes of wall time."""
    import time
    if ctx.replay_only is not None:
        return
    t0 = time.time()
    rng = yvlib.Rng(ctx.seed * 7919 + 7)
    total = 0
    for batch in range(3 if ctx.quick() else 6):
        if time.time() - t0 > 240:
            ctx.notes.append("search stopped after %.0f s (time bound)" % (time.time() - t0))
            break
        # directed families first: the fixed programs and one descent to the frame limit per call path
        directed = (fixed_programs() + [gen_program(rng, big=False, force_limit=k) for k in Gen.LIMIT_KINDS * 3]
                    + [gen_program(rng, big=False, force_matrix=True) for _ in range(20)]) if batch == 0 else []
        cases = directed + [gen_program(rng, big=True) for _ in range(160 - len(directed))]
        stats = new_stats()
        try:
            models, recs, recsm = run_batch(ctx, cases, "c07_search", stats)
        except Exception as e:
            ctx.notes.append("search could not run: %r" % e)
            break
        total += len(cases)
        fails = [f for f in compare(Dummy(), cases, models, recs, recsm, stats) if f[1] in ("impl!=S", "metamorphic", "tables")]
        if fails:
            keep = []
            for f in fails:
                if f[1] != "tables" or not keep:
                    keep.append(f)
            report(ctx, cases, models, keep, stats, do_shrink=False)
            break
    ctx.cov["search_programs"] = total
    ctx.cov["search_wall_s"] = round(time.time() - t0, 1)
