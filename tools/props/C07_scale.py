"""C07 round 9 - SCALE family: yarel class programs whose result is known BY CONSTRUCTION at every size.

Every method returns a string that names (class, method) - "W.m17" -, every access form of the property reaches it
(invoke `x.m()`, bound value `var b = x.m; b()`, method stored in a field, `super.m()`, bound `super.m`, static through the
class / through an instance / bound), and every (class, member) pair is visited several times in different orders, so the
expected output is a closed-form function of the size: no model evaluation of a 300-method program is needed.  One
dimension is pushed per program through the ladder LADDER: methods per class, classes, distinct (class, method) pairs,
fields per instance, hierarchy depth, instances.  A hidden threshold of the implementation (a method / field cache, an
inline-cache capacity, a table growth step, a batch size) that changes which member an access reaches, or which receiver a
bound method keeps, shows as a wrong line.

The sources use only the concrete syntax that ClassLang.render emits (attributes, `fn`, `#[static] fn`, `#[constructor] fn`,
blocks, `var`, field assignment, `print`, string `+`)."""

LADDER = [17, 33, 65, 70, 129, 300]
DIMENSIONS = ["methods", "classes", "pairs", "fields", "depth", "instances", "redeclare"]


class Prog:
    def __init__(self):
        self.lines = []
        self.expected = []

    def add(self, *ls):
        self.lines.extend(ls)

    def show(self, expr, expected):
        self.lines.append("print(%s);" % expr)
        self.expected.append(expected)

    def show_bound(self, expr, expected, args=""):
        """the value form: the member is taken first, called afterwards"""
        self.lines.append("{ var b_ = %s; print(b_(%s)); }" % (expr, args))
        self.expected.append(expected)

    def cls(self, name, methods=(), statics=(), parent=None, ctor="new", init=None):
        attrs = []
        if ctor and not init:
            attrs.append("constructor(%s)" % ctor)
        if parent:
            attrs.append("derive(%s)" % parent)
        if attrs:
            self.lines.append("#[%s]" % ", ".join(attrs))
        self.lines.append("class %s {" % name)
        if init:
            self.lines.append("  #[constructor] fn new(self%s) { %s }" % ("".join(", " + p for p in init[0]), init[1]))
        for n, body in methods:
            self.lines.append("  fn %s(self) { %s }" % (n, body))
        for n, body in statics:
            self.lines.append("  #[static] fn %s() { %s }" % (n, body))
        self.lines.append("}")

    def source(self):
        return "\n".join(self.lines) + "\n"


def ret(s):
    return 'return "%s";' % s


def orders(rng, n):
    """the orders in which the n items are visited: as declared, a random permutation, reversed, a stride walk"""
    ident = list(range(n))
    perm = list(ident)
    rng.shuffle(perm)
    stride = next(s for s in (7, 11, 13, 17, 19, 23) if n % s != 0)
    walk = [(i * stride) % n for i in range(n)]
    return [ident, perm, list(reversed(ident)), walk]


def prog_methods(rng, n):
    """ONE class with n methods and n static methods, a subclass that overrides every third one and reaches all of them
    through `super` (call and value form)"""
    p = Prog()
    p.cls("W", [("m%d" % k, ret("W.m%d" % k)) for k in range(n)], [("s%d" % k, ret("W.s%d" % k)) for k in range(n)])
    vm = []
    for k in range(n):
        if k % 3 == 0:
            vm.append(("m%d" % k, 'return "V.m%d>" + super.m%d();' % (k, k)))
        vm.append(("u%d" % k, "return super.m%d();" % k))
        vm.append(("v%d" % k, "var b_ = super.m%d; return b_();" % k))
    p.cls("V", vm, [("t%d" % k, "return super.s%d();" % k) for k in range(n)], parent="W")
    p.add("var x = W.new();", "var y = V.new();", "var z = W.new();")

    def vexp(k):
        return "V.m%d>W.m%d" % (k, k) if k % 3 == 0 else "W.m%d" % k

    for rnd, order in enumerate(orders(rng, n)):
        for k in order:
            if rnd == 0:
                p.show("x.m%d()" % k, "W.m%d" % k)
            elif rnd == 1:
                p.show("x.m%d()" % k, "W.m%d" % k)
                p.show_bound("x.m%d" % k, "W.m%d" % k)
                p.show("y.m%d()" % k, vexp(k))
            elif rnd == 2:
                p.show("y.u%d()" % k, "W.m%d" % k)
                p.show("y.v%d()" % k, "W.m%d" % k)
                p.show("W.s%d()" % k, "W.s%d" % k)
                p.show("x.m%d()" % k, "W.m%d" % k)
            else:
                p.show("y.s%d()" % k, "W.s%d" % k)
                p.show("V.t%d()" % k, "W.s%d" % k)
                p.show_bound("W.s%d" % k, "W.s%d" % k)
                p.show_bound("y.m%d" % k, vexp(k))
                p.add("z.h = x.m%d;" % k)
                p.show("z.h()", "W.m%d" % k)
                p.show("y.u%d()" % k, "W.m%d" % k)
    return p


def prog_classes(rng, n, interleaved=False):
    """n classes with the SAME member names; every one answers with its own name"""
    p = Prog()
    for k in range(n):
        p.cls("C%d" % k, [("id", ret("C%d.id" % k)), ("who", ret("C%d.who" % k))], [("make", ret("C%d.make" % k))])
        p.add("var x%d = C%d.new();" % (k, k))
        if interleaved:
            # a class declaration between two invokes of the same pair
            p.show("x%d.id()" % k, "C%d.id" % k)
            j = rng.randint(0, k)
            p.show("x%d.id()" % j, "C%d.id" % j)
            p.show("x%d.who()" % j, "C%d.who" % j)
    for rnd, order in enumerate(orders(rng, n)):
        for k in order:
            if rnd == 0:
                p.show("x%d.id()" % k, "C%d.id" % k)
            elif rnd == 1:
                p.show("x%d.who()" % k, "C%d.who" % k)
                p.show("x%d.id()" % k, "C%d.id" % k)
                p.show("C%d.make()" % k, "C%d.make" % k)
            elif rnd == 2:
                p.show_bound("x%d.id" % k, "C%d.id" % k)
                p.show("x%d.id()" % k, "C%d.id" % k)
                p.show("x%d.make()" % k, "C%d.make" % k)
            else:
                p.show("x%d.who()" % k, "C%d.who" % k)
                p.show_bound("C%d.make" % k, "C%d.make" % k)
                p.show("x%d.derives(C%d)" % (k, k), "true")
                p.show("x%d.derives(C%d)" % (k, (k + 1) % n), "false")
    return p


def prog_pairs(rng, n):
    """a grid of a classes x b methods (a*b >= n), subclasses in pairs: (class, method) pairs in a random global order"""
    a = 2
    while a * a < n:
        a += 1
    b = (n + a - 1) // a
    p = Prog()
    for i in range(a):
        ms = [("m%d" % j, ret("G%d.m%d" % (i, j))) for j in range(b)]
        p.cls("G%d" % i, ms, [("s%d" % j, ret("G%d.s%d" % (i, j))) for j in range(b)])
        # a subclass that overrides the odd ones
        p.cls("H%d" % i, [("m%d" % j, 'return "H%d.m%d>" + super.m%d();' % (i, j, j)) for j in range(b) if j % 2], parent="G%d" % i)
        p.add("var g%d = G%d.new();" % (i, i), "var h%d = H%d.new();" % (i, i))
    pairs = [(i, j) for i in range(a) for j in range(b)]

    def hexp(i, j):
        return "H%d.m%d>G%d.m%d" % (i, j, i, j) if j % 2 else "G%d.m%d" % (i, j)

    for rnd, order in enumerate(orders(rng, len(pairs))):
        for q in order:
            i, j = pairs[q]
            if rnd == 0:
                p.show("g%d.m%d()" % (i, j), "G%d.m%d" % (i, j))
            elif rnd == 1:
                p.show("h%d.m%d()" % (i, j), hexp(i, j))
                p.show("g%d.m%d()" % (i, j), "G%d.m%d" % (i, j))
            elif rnd == 2:
                p.show_bound("g%d.m%d" % (i, j), "G%d.m%d" % (i, j))
                p.show("G%d.s%d()" % (i, j), "G%d.s%d" % (i, j))
                p.show("h%d.s%d()" % (i, j), "G%d.s%d" % (i, j))
            else:
                p.show("g%d.m%d()" % (i, j), "G%d.m%d" % (i, j))
                p.show_bound("h%d.m%d" % (i, j), hexp(i, j))
    return p


def prog_fields(rng, n):
    """one instance with n fields (data, bound methods of another instance, plain functions); fields that shadow methods
    AFTER the methods were invoked; a second instance of the same class stays as it was"""
    p = Prog()
    p.cls("F", [("m%d" % k, ret("F.m%d" % k)) for k in range(n)])
    p.add("var x = F.new();", "var y = F.new();", "var o = F.new();")
    p.add('fn plain() { return "plain"; }')
    for k in range(n):
        p.add('x.f%d = "v%d";' % (k, k))
    os_ = orders(rng, n)
    for k in os_[1]:
        p.show("x.f%d" % k, "v%d" % k)
    for k in os_[0]:
        p.show("x.m%d()" % k, "F.m%d" % k)
        p.show("y.m%d()" % k, "F.m%d" % k)
    # bound methods of ANOTHER instance and plain functions in fields, the field named like a method of the class
    for k in os_[2]:
        if k % 3 == 0:
            p.add("x.m%d = o.m%d;" % (k, (k + 1) % n))
        elif k % 3 == 1:
            p.add("x.m%d = plain;" % k)
        else:
            p.add('x.f%d = "w%d";' % (k, k))
    for k in os_[3]:
        exp = "F.m%d" % ((k + 1) % n) if k % 3 == 0 else "plain" if k % 3 == 1 else "F.m%d" % k
        p.show("x.m%d()" % k, exp)
        p.show_bound("x.m%d" % k, exp)
        p.show("y.m%d()" % k, "F.m%d" % k)
        p.show("x.f%d" % k, ("w%d" if k % 3 == 2 else "v%d") % k)
    for k in os_[1]:
        p.show_bound("y.m%d" % k, "F.m%d" % k)
    return p


def prog_depth(rng, n):
    """a chain of n classes; the leaf's instance reaches a member defined at every level (copy-down through up to n
    levels), `super` one level up from every level, a super chain (<= 30 frames), derives for every ancestor"""
    p = Prog()
    step = 1 if n <= 30 else (n + 29) // 30
    for i in range(n):
        ms = [("own%d" % i, ret("D%d.own" % i)), ("id", ret("D%d.id" % i))]
        if i == 0:
            ms += [("root", ret("D0.root")), ("chain", ret("D0"))]
        else:
            ms.append(("up%d" % i, "return super.id();"))
            ms.append(("ub%d" % i, "var b_ = super.id; return b_();"))
            if i % step == 0:
                ms.append(("chain", 'return "D%d>" + super.chain();' % i))
        p.cls("D%d" % i, ms, [("st%d" % i, ret("D%d.st" % i))], parent=("D%d" % (i - 1)) if i else None)
    p.add("var z = D%d.new();" % (n - 1), "var mid = D%d.new();" % (n // 2))
    chain = ">".join("D%d" % i for i in range(n - 1, -1, -1) if i == 0 or i % step == 0)
    midchain = ">".join("D%d" % i for i in range(n // 2, -1, -1) if i == 0 or i % step == 0)
    for rnd, order in enumerate(orders(rng, n)):
        for i in order:
            if rnd == 0:
                p.show("z.own%d()" % i, "D%d.own" % i)
            elif rnd == 1:
                if i:
                    p.show("z.up%d()" % i, "D%d.id" % (i - 1))
                p.show("z.own%d()" % i, "D%d.own" % i)
                p.show("z.derives(D%d)" % i, "true")
            elif rnd == 2:
                if i:
                    p.show("z.ub%d()" % i, "D%d.id" % (i - 1))
                p.show("z.st%d()" % i, "D%d.st" % i)
                p.show("mid.derives(D%d)" % i, "true" if i <= n // 2 else "false")
                p.show_bound("z.own%d" % i, "D%d.own" % i)
            else:
                if i and i <= n // 2:
                    p.show("mid.up%d()" % i, "D%d.id" % (i - 1))
                p.show("D%d.st%d()" % (i, i), "D%d.st" % i)
                p.show("z.id()", "D%d.id" % (n - 1))
        p.show("z.chain()", chain)
        p.show("mid.chain()", midchain)
        p.show("z.root()", "D0.root")
        p.show("mid.id()", "D%d.id" % (n // 2))
    return p


def prog_instances(rng, n):
    """n instances of three classes; bound methods of all of them taken first and called later: each keeps ITS receiver"""
    p = Prog()
    p.cls("A", [("who", 'return "A.who:" + self.tag;'), ("me", "return self;")], init=(["t"], "self.tag = t;"))
    p.cls("B", [("who", 'return "B.who:" + self.tag + ">" + super.who();')], parent="A", init=(["t"], "super.new(t);"))
    p.cls("E", [("who", 'return "E.who:" + self.tag;')], init=(["t"], "self.tag = t;"))
    kinds = ["A", "B", "E"]

    def exp(k):
        c = kinds[k % 3]
        return "B.who:t%d>A.who:t%d" % (k, k) if c == "B" else "%s.who:t%d" % (c, k)

    for k in range(n):
        p.add('var x%d = %s.new("t%d");' % (k, kinds[k % 3], k))
    os_ = orders(rng, n)
    for k in os_[0]:
        p.add("var b%d = x%d.who;" % (k, k))
    for k in os_[1]:
        p.show("x%d.who()" % k, exp(k))
    for k in os_[2]:
        p.show("b%d()" % k, exp(k))
        if k % 3 != 2:
            p.show("x%d.me() == x%d" % (k, k), "true")
            p.show("x%d.me() == x%d" % (k, (k + 3) % n if (k + 3) % n != k else k), "false" if (k + 3) % n != k else "true")
    for k in os_[3]:
        p.add("x%d.who = b%d;" % (k, (k + 1) % n))
        p.show("x%d.who()" % k, exp((k + 1) % n))
    return p


def prog_redeclare(rng, n):
    """a long HISTORY: the same class name declared n times with different members; instances of earlier generations
    keep their generation's methods; n invokes between declarations"""
    p = Prog()
    for g in range(n):
        p.cls("R", [("gen", ret("R%d.gen" % g)), ("m%d" % (g % 5), ret("R%d.m" % g))], [("st", ret("R%d.st" % g))])
        p.add("var r%d = R.new();" % g)
        p.show("r%d.gen()" % g, "R%d.gen" % g)
        p.show("R.st()", "R%d.st" % g)
        j = rng.randint(0, g)
        p.show("r%d.gen()" % j, "R%d.gen" % j)
        p.show("r%d.m%d()" % (j, j % 5), "R%d.m" % j)
        p.show_bound("r%d.gen" % j, "R%d.gen" % j)
        p.show("r%d.st()" % j, "R%d.st" % j)
    for order in orders(rng, n)[1:3]:
        for g in order:
            p.show("r%d.gen()" % g, "R%d.gen" % g)
            p.show("r%d.m%d()" % (g, g % 5), "R%d.m" % g)
    return p


BUILDERS = {
    "methods": prog_methods,
    "classes": prog_classes,
    "classes_interleaved": lambda rng, n: prog_classes(rng, n, interleaved=True),
    "pairs": prog_pairs,
    "fields": prog_fields,
    "depth": prog_depth,
    "instances": prog_instances,
    "redeclare": prog_redeclare,
}


def programs(rng, ladder=None):
    out = []
    for fam in sorted(BUILDERS):
        for n in (ladder or LADDER):
            p = BUILDERS[fam](rng, n)
            out.append({"family": fam, "size": n, "source": p.source(), "expected": p.expected})
    return out
