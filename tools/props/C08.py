"""C08 - exceptions reach the innermost active handler; finally always runs.

Theorems (coq/props/C08.v over TryLang/TrySpec/Handlers/HandlersProofs.v): for EVERY program of a mini-language
of try/catch/finally with sequencing, bounded loops, break/continue/return, conditionals on the loop counter and
calls, outside the syntactic classes of known_findings.json, the Mechanism M (the instruction stream the CURRENT
emitters produce, run on a transcription of push/pop/throw/unwind/jump_finally/end_finally with ONE handler stack
per fiber, per-fiber pending return and the VM-global handling_exception flag) prints what the structured Spec S
prints and ends the same way; one `_refuted` witness per open class.
Tie: (t) translator/translate_c08.py: emitter/VM choices re-read from compiler.rs / vm.rs (gen/TryArms.v),
compared by computation with the configuration Handlers.v is instantiated with;
(a) impl == M: hook H4 (`trace`): for every generated program the real VM's per-instruction records (stack length,
slot base, frames, handling_exception, return_pending, every handler's height and frame count) against M's state
before each of its instructions (an instruction of M = a fixed sequence of real opcodes); final result too;
(b) impl == S: printed lines + outcome of the rendered program against TrySpec.eval_spec (vm_compute);
(c) the full reference interpreter (ParseRun/SpecRun) on the same sources when available.
Every program is classified by TryLang.in_known_class (evaluated in Coq): S-mismatches inside an open class are
reported under its KNOWN-FINDING line and the program is still compared with M."""
import json
import os
import re

import yvlib
from yvlib import hx, log

LEVEL = "proof"
TRUSTED = [
    "Coq 8.16.1 kernel (coqc), vm_compute; no native_compute, no extraction",
    "translator/translate_c08.py (token shape of try_statement / break_statement / continue_statement / "
    "return_statement / emit_return / unwind_stack / end_finally_impl / jump_finally_impl)",
    "hook H4 (vm.rs verif_trace, feature verif_hooks), the harness `yv` (Rust), tools/*.py (Python)",
    "YV.TryLang.render (mini-AST -> yarel source) and TryRun.parse_prog (wire decoder) are definitions, not verified",
    "modelled, not verified: the opcode sequences an instruction of M stands for (Handlers.v `instr`), checked on "
    "every traced program: opcode names, stack length, slot base and frame count at every instruction of M",
]
ASSUMPTIONS = [
    "single fiber: exceptions do not cross fibers (C09 owns fibers); the value stack limit (16384 slots) is not modelled",
    "the error position registers (error_ip) are not state of M (C17)",
    "captured variables are outside the Coq mini-language (M, theorems); they are covered by the decorated family whose oracle "
    "is the full reference interpreter SpecScripts.run_case (other owners' files)",
]

FINDINGS_PATH = os.path.join(yvlib.VERIF, "notes", "C08-findings.json")
NEW_CLASSES = ("abrupt_exit_from_finally", "pending_return_survives_throw")

# ------------------------------------------------------------------------------------------------
# mini-AST, python side (generation, wire encoding, shrinking); semantics, classes, rendering come from Coq
# ("skip",) ("seq",a,b) ("print",t) ("pexc",) ("throw",t) ("fail",) ("try",b,c|None,f|None) ("loop",n,b)
# ("ifiter",k,s) ("break",) ("cont",) ("ret",t) ("call",g) ("nfail",)
# three throw sites: ("throw",t) explicit, ("fail",) raised by the VM (nil()), ("nfail",) returned by a native ("12x".to_num())


def wire_stmt(s):
    t = s[0]
    if t == "skip":
        return [0]
    if t == "seq":
        return [1] + wire_stmt(s[1]) + wire_stmt(s[2])
    if t == "print":
        return [2, s[1]]
    if t == "pexc":
        return [3]
    if t == "throw":
        return [4, s[1]]
    if t == "fail":
        return [5]
    if t == "nfail":
        return [13]
    if t == "try":
        r = [6, int(s[2] is not None), int(s[3] is not None)] + wire_stmt(s[1])
        if s[2] is not None:
            r += wire_stmt(s[2])
        if s[3] is not None:
            r += wire_stmt(s[3])
        return r
    if t == "loop":
        return [7, s[1]] + wire_stmt(s[2])
    if t == "ifiter":
        return [8, s[1]] + wire_stmt(s[2])
    if t == "break":
        return [9]
    if t == "cont":
        return [10]
    if t == "ret":
        return [11, s[1]]
    if t == "call":
        return [12, s[1]]
    raise ValueError(s)


def wire(prog):
    return ";".join(" ".join(str(x) for x in wire_stmt(f)) for f in prog)


def seq(l):
    l = [x for x in l if x != ("skip",)]
    if not l:
        return ("skip",)
    r = l[-1]
    for x in reversed(l[:-1]):
        r = ("seq", x, r)
    return r


def stmts(s):
    """flattened statement list of a sequence"""
    if s[0] == "seq":
        return stmts(s[1]) + stmts(s[2])
    if s[0] == "skip":
        return []
    return [s]


class Gen:
    """Random programs: nestings <= 4 of try/catch/finally with sequencing, loops, calls at depth 1-3, every throw
    site (explicit, failing built-in, callee) and every exit path from each block.
    mode 'safe' steers away from the open classes (so that most programs are in the proven fragment),
    mode 'wild' places every exit anywhere."""

    def __init__(self, rng, mode):
        self.rng = rng
        self.mode = mode
        self.tag = 0
        self.thrower = []     # per function: can an exception escape it?
        self.hastry = []

    def t(self):
        self.tag += 1
        return self.tag

    def leaf(self, cx):
        rng = self.rng
        opts = ["print"] * 3 + ["throw"] * 2 + ["fail"] + ["nfail"] * 2
        if cx["fi"] > 0:
            opts += ["call"] * 3
        if cx["catch"]:
            opts += ["pexc"] * 2
        if cx["loop"]:
            opts += ["break", "cont"]
        opts += ["ret"]
        k = rng.choice(opts)
        safe = self.mode == "safe"
        if k == "print":
            return ("print", self.t())
        if k == "pexc":
            return ("pexc",)
        if k == "throw":
            if safe and cx["nothrow"]:
                return ("print", self.t())
            return ("throw", self.t())
        if k == "fail":
            if safe and cx["nothrow"]:
                return ("print", self.t())
            return ("fail",)
        if k == "nfail":
            if safe and cx["nothrow"]:
                return ("print", self.t())
            return ("nfail",)
        if k == "call":
            cands = list(range(cx["fi"]))
            if safe and cx["nothrow"]:
                cands = [g for g in cands if not self.thrower[g]]
            if safe and cx["infin"]:
                cands = [g for g in cands if not self.hastry[g]]
            if not cands:
                return ("print", self.t())
            return ("call", rng.choice(cands))
        if k in ("break", "cont"):
            if safe and not cx["brk_ok"]:
                return ("print", self.t())
            return (k,) if k == "break" else ("cont",)
        if k == "ret":
            if safe and not cx["ret_ok"]:
                return ("print", self.t())
            return ("ret", self.t())
        return ("print", self.t())

    def guarded(self, s, cx):
        """abrupt exits mostly sit under a condition on the loop counter, so the code after them is reached"""
        if cx["loop"] and self.rng.random() < 0.6:
            return ("ifiter", self.rng.randint(1, 3), s)
        return s

    def block(self, cx, depth, budget):
        rng = self.rng
        n = rng.randint(1, 3)
        out = []
        for _ in range(n):
            if budget[0] <= 0:
                break
            budget[0] -= 1
            r = rng.random()
            safe = self.mode == "safe"
            if r < 0.30 and depth < 4 and not (safe and cx["infin"]):
                out.append(self.trystmt(cx, depth, budget))
            elif r < 0.42 and depth < 4 and cx["nloops"] < 2 and not (safe and cx["fin_nocatch"]):
                c2 = dict(cx, loop=True, brk_ok=True, nloops=cx["nloops"] + 1)
                out.append(("loop", rng.randint(1, 3), self.block(c2, depth + 1, budget)))
            else:
                s = self.leaf(cx)
                if s[0] in ("break", "cont", "ret", "throw", "fail", "nfail"):
                    s = self.guarded(s, cx)
                out.append(s)
        return seq(out)

    def trystmt(self, cx, depth, budget):
        rng = self.rng
        shape = rng.choice(["c", "c", "f", "cf", "cf"])
        hc, hf = "c" in shape, "f" in shape
        safe = self.mode == "safe"
        # the try block: a return there is fine only with a finally clause and no enclosing try block
        ret_ok_b = cx["ret_ok"] and hf and not cx["in_b"] and rng.random() < 0.8
        cb = dict(cx, in_b=True, ret_ok=ret_ok_b, brk_ok=cx["brk_ok"] and not hf, nothrow=False if hc else cx["nothrow"])
        b = self.block(cb, depth + 1, budget)
        has_ret_b = has_return(b)
        c = f = None
        if hc:
            cc = dict(cx, catch=True, ret_ok=cx["ret_ok"] and not hf, brk_ok=cx["brk_ok"] and not hf,
                      nothrow=cx["nothrow"] or hf)
            c = self.block(cc, depth + 1, budget)
        if hf:
            cf = dict(cx, infin=True, fin_nocatch=not hc, ret_ok=False, brk_ok=False, loop=cx["loop"],
                      nothrow=cx["nothrow"] or (has_ret_b or (c is not None and has_return(c))))
            f = self.block(cf, depth + 1, budget)
        return ("try", b, c, f)

    def program(self):
        rng = self.rng
        nf = rng.choice([1, 2, 2, 3, 3, 4])
        prog = []
        self.thrower = []
        self.hastry = []
        for fi in range(nf):
            cx = {"fi": fi, "loop": False, "catch": False, "brk_ok": False, "ret_ok": True, "in_b": False,
                  "infin": False, "fin_nocatch": False, "nothrow": False, "nloops": 0}
            body = self.block(cx, 0, [rng.randint(3, 12)])
            prog.append(body)
            self.thrower.append(may_throw(body, self.thrower))
            self.hastry.append(has_try(body, self.hastry))
        return prog


def has_return(s):
    t = s[0]
    if t == "ret":
        return True
    if t == "seq":
        return has_return(s[1]) or has_return(s[2])
    if t == "try":
        return any(x is not None and has_return(x) for x in s[1:4])
    if t in ("loop", "ifiter"):
        return has_return(s[2])
    return False


def may_throw(s, thrower):
    t = s[0]
    if t in ("throw", "fail", "nfail"):
        return True
    if t == "call":
        return thrower[s[1]] if s[1] < len(thrower) else True
    if t == "seq":
        return may_throw(s[1], thrower) or may_throw(s[2], thrower)
    if t == "try":
        r = may_throw(s[2], thrower) if s[2] is not None else may_throw(s[1], thrower)
        return r or (s[3] is not None and may_throw(s[3], thrower))
    if t in ("loop", "ifiter"):
        return may_throw(s[2], thrower)
    return False


def has_try(s, hastry):
    t = s[0]
    if t == "try":
        return True
    if t == "call":
        return hastry[s[1]] if s[1] < len(hastry) else True
    if t == "seq":
        return has_try(s[1], hastry) or has_try(s[2], hastry)
    if t in ("loop", "ifiter"):
        return has_try(s[2], hastry)
    return False


def systematic():
    """every throw site x every shape x exit path, two handlers active"""
    progs = []
    sites = [("throw", 1), ("fail",), ("nfail",), ("call", 0), ("call", 1), ("call", 2), ("call", 3), ("call", 4), ("call", 5)]
    f0 = ("throw", 7)
    f1 = seq([("print", 70), ("call", 0), ("print", 71)])
    f2 = ("try", ("call", 1), None, ("print", 72))
    f3 = ("nfail",)
    f4 = ("try", seq([("print", 73), ("call", 3)]), None, ("print", 74))     # native failure in a callee, finally-only
    f5 = ("try", ("fail",), None, seq([("print", 75)]))
    for site in sites:
        for shape in ("c", "f", "cf"):
            for outer in ("c", "f", "cf", None):
                inner = ("try", seq([("print", 1), site, ("print", 2)]),
                         seq([("pexc",), ("print", 3)]) if "c" in shape else None,
                         ("print", 4) if "f" in shape else None)
                body = seq([inner, ("print", 5)])
                if outer:
                    body = seq([("try", body, seq([("pexc",), ("print", 6)]) if "c" in outer else None,
                                 ("print", 8) if "f" in outer else None), ("print", 9)])
                progs.append([f0, f1, f2, f3, f4, f5, body])
    exits = [("break",), ("cont",), ("ret", 5), ("throw", 6), ("nfail",), ("fail",), ("skip",)]
    for ex in exits:
        for where in ("b", "c"):
            for shape in ("c", "f", "cf"):
                if where == "c" and "c" not in shape:
                    continue
                b = seq([("print", 1), ("ifiter", 2, ex if where == "b" else ("throw", 3)), ("print", 2)])
                c = seq([("pexc",), ex, ("print", 4)]) if "c" in shape else None
                t = ("try", b, c, ("print", 5) if "f" in shape else None)
                body = seq([("loop", 3, seq([t, ("print", 6)])), ("print", 7), ("throw", 8)])
                progs.append([body, ("try", seq([("call", 0), ("print", 9)]), seq([("pexc",)]), None)])
    # break / continue leaving k = 1, 2, 3 nested try blocks at once (all with catch: leaving a try with finally is an
    # open class), then a later throw in the same function caught by the caller / by a NEW try of the same function;
    # try-finally statements outside the jump: around the loop, completed inside the innermost block, in the caller
    caller = ("try", seq([("call", 0), ("print", 90)]), seq([("pexc",), ("print", 91)]), None)
    caller_f = ("try", ("try", ("call", 0), None, ("print", 92)), seq([("pexc",)]), None)
    for ex in (("break",), ("cont",)):
        for k in (1, 2, 3):
            for inner in ("plain", "fin_before", "from_catch", "throw_later_iter"):
                if inner == "plain":
                    core = seq([("print", 10), ("ifiter", 2, ex), ("print", 11)])
                elif inner == "fin_before":
                    core = seq([("try", ("print", 12), None, ("print", 13)), ("ifiter", 2, ex), ("print", 11)])
                elif inner == "from_catch":
                    core = ("try", seq([("ifiter", 2, ("throw", 14)), ("print", 15)]), seq([("pexc",), ex]), None)
                else:
                    core = seq([("ifiter", 1, ex), ("ifiter", 3, ("nfail",)), ("print", 16)])
                nest = core
                for j in range(k):
                    nest = ("try", nest, seq([("pexc",), ("print", 20 + j)]), None)
                loop = ("loop", 3, seq([nest, ("print", 30)]))
                for later in ("caller", "new_try", "around_finally"):
                    if later == "caller":
                        body = seq([loop, ("print", 40), ("throw", 41)])
                    elif later == "new_try":
                        body = seq([loop, ("try", seq([("print", 42), ("fail",)]), seq([("pexc",), ("print", 43)]), None),
                                    ("print", 44), ("throw", 45)])
                    else:
                        body = seq([("try", seq([loop, ("print", 46), ("throw", 47)]), None, ("print", 48))])
                    progs.append([body, caller if later != "around_finally" else caller_f])
    return progs


# ------------------------------------------------------------------------------------------------
# evaluation

EXPANSION = {
    "Print": ["GetGlobal", "Constant", "Call", "Pop"], "PrintLocal": ["GetGlobal", "GetLocal", "Call", "Pop"],
    "Fail": ["Nil", "Call"], "NativeFail": ["Constant", "Invoke"], "Const": ["Constant"], "Nil": ["Nil"], "Pop": ["Pop"], "Throw": ["Throw"],
    "PushNative": ["GetGlobal"], "Call": ["GetGlobal", "Call"], "PrintTop": ["Call"],
    "Less": ["GetLocal", "Constant", "Less"], "Eq": ["GetLocal", "Constant", "Equal"],
    "Incr": ["GetLocal", "Constant", "Add", "SetLocal", "Pop"], "Jump": ["Jump"], "JumpIfFalse": ["JumpIfFalse"],
    "Loop": ["Loop"], "PushExcHandler": ["PushExcHandler"], "PopExcHandler": ["PopExcHandler"],
    "JumpFinally": ["JumpFinally"], "EndFinally": ["EndFinally"], "Return": ["Return"],
}

_OPNAMES = None


def opnames():
    global _OPNAMES
    if _OPNAMES is None:
        with open(os.path.join(yvlib.COQ, "gen", "Opcodes.v")) as fh:
            m = re.search(r"Definition opcode_names : list string := \[(.*?)\]\.", fh.read(), re.S)
        _OPNAMES = re.findall(r'"([A-Za-z]+)"', m.group(1))
    return _OPNAMES


def norm_line(l):
    m = re.match(r"^<(\w+) instance @ (?:0x[0-9a-f]+|ADDR)>$", l)
    if m:
        return m.group(1)
    m = re.match(r"^<fn (\w+) @ (?:0x[0-9a-f]+|ADDR)>$", l)
    return m.group(1) if m else l


def impl_result(rec):
    out = ",".join(norm_line(l) for l in rec.output)
    k, v = rec.result
    if k == "ok":
        return out + "/D"
    if k == "err":
        m0 = rec.messages[0] if rec.messages else ""
        m = re.match(r"^Unhandled exception: (.*)$", m0)
        if m:
            return out + "/U:" + norm_line(m.group(1))
        m = re.match(r"^Unhandled (\w+): ", m0)
        if m:
            return out + "/U:" + m.group(1)
        return out + "/E:" + m0
    return out + "/" + k.upper() + ":" + str(v)[:80]


def impl_trace(rec):
    """[(opcode name, function id, stack_len, slot_base, frames, he, retpend, [(size, frames)...])], script prologue skipped"""
    names = opnames()
    res = []
    for f in rec.tagged("T"):
        op = names[int(f[3])] if int(f[3]) < len(names) else "?"
        hs = []
        hf = [x for x in f if x.startswith("h:")]
        if hf and len(hf[0]) > 2:
            for h in hf[0][2:].split(";"):
                a = h.split(",")
                hs.append((int(a[2]), int(a[3])))
        res.append((op, int(f[1]), int(f[4]), int(f[5]), int(f[6]), f[7] == "1", f[8] == "1", hs))
    i = 0
    while i < len(res) and res[i][0] in ("Closure", "DefineGlobal"):
        i += 1
    return res[i:]


def compare_trace(mtrace, itrace):
    """None when M's trace describes the impl's trace; else a description of the first difference.
    Returns (diff, nsteps compared, wild?)"""
    pos = 0
    n = 0
    for step in mtrace.split(" "):
        if not step or step == "?":
            return None, n, True
        f = step.split(":")
        name, codefn, framefn = f[0], f[1], f[2]
        if codefn != framefn:
            # M executes another function's code in this frame (stale handler): the real VM reads that frame's
            # constants; outside what M describes
            return None, n, True
        exp = EXPANSION[name]
        if pos >= len(itrace):
            return "impl trace ends before M's step %d (%s)" % (n, step), n, False
        rec = itrace[pos]
        hs = [tuple(int(y) for y in x.split(".")) for x in f[8].split(";")] if len(f) > 8 and f[8] else []
        want = (exp[0], int(f[3]), int(f[4]), int(f[5]), f[6] == "T", f[7] == "T", hs)
        got = (rec[0], rec[2], rec[3], rec[4], rec[5], rec[6], rec[7])
        if want != got:
            return "step %d: M %s, impl %s" % (n, want, got), n, False
        ops = [r[0] for r in itrace[pos:pos + len(exp)]]
        if name == "Fail" or (name == "Call" and len(ops) >= 2):
            pass
        if ops != exp[:len(ops)]:
            return "step %d: M %s = %s, impl opcodes %s" % (n, name, exp, ops), n, False
        pos += len(exp)
        n += 1
    if pos < len(itrace):
        return "impl executes %d more instructions than M (next %s)" % (len(itrace) - pos, itrace[pos][0]), n, False
    return None, n, False


def nontrivial_kinds(itrace):
    """measured on the REAL trace: a throw site reached with >= 2 handlers active / a finally block run on an
    exceptional path (EndFinally dispatched with handling_exception set)"""
    kinds = set()
    for k, r in enumerate(itrace):
        if r[0] == "Throw" and len(r[7]) >= 2:
            kinds.add("throw2")
        if r[0] == "EndFinally" and r[5]:
            kinds.add("finexc")
        if r[0] == "Invoke" and k + 1 < len(itrace) and r[7] and len(itrace[k + 1][7]) < len(r[7]) and itrace[k + 1][5]:
            kinds.add("native_finally_only")   # a native failure delivered to a handler without catch clause
        if r[0] == "EndFinally" and r[6]:
            kinds.add("finret")
        if r[0] in ("Call", "Invoke") and k + 1 < len(itrace) and len(r[7]) >= 2 and len(itrace[k + 1][7]) < len(r[7]) \
                and itrace[k + 1][0] != "PopExcHandler":
            kinds.add("fail2")
    return kinds


def gen_cfg_term(ctx=None):
    """the configuration the translator read from the CURRENT sources (coq/gen/manifest.json), as a Gallina term: M
    follows the sources; the theorems are for the configuration props/C08.v compares it with"""
    try:
        with open(os.path.join(yvlib.COQ, "gen", "manifest.json")) as fh:
            m = json.load(fh)["c08_tryarms"]
        b = lambda x: "true" if x else "false"  # noqa
        return "(cfg_flags %s %d %s %d %s %s %s)" % (
            b(m["gen_catch_emits_pop"]), int(m["gen_break_pops_mode"]),
            b(m["gen_return_in_try_uses_jump_finally"]), int(m["gen_unwind_he_mode"]), b(m["gen_throw_sets_he"]),
            b(m["gen_vmfail_sets_he"]), b(m["gen_nativefail_sets_he"]))
    except Exception as e:  # the translator did not recognise the sources: M = the configuration of the theorems
        if ctx is not None and not any("manifest" in n for n in ctx.notes):
            ctx.notes.append("no c08_tryarms in gen/manifest.json (%s): M runs with cfg_today" % e)
        return "cfg_today"


def evaluate(ctx, progs, tag, want_trace=True, ndebug=0):
    """-> list of dicts with wf, cls, spec, m, src, impl, rec, mtrace; the release binary runs every program,
    the debug binary (overflow checks, debug assertions) the first `ndebug` as well"""
    ws = [wire(p) for p in progs]
    kt = gen_cfg_term(ctx)
    terms = []
    for w in ws:
        terms.append('c08_case_k %s "%s"' % (kt, w))
        terms.append('c08_render "%s"' % w)
        if want_trace:
            terms.append('c08_trace_k %s 4000 "%s"' % (kt, w))
    per = 3 if want_trace else 2
    shard = per * max(8, (len(ws) + 31) // 32)
    vals = yvlib.coq_eval(["YV:TryRun"], terms, shard_size=shard, tag="C08" + tag)
    srcs = [vals[per * i + 1] for i in range(len(ws))]
    lines = ["trace - 6000 " + hx(s or "") for s in srcs]
    recs = yvlib.run_harness(ctx.harness("release"), lines, case_timeout_ms=10000)
    drecs = yvlib.run_harness(ctx.harness("debug"), lines[:ndebug], case_timeout_ms=20000) if ndebug else []
    res = []
    for i, w in enumerate(ws):
        case = vals[per * i]
        if case is None or srcs[i] is None:
            ctx.broken.append("coq_eval failed on program " + w)
            continue
        wf, cls, spec, m = case.split("#")
        res.append({"wire": w, "prog": progs[i], "wf": wf == "T", "cls": None if cls == "-" else cls, "spec": spec,
                    "m": m, "src": srcs[i], "rec": recs[i], "impl": impl_result(recs[i]),
                    "impl_debug": impl_result(drecs[i]) if i < len(drecs) else None,
                    "rec_debug": drecs[i] if i < len(drecs) else None,
                    "mtrace": vals[per * i + 2] if want_trace else None})
    return res


def judge(ctx, r, stats):
    """the two comparisons for one evaluated program"""
    if not r["wf"]:
        stats["not_wf"] += 1
        return
    impl, spec, m, cls = r["impl"], r["spec"], r["m"], r["cls"]
    stats["total"] += 1
    stats["class:" + (cls or "-")] = stats.get("class:" + (cls or "-"), 0) + 1
    itrace = impl_trace(r["rec"])
    kinds = nontrivial_kinds(itrace)
    if kinds:
        stats["nontrivial"].add(r["wire"])
        for k in kinds:
            stats["kind:" + k] = stats.get("kind:" + k, 0) + 1
    # (a) impl == M
    wild = False
    if cls and "/PANIC:" in impl:
        # inside an open class the real VM may panic while REPORTING an uncaught exception (runtime_error follows the
        # stale error position of a discarded frame; error_ip is not state of M) and the harness loses the trace
        stats["impl_panic_in_class"] = stats.get("impl_panic_in_class", 0) + 1
        stats["known:" + cls] = stats.get("known:" + cls, 0) + 1
        if not any(v.get("known_class") == cls for v in ctx.violations):
            ctx.violation("the VM panics inside the open class " + cls, input=r["src"], expected=spec, actual=impl,
                          known_class=cls, wire=r["wire"])
        return
    if r["mtrace"] is not None:
        diff, n, wild = compare_trace(r["mtrace"], itrace)
        stats["steps"] += n
        if diff:
            ctx.corr_broken.append("impl != M (Handlers.v) on %s : %s" % (r["src"], diff))
        else:
            stats["traces_ok"] += 1
    m_undefined = wild or m.endswith("/S") or m == "FUEL"
    if m_undefined:
        stats["m_undefined"] += 1
    elif impl != m:
        ctx.corr_broken.append("impl != M (Handlers.v) result on %s : impl %s, M %s" % (r["src"], impl, m))
    if r.get("impl_debug") is not None and not m_undefined:
        stats["debug_runs"] = stats.get("debug_runs", 0) + 1
        if r["impl_debug"] != impl:
            ctx.corr_broken.append("debug build != release build on %s : %s vs %s" % (r["src"], r["impl_debug"], impl))
        elif r["mtrace"] is not None:
            d2, _, _ = compare_trace(r["mtrace"], impl_trace(r["rec_debug"]))
            if d2:
                ctx.corr_broken.append("impl (debug build) != M (Handlers.v) on %s : %s" % (r["src"], d2))
    # (b) impl == S
    if impl != spec:
        if cls:
            stats["known:" + cls] = stats.get("known:" + cls, 0) + 1
            if not any(v.get("known_class") == cls for v in ctx.violations):
                ctx.violation("output/outcome differs from the Spec inside the open class " + cls, input=r["src"],
                              expected=spec, actual=impl, known_class=cls, wire=r["wire"])
        else:
            stats["violations"].append(r)
    elif cls is None and not m_undefined and m != spec:
        ctx.broken.append("M != S outside the known classes (contradicts handlers_refine_spec): " + r["src"])


# ------------------------------------------------------------------------------------------------
# shrinking (AST level)

def subterms_replace(s):
    """candidate smaller statements"""
    t = s[0]
    if t == "skip":
        return
    yield ("skip",)
    if t == "seq":
        yield s[1]
        yield s[2]
        for a in subterms_replace(s[1]):
            yield seq([a, s[2]])
        for b in subterms_replace(s[2]):
            yield seq([s[1], b])
    elif t == "try":
        yield s[1]
        if s[2] is not None and s[3] is not None:
            yield ("try", s[1], s[2], None)
            yield ("try", s[1], None, s[3])
        for a in subterms_replace(s[1]):
            yield ("try", a, s[2], s[3])
        if s[2] is not None:
            for a in subterms_replace(s[2]):
                yield ("try", s[1], a, s[3])
        if s[3] is not None:
            for a in subterms_replace(s[3]):
                yield ("try", s[1], s[2], a)
    elif t == "loop":
        if s[1] > 1:
            yield ("loop", s[1] - 1, s[2])
        for a in subterms_replace(s[2]):
            yield ("loop", s[1], a)
    elif t == "ifiter":
        for a in subterms_replace(s[2]):
            yield ("ifiter", s[1], a)


def calls_of(s, acc):
    if s[0] == "call":
        acc.add(s[1])
    for x in s[1:]:
        if isinstance(x, tuple):
            calls_of(x, acc)
    return acc


def shift_calls(s, i):
    if s[0] == "call":
        return ("call", s[1] - 1 if s[1] > i else s[1])
    return tuple(shift_calls(x, i) if isinstance(x, tuple) else x for x in s)


def drop_unused_functions(prog):
    """candidates with one never-called function (not main) removed"""
    used = set()
    for f in prog:
        calls_of(f, used)
    for i in range(len(prog) - 1):
        if i not in used:
            yield [shift_calls(f, i) for k, f in enumerate(prog) if k != i]


def shrink(ctx, r, budget=30):
    cur = r
    progress = True
    while progress and budget > 0:
        progress = False
        prog = cur["prog"]
        cands = list(drop_unused_functions(prog))
        for fi in range(len(prog)):
            for a in subterms_replace(prog[fi]):
                cands.append(prog[:fi] + [a] + prog[fi + 1:])
        cands.sort(key=lambda p: len(wire(p)))
        batch = cands[:16]
        if not batch:
            break
        budget -= 1
        rs = evaluate(ctx, batch, "shrink", want_trace=False)
        for x in rs:
            if x["wf"] and x["cls"] is None and x["impl"] != x["spec"] and len(x["wire"]) < len(cur["wire"]):
                cur = x
                progress = True
                break
    return cur


# ------------------------------------------------------------------------------------------------

# ------------------------------------------------------------------------------------------------
# family outside the Coq mini-language (methods, closures, fibers, for loops, the other failing built-ins):
# hand-derived expectations (property text + DESIGN Appendix C), every one OUTSIDE the open classes
PROBES = [
    ('#[constructor(new)] class A { fn m(self, x) { if x == 1 { throw 11; } return x; } fn w(self) { try { return self.m(1); } '
     'catch e { print(e); return 5; } } } var a = A.new(); print(a.w()); try { a.m(1); } catch e { print(e); } print(a.m(2));',
     "11,5,11,2/D"),
    ('fn mk() { var n = 0; return || { n = n + 1; if n == 2 { throw n; } return n; }; } var c = mk(); '
     'try { print(c()); print(c()); print(c()); } catch e { print("caught"); print(e); } print(c());', "1,caught,2,3/D"),
    ('fn f() { var x = 10; try { var y = 20; (|| { throw x + y; })(); } catch e { print(e); print(x); } finally { print(x + 1); } '
     'return x; } print(f());', "30,10,11,10/D"),
    ('var fib = Fiber.new(|| { try { Fiber.yield(1); throw 7; } catch e { print(e); Fiber.yield(2); } return 3; }); '
     'try { print(fib.call()); print(fib.call()); print(fib.call()); } catch e { print("outer"); }', "1,7,2,3/D"),
    ('fn g(v) { for x in v { try { if x == 2 { continue; } if x == 4 { break; } print(x); } catch e { print("no"); } } throw 9; } '
     'try { g([1, 2, 3, 4, 5]); } catch e { print(e); }', "1,3,9/D"),
    ('fn f() { try { [1, 2][5]; } catch e { print(type(e)); print(e.context); } try { nil.foo; } catch e { print(type(e)); } '
     'try { 1 + "a"; } catch e { print(type(e)); } try { undefined_name; } catch e { print(type(e)); } } f();',
     "<class IndexError>,Vec index out of bounds.,<class AttributeError>,<class TypeError>,<class NameError>/D"),
    ('#[constructor(new)] class E { } fn f() { try { throw E.new(); } catch e { print(type(e)); } finally { print("fin"); } } f(); '
     'throw "bye";', "<class E>,fin/U:bye"),
    ('fn deep(n) { if n == 0 { throw 42; } try { deep(n - 1); } finally { print(n); } } try { deep(3); } catch e { print(e); }',
     "1,2,3,42/D"),
    # an exception does not cross into the fiber that called the failing one: the run ends, naming the value
    ('var fib = Fiber.new(|| { throw 5; }); try { fib.call(); } catch e { print("crossed"); } print("after");', "/U:5"),
    ('fn f() { try { return 1; } finally { print("fin"); } } print(f()); try { throw 2; } catch e { print(e); }', "fin,1,2/D"),
    ('fn f(n) { while n > 0 { try { n = n - 1; if n == 1 { throw n; } } catch e { print("c"); print(e); } } return n; } print(f(3));',
     "c,1,0/D"),
    # the bare `return;` of an initialiser inside a try block runs the finally clause and pops the handler like any return
    ('class K { #[constructor] fn new(self, p) { self.s = 0; try { if p == 0 { return; } self.s = 1; } finally { print(p); } } } '
     'print(K.new(8).s); try { print(K.new(0).s); throw 5; } catch e { print("late"); print(e); }', "8,1,0,0,late,5/D"),
    ('class B { #[constructor] fn new(self) { try { return; } catch e { print(e); } finally { print("bf"); } } } '
     '#[derive(B)] class D { #[constructor] fn new(self) { try { super.new(); return; } finally { print("df"); } } } '
     'var d = D.new(); try { nil(); } catch e { print(type(e)); }', "bf,df,<class TypeError>/D"),
    ('#[constructor(new)] class M { fn m(self) { try { return; } finally { print("mf"); } } #[static] fn s() { try { return; } '
     'finally { print("sf"); } } } print(M.new().m()); print(M.s()); var l = || { try { return; } finally { print("lf"); } }; '
     'print(l()); try { throw 1; } catch e { print(e); }', "mf,nil,sf,nil,lf,nil,1/D"),
] + [
    # failures RETURNED by natives (Err arm of call_native) and raised by the VM, innermost handler finally-only: the
    # finally block runs and the exception goes on to the caller's catch clause
    ('fn f() { try { %s; } finally { print("fin"); } print("fell"); } try { f(); print("dropped"); } catch e { print(type(e)); }' % x,
     "fin,<class %s>/D" % c)
    for x, c in [('"12x".to_num()', "ValueError"), ('var m = {}; m.insert([1], 2)', "ValueError"), ('print(1, 2)', "TypeError"),
                 ('"a".find("", 0)', "ValueError"), ('var fb = Fiber.new(|| 1); fb.call(); fb.call()', "RuntimeError"),
                 ('[1].pop(1, 2)', "TypeError"), ('nil()', "TypeError"), ('1 + nil', "TypeError"), ('[1][3]', "IndexError")]
]


def run_probes(ctx, stats):
    for prof in ("release", "debug"):
        recs = yvlib.run_harness(ctx.harness(prof), ["run - " + hx(src) for src, _ in PROBES], case_timeout_ms=10000)
        for (src, want), rec in zip(PROBES, recs):
            got = impl_result(rec)
            if got != want:
                stats["violations"].append({"src": src, "spec": want, "impl": got, "m": None, "wire": "", "prog": None})
    stats["probes"] = len(PROBES)


# ------------------------------------------------------------------------------------------------
# variables and closures ("... with the handling function's variables intact"): a program of the mini-language that
# is OUTSIDE every class (classified by Coq on its skeleton) is decorated with
#   * locals declared before any try statement, read / assigned in try, catch, finally blocks and after,
#   * locals declared at the start of try / catch / finally / loop blocks (never inside a finally block of a try without
#     catch clause: finally_local) and captured by closures that ESCAPE to the global vec `out` before the block raises or
#     is left early: `|| v`, a mutating closure, a closure made by a nested lambda (depth 2), a nested `fn`,
#   * closures over the catch variable itself;
# after every top-level try statement, at the end of every function and of the script all visible outer locals are
# printed and every escaped closure is called.  The oracle is the FULL reference interpreter (SpecScripts.run_case).
import random as _random


class Deco:
    def __init__(self, seed):
        self.rng = _random.Random(seed)
        self.n = 0

    def fresh(self):
        self.n += 1
        return "v%d" % self.n

    def escape(self, v):
        k = self.rng.randrange(5)
        if k == 0:
            return "out.push(|| %s); " % v
        if k == 1:
            return "out.push(|| { %s = %s + 1; return %s; }); " % (v, v, v)
        if k == 2:
            return "out.push((|| || %s)()); " % v
        if k == 3:
            g = "g" + v[1:]
            return "fn %s() { return %s; } out.push(%s); " % (g, v, g)
        return "out.push(|| (|| %s + 1)()); " % v

    def touch(self, scope):
        if not scope or self.rng.random() < 0.5:
            return ""
        v = self.rng.choice(scope)
        return self.rng.choice(["%s = %s + 1; " % (v, v), "print(%s); " % v, "%s = %s + 10; print(%s); " % (v, v, v)])

    def prologue(self, scope, decl_ok):
        """declarations at the start of a block: the FIRST one takes the slot the exception value lands in"""
        txt = ""
        new = []
        if decl_ok and self.rng.random() < 0.8:
            for _ in range(self.rng.choice([1, 1, 2, 3])):
                v = self.fresh()
                txt += "var %s = %d; " % (v, 1000 + self.n)
                new.append(v)
            for v in new:
                if self.rng.random() < 0.75:
                    txt += self.escape(v)
        txt += self.touch(scope + new)
        return txt, new

    def block(self, s, d, ev, iv, scope, decl_ok):
        pro, new = self.prologue(scope, decl_ok)
        return "{ " + pro + self.stmt(s, d, ev, iv, scope + new, decl_ok, False) + "} "

    def stmt(self, s, d, ev, iv, scope, decl_ok, top):
        t = s[0]
        if t == "skip":
            return ""
        if t == "seq":
            a = self.stmt(s[1], d, ev, iv, scope, decl_ok, top)
            mid = self.touch(scope) if self.rng.random() < 0.3 else ""
            return a + mid + self.stmt(s[2], d, ev, iv, scope, decl_ok, top)
        if t == "print":
            return "print(%d); " % s[1]
        if t == "pexc":
            return "print(%s); " % ev
        if t == "throw":
            return "throw %d; " % s[1]
        if t == "fail":
            return "nil(); "
        if t == "nfail":
            return '"12x".to_num(); '
        if t == "break":
            return "break; "
        if t == "cont":
            return "continue; "
        if t == "ret":
            if getattr(self, "caps", None) and self.rng.random() < 0.4:
                # the value returned is the result of a call of a closure over a function-level local
                return "return %s() * 0 + %d; " % (self.caps[2], s[1])
            return "return; " if getattr(self, "bare_ret", False) else "return %d; " % s[1]
        if t == "call":
            return "print(%s); " % (getattr(self, "callexpr", {}).get(s[1]) or "f%d()" % s[1])
        if t == "ifiter":
            return "if %s == %d " % (iv, s[1]) + self.block(s[2], d + 1, ev, iv, scope, decl_ok)
        if t == "loop":
            i = "i%d" % d
            return "{ var %s = 0; while %s < %d { %s = %s + 1; " % (i, i, s[1], i, i) + \
                self.block(s[2], d + 1, ev, i, scope, decl_ok)[2:] + "} "
        if t == "try":
            hc, hf = s[2] is not None, s[3] is not None
            r = "try " + self.block(s[1], d + 1, ev, iv, scope, decl_ok)
            if hc:
                e = "e%d" % d
                body = self.block(s[2], d + 1, e, iv, scope, decl_ok)
                esc = "out.push(|| %s); " % e if (self.rng.random() < 0.5 and not getattr(self, "plain", False)) else ""
                r += "catch %s { " % e + esc + body[2:]
            if hf:
                # without catch clause the finally block is entered one slot higher by exception: no declarations there
                fb = self.block(s[3], d + 1, ev, iv, scope, decl_ok and hc)
                r += "finally { " + self.cap_touch() + fb[2:]
            if top:
                r += self.dump(scope)
            return r
        raise ValueError(s)

    def cap_touch(self):
        """in a finally block: every captured function-level local is read / written BOTH directly and through the getter /
        setter closures created before the try statement (on every way the block is entered)"""
        caps = getattr(self, "caps", None)
        if not caps or self.rng.random() < 0.25:
            return ""
        a, get, set_ = caps
        return self.rng.choice([
            "print(%s()); print(%s); %s = %s + 10; print(%s()); " % (set_, a, a, a, get),
            "%s = %s + 100; print(%s()); print(%s()); print(%s); " % (a, a, get, set_, a),
            "print(%s()); print(%s); " % (get, a),
        ])

    def dump(self, scope):
        self.n += 1
        j = "j%d" % self.n
        return "".join("print(%s); " % v for v in scope) + \
            "{ var %s = 0; while %s < out.len() { print(out[%s]()); %s = %s + 1; } } " % (j, j, j, j, j)

    def function(self, k, body):
        scope = ["a%d" % k, "b%d" % k]
        txt = "fn f%d() { var a%d = %d; var b%d = %d; " % (k, k, 100 + k, k, 200 + k)
        if not getattr(self, "plain", False):
            # getter / setter closures over a FUNCTION-level local, created before any try statement, escaping
            txt += "var get%d = || a%d; var set%d = || { a%d = a%d + 1; return a%d; }; out.push(get%d); out.push(set%d); " % ((k,) * 8)
            self.caps = ("a%d" % k, "get%d" % k, "set%d" % k)
        txt += self.stmt(body, 0, "e", "i", scope, True, True)
        self.caps = None
        return txt + self.dump(scope) + "} "


# ------------------------------------------------------------------------------------------------
# function KINDS: the bodies of a program outside the classes become plain functions, block lambdas, expression lambdas
# (around a plain function), instance methods, static methods, `#[constructor]` initialisers (bare `return;` only), an
# initialiser reached through `super.new()`, fiber bodies - each with every return form the kind allows (`return t;`
# or the bare `return;`).  Expected: TrySpec.eval_spec itself when every chosen kind preserves the printed values,
# else the full reference interpreter (which must then agree with eval_spec on the plain rendering anyway).
KINDS = ["plain", "lambda", "exprlambda", "method", "static", "ctor", "superctor", "fiber"]


class Plain(Deco):
    plain = True

    def prologue(self, scope, decl_ok):
        return "", []

    def touch(self, scope):
        return ""

    def dump(self, scope):
        return ""


def render_kinds(prog, seed, force=None):
    rng = _random.Random(seed)
    pl = Plain(seed)
    pl.rng = _random.Random(seed + 1)
    pl.callexpr = {}
    txt = ""
    preserving = True
    used = []
    for k, b in enumerate(prog):
        kind = force if (force and k == len(prog) - 1) else rng.choice(KINDS)
        bare = kind in ("ctor", "superctor") or rng.random() < 0.25
        used.append(kind + ("/bare" if bare else ""))
        pl.bare_ret = bare
        body = pl.stmt(b, 0, "e", "i", [], True, False)

        if bare and has_return(b):
            preserving = False
        if kind == "plain":
            txt += "fn f%d() { %s} " % (k, body)
            pl.callexpr[k] = "f%d()" % k
        elif kind == "lambda":
            txt += "var f%d = || { %s}; " % (k, body)
            pl.callexpr[k] = "f%d()" % k
        elif kind == "exprlambda":
            txt += "fn g%d() { %s} var f%d = || g%d(); " % (k, body, k, k)
            pl.callexpr[k] = "f%d()" % k
        elif kind == "method":
            txt += "#[constructor(new)] class C%d { fn m(self) { %s} } var o%d = C%d.new(); " % (k, body, k, k)
            pl.callexpr[k] = "o%d.m()" % k
        elif kind == "static":
            txt += "class C%d { #[static] fn s() { %s} } " % (k, body)
            pl.callexpr[k] = "C%d.s()" % k
        elif kind == "ctor":
            txt += "class C%d { #[constructor] fn new(self) { %s} } " % (k, body)
            pl.callexpr[k] = "C%d.new()" % k
            preserving = False
        elif kind == "superctor":
            txt += ("class B%d { #[constructor] fn new(self) { %s} } #[derive(B%d)] class C%d { #[constructor] fn new(self) "
                    "{ super.new(); print(%d); } } " % (k, body, k, k, 7000 + k))
            pl.callexpr[k] = "C%d.new()" % k
            preserving = False
        else:
            txt += "fn f%d() { var fb = Fiber.new(|| { %s}); return fb.call(); } " % (k, body)
            pl.callexpr[k] = "f%d()" % k
            preserving = False      # an exception does not leave the fiber: the run ends there
    # afterwards: the handler stack must be as before - a later exception reaches THIS handler only
    txt += 'try { print(%s); throw 9999; } catch ex { print("late"); print(ex); }' % pl.callexpr[len(prog) - 1]
    return txt, preserving, used


def kinds_family(ctx, results, stats, n):
    import binascii
    base = [r for r in results if r["wf"] and r["cls"] is None and not r["m"].endswith("/S")]
    if not base:
        return
    rng = ctx.rng
    withret = [r for r in base if has_return_prog(r["prog"]) and "6 " in r["wire"]]
    items = []
    for k in range(n):
        r = rng.choice(withret if (withret and rng.random() < 0.7) else base)
        items.append((r, rng.randrange(1 << 30), KINDS[k % len(KINDS)]))
    rend = [render_kinds(r["prog"], sd, force) for r, sd, force in items]
    recs = yvlib.run_harness(ctx.harness("release"), ["run - " + hx(x[0]) for x in rend], case_timeout_ms=10000)
    nd = min(len(rend), 64)
    drecs = yvlib.run_harness(ctx.harness("debug"), ["run - " + hx(x[0]) for x in rend[:nd]], case_timeout_ms=20000)
    refs = [None] * len(rend)
    if refspec_available():
        vals = yvlib.coq_eval(["YV:SpecScripts"], ['run_case 400 [] "%s"' % binascii.hexlify(x[0].encode()).decode() for x in rend],
                              shard_size=max(4, min(40, (len(rend) + 31) // 32)), tag="C08kinds", preamble="Open Scope string_scope.\n")
        refs = [ref_result(v) for v in vals]
    bad = []
    kinds_seen = set()
    stats["kinds_programs"] = 0
    for i, ((r, sd, force), (src, preserving, used), rec, ref) in enumerate(zip(items, rend, recs, refs)):
        want = None
        if preserving:
            # eval_spec of the skeleton + the epilogue: the call result is printed, then `late`, 9999 (or the escaped exception)
            sp, fin = r["spec"].rsplit("/", 1)
            want = (sp + "," if sp else "") + ("late,9999/D" if fin == "D" else "late," + fin[2:] + "/D")
            if ref is not None and ref != want:
                ctx.broken.append("eval_spec and the reference interpreter disagree on a kinds program: %s | %s | %s" % (src[:300], want, ref))
        elif ref is not None:
            want = ref
        if want is None:
            continue
        stats["kinds_programs"] += 1
        kinds_seen.update(used)
        got = impl_result(rec)
        gotd = impl_result(drecs[i]) if i < nd else got
        if got != want or gotd != want:
            bad.append({"r": r, "seed": sd, "force": force, "src": src, "want": want, "got": got if got != want else gotd + " (debug build)"})
    stats["kinds_mismatch"] = len(bad)
    stats["kinds_and_return_forms_seen"] = len(kinds_seen)
    bad.sort(key=lambda b: len(b["src"]))
    for b in bad[:3]:
        ctx.violation("a function of another KIND (lambda / method / static / initialiser / super.new / fiber body) differs from "
                      "the Spec (program outside the known classes)", input=b["src"], expected=b["want"], actual=b["got"],
                      kinds_wire=b["r"]["wire"], kinds_seed=b["seed"], kinds_force=b["force"])


def has_return_prog(prog):
    return any(has_return(f) for f in prog)


# ------------------------------------------------------------------------------------------------
# the pending return value is the ONLY reference to a fresh heap value while the finally block runs and allocates:
# "the function's result is what return computed, after finally ran".  Run with gc=always and the quarantine on (a lost
# value shows as VERIF-UAF or a wrong print), both builds; loop counters are declared before the try (finally_local).
_ALLOC = "while i < 40 { s = [100, i]; t = \"x${i}y\"; i = i + 1; } "
PENDING = [
    ('fn pair(n) { var s = nil; var t = nil; var i = 0; try { return [n, n + 1]; } finally { %s print("c"); } } '
     'print(pair(1)); print(pair(5));' % _ALLOC, "c,[1, 2],c,[5, 6]/D"),
    ('fn str(n) { var s = nil; var t = nil; var i = 0; try { return "a${n}b" + "c"; } finally { %s print("c"); } } '
     'print(str(1)); print(str(22));' % _ALLOC, "c,a1bc,c,a22bc/D"),
    ('#[constructor(new)] class P { } fn mk(n) { var s = nil; var t = nil; var i = 0; try { var p = P.new(); p.x = [n]; return p; } '
     'finally { %s print("c"); } } print(mk(3).x); print(mk(4).x);' % _ALLOC, "c,[3],c,[4]/D"),
    ('fn mk(n) { var s = nil; var t = nil; var i = 0; try { var k = [n, n]; return || k; } finally { %s print("c"); } } '
     'print(mk(3)()); print(mk(4)());' % _ALLOC, "c,[3, 3],c,[4, 4]/D"),
    ('fn mk(n) { var s = nil; var t = nil; var i = 0; try { try { throw [n]; } catch e { return [e, n]; } } finally { %s print("c"); } } '
     'print(mk(3)); print(mk(4));' % _ALLOC, "c,[[3], 3],c,[[4], 4]/D"),
    ('#[constructor(new)] class Q { fn m(self, n) { var s = nil; var t = nil; var i = 0; try { return (n, "t${n}"); } '
     'finally { %s print("c"); } } } var q = Q.new(); print(q.m(1)); print(q.m(2));' % _ALLOC, "c,(1, t1),c,(2, t2)/D"),
    ('fn mk(n) { var s = nil; var t = nil; var i = 0; try { return {n: [n]}; } catch e { print(e); } finally { %s print("c"); } } '
     'print(mk(3)); print(mk(4));' % _ALLOC, "c,{3: [3]},c,{4: [4]}/D"),
]


def run_pending(ctx, stats):
    for prof in ("release", "debug"):
        for opts in ("gc=always", "-"):
            recs = yvlib.run_harness(ctx.harness(prof), ["run %s %s" % (opts, hx(src)) for src, _ in PENDING], quarantine=True,
                                     case_timeout_ms=30000)
            for (src, want), rec in zip(PENDING, recs):
                got = impl_result(rec) + ("/UAF" if rec.uaf else "")
                if got != want:
                    stats["violations"].append({"src": src, "spec": want, "impl": got + " (%s build, %s, quarantine)" % (prof, opts),
                                                "m": None, "wire": "", "prog": None, "pending": True})
                    break
    stats["pending_return_heap_programs"] = len(PENDING)


# ------------------------------------------------------------------------------------------------
# EVERY runtime raise site (the trigger table of the C17 check: one or more statements per `error!` site of vm.rs /
# core.rs / object.rs / value.rs, incl. the two limits of call_closure: arity and the 64-frame "Stack overflow.") must
# deliver its exception to the innermost active handler of the raising fiber, finally blocks on the way run:
#   (a) directly in try/catch, (b) 1-3 calls below the handler, (c) inside try/finally below try/finally below a catch,
#   (d) inside a fiber whose body has the handler.  Expectations by construction (class name + message of the site).
def rt_triggers():
    try:
        from props import C17
        return list(C17.RT_TRIGGERS)
    except Exception:  # noqa
        return []


def raise_site_cases(quick):
    cases = []
    for key, trigs in rt_triggers():
        kind, lit = key
        for trig in (trigs[:1] if quick else trigs):
            prep, stmt, msg, opts = trig
            msg = msg if msg is not None else lit
            want_e = ["<class %s>" % kind, msg]
            handler = 'catch e { print(type(e)); print(e.context); } '
            inner = opts.get("inner")
            mods = opts.get("mods")
            if mods:
                src = " ".join(prep) + " try { %s } %sprint(\"after\");" % (stmt, handler)
                cases.append((key, "a/top", src, want_e + ["after"], mods))
                continue
            if inner:
                # the failing statement sits inside a function/fiber defined by the preparation: handler around it there
                pre_in = " ".join(("try { %s } %s" % (inner[0], handler)) if l == "@INNER" else l for l in prep)
                cases.append((key, "a/inner", pre_in + " " + stmt + ' print("after");', want_e + ["after"], None))
                if "Stack overflow" in lit:
                    pre_out = " ".join(inner[0] if l == "@INNER" else l for l in prep)
                    cases.append((key, "b/63 frames below", pre_out + " fn t() { try { %s } %sprint(\"after\"); } t();" % (stmt, handler),
                                  want_e + ["after"], None))
                    cases.append((key, "c/63 frames below, finally on the way",
                                  pre_out + ' fn u() { try { %s } finally { print("fin0"); } print("no"); } fn t() { try { try { u(); } '
                                  'finally { print("fin1"); } } %sprint("after"); } t();' % (stmt, handler),
                                  ["fin0", "fin1"] + want_e + ["after"], None))
                continue
            pre = " ".join(prep) + " "
            cases.append((key, "a", pre + "fn t() { try { %s } %sprint(\"after\"); } t();" % (stmt, handler), want_e + ["after"], None))
            for depth in ((2,) if quick else (1, 2, 3)):
                chain = "fn r0() { %s print(\"no\"); } " % stmt
                for d in range(1, depth):
                    chain += "fn r%d() { r%d(); print(\"no\"); } " % (d, d - 1)
                cases.append((key, "b/%d" % depth, pre + chain + "fn t() { try { r%d(); } %sprint(\"after\"); } t();" % (depth - 1, handler),
                              want_e + ["after"], None))
            cases.append((key, "c", pre + 'fn r0() { try { %s } finally { print("fin0"); } print("no"); } fn t() { try { try { r0(); } '
                          'finally { print("fin1"); } print("no"); } %sprint("after"); } t();' % (stmt, handler),
                          ["fin0", "fin1"] + want_e + ["after"], None))
            if "module-level" not in lit:
                cases.append((key, "d", pre + "var fbx = Fiber.new(|| { try { %s } %sreturn 5; }); print(fbx.call()); print(\"after\");"
                              % (stmt, handler), want_e + ["5", "after"], None))
    return cases


def raise_sites_family(ctx, stats):
    cases = raise_site_cases(ctx.quick())
    if not cases:
        ctx.notes.append("the trigger table of the C17 plug-in (RT_TRIGGERS) is not available: raise-site family skipped")
        return

    def line(src, mods):
        if mods:
            return "mods - " + hx(src) + "".join(" %s=%s" % (hx(k), hx(v)) for k, v in sorted(mods.items()))
        return "run - " + hx(src)
    lines = [line(c[2], c[4]) for c in cases]
    sites = set()
    bad = []
    for prof in ("release", "debug"):
        recs = yvlib.run_harness(ctx.harness(prof), lines, case_timeout_ms=30000)
        for (key, cxname, src, want, mods), rec in zip(cases, recs):
            got = rec.output
            ok = rec.result[0] == "ok" and got == want
            sites.add(key)
            if not ok:
                bad.append({"src": src, "spec": ",".join(want) + "/D", "impl": impl_result(rec) + " (%s build; site %s: %s, context %s)"
                            % (prof, key[0], key[1], cxname), "m": None, "wire": "", "prog": None, "mods": mods})
        if bad:
            break
    stats["raise_site_cases"] = len(cases)
    stats["raise_sites_covered"] = len(sites)
    stats["raise_site_mismatch"] = len(bad)
    bad.sort(key=lambda b: len(b["src"]))
    stats["violations"].extend(bad[:3])


def decorate(prog, seed):
    dc = Deco(seed)
    src = "var out = []; " + "".join(dc.function(k, b) for k, b in enumerate(prog))
    src += 'try { print(f%d()); } catch ex { print("uncaught"); print(ex); } ' % (len(prog) - 1)
    src += "var jj = 0; while jj < out.len() { print(out[jj]()); jj = jj + 1; }"
    return src


def ref_result(v):
    """canonical result of SpecScripts.run_case, or None (fuel / not evaluated)"""
    import binascii
    mm = re.match(r"^out=\[([0-9a-f,]*)\];res=(ok|err|fuel)(?::(\w+):\[([0-9a-f,]*)\])?", v or "")
    if not mm or mm.group(2) == "fuel":
        return None
    out = [binascii.unhexlify(x).decode("utf-8", "replace") for x in mm.group(1).split(",") if x] if mm.group(1) else []
    ref = ",".join(norm_line(l) for l in out)
    if mm.group(2) == "ok":
        return ref + "/D"
    msgs = [binascii.unhexlify(x).decode("utf-8", "replace") for x in (mm.group(4) or "").split(",") if x]
    m0 = msgs[0] if msgs else ""
    m1 = re.match(r"^Unhandled exception: (.*)$", m0)
    m2 = re.match(r"^Unhandled (\w+): ", m0)
    return ref + "/U:" + (norm_line(m1.group(1)) if m1 else m2.group(1) if m2 else "?" + m0)


def refspec_available():
    return all(os.path.exists(os.path.join(yvlib.COQ, "theories", f)) for f in ("SpecRun.vo", "ParseRun.vo", "SpecScripts.vo"))


def captured_at_raise(rec):
    """measured on the REAL trace: is an exception raised (Throw dispatched, or a Call/Invoke after which a handler is
    gone) while a captured variable lives at or above the height of the handler that receives it?"""
    names = opnames()
    rows = rec.tagged("T")
    hit = False
    for k, f in enumerate(rows):
        op = names[int(f[3])] if int(f[3]) < len(names) else "?"
        hf = [x for x in f if x.startswith("h:")]
        uf = [x for x in f if x.startswith("u:")]
        if not hf or len(hf[0]) <= 2 or not uf or len(uf[0]) <= 2:
            continue
        hs = [h.split(",") for h in hf[0][2:].split(";")]
        top = int(hs[-1][2])
        ups = [int(x) for x in uf[0][2:].split(",") if x]
        raised = op == "Throw"
        if op in ("Call", "Invoke") and k + 1 < len(rows):
            nh = [x for x in rows[k + 1] if x.startswith("h:")]
            n2 = len(nh[0][2:].split(";")) if nh and len(nh[0]) > 2 else 0
            raised = n2 < len(hs)      # a call never pops a handler unless it fails
        if raised and any(u >= top for u in ups):
            hit = True
    return hit


def run_decorated(ctx, items):
    """items: [(prog, seed)] -> [(src, impl, ref, rec)]"""
    import binascii
    srcs = [decorate(p, sd) for p, sd in items]
    recs = yvlib.run_harness(ctx.harness("release"), ["trace - 20000 " + hx(s_) for s_ in srcs], case_timeout_ms=10000)
    terms = ['run_case 400 [] "%s"' % binascii.hexlify(s_.encode()).decode() for s_ in srcs]
    vals = yvlib.coq_eval(["YV:SpecScripts"], terms, shard_size=max(4, min(40, (len(terms) + 31) // 32)), tag="C08deco",
                          preamble="Open Scope string_scope.\n")
    return [(s_, impl_result(r), ref_result(v), r) for s_, r, v in zip(srcs, recs, vals)]


def closure_family(ctx, results, stats, n):
    if not refspec_available():
        ctx.notes.append("SpecRun/ParseRun/SpecScripts not built: the variables-and-closures family is skipped")
        return
    base = [r for r in results if r["wf"] and r["cls"] is None]
    rng = ctx.rng
    # programs with try statements first; every program gets its own decoration seed
    base.sort(key=lambda r: -r["wire"].count("6 "))
    picked = base[:n]
    items = [(r["prog"], rng.randrange(1 << 30)) for r in picked]
    outs = run_decorated(ctx, items)
    stats["deco_programs"] = 0
    stats["deco_ref_failed"] = 0
    stats.setdefault("deco_nontrivial", set())
    bad = []
    for (prog, seed), (src, impl, ref, rec) in zip(items, outs):
        if ref is None:
            stats["deco_ref_failed"] += 1
            continue
        stats["deco_programs"] += 1
        if captured_at_raise(rec):
            stats["deco_nontrivial"].add(src)
        if impl != ref:
            bad.append({"prog": prog, "seed": seed, "src": src, "impl": impl, "ref": ref})
    for k, b in enumerate(bad[:3]):
        small = shrink_decorated(ctx, b) if k == 0 else b
        ctx.violation("variables / escaped closures differ from the reference semantics after exception handling "
                      "(program outside the known classes)", input=small["src"], expected=small["ref"], actual=small["impl"],
                      wire=wire(small["prog"]), deco_seed=small["seed"])
    stats["deco_mismatch"] = len(bad)
    if stats["deco_programs"]:
        stats["deco_sample"] = outs[0][0]


def shrink_decorated(ctx, b, budget=12):
    cur = b
    progress = True
    while progress and budget > 0:
        progress = False
        prog = cur["prog"]
        cands = list(drop_unused_functions(prog))
        for fi in range(len(prog)):
            for a in subterms_replace(prog[fi]):
                cands.append(prog[:fi] + [a] + prog[fi + 1:])
        cands.sort(key=lambda p_: len(wire(p_)))
        batch = cands[:16]
        if not batch:
            break
        budget -= 1
        cls = evaluate(ctx, batch, "decoshrink", want_trace=False)
        ok = [x["prog"] for x in cls if x["wf"] and x["cls"] is None]
        if not ok:
            continue
        outs = run_decorated(ctx, [(p_, cur["seed"]) for p_ in ok])
        for p_, (src, impl, ref, rec) in zip(ok, outs):
            if ref is not None and impl != ref and len(src) < len(cur["src"]):
                cur = {"prog": p_, "seed": cur["seed"], "src": src, "impl": impl, "ref": ref}
                progress = True
                break
    return cur


# hand-written shapes of the same family (expectation = the reference interpreter)
DIRECTED = [
    'var out = []; fn mk() { try { var first = 1; var second = 2; out.push(|| first); out.push(|| second); throw 7; } '
    'catch e { print(e); } } mk(); print(out[0]()); print(out[1]());',
    'var keep = nil; fn fail() { return [1][3]; } try { var counter = 10; keep = || { counter = counter + 1; return counter; }; '
    'fail(); } catch e { print(type(e)); } print(keep()); print(keep());',
    'var out = []; fn g(n) { if n == 0 { "12x".to_num(); } return g(n - 1); } fn f() { var a = 1; try { var x = 5; '
    'out.push(|| x); a = a + 1; g(2); } catch e { a = a + 10; out.push(|| e); } finally { var z = 3; out.push(|| z + a); } '
    'print(a); } f(); print(out[0]()); print(out[1]()); print(out[2]());',
    'var out = []; fn f() { var a = 1; while a < 4 { a = a + 1; try { var x = a * 10; out.push(|| x); if a == 3 { break; } '
    'if a == 2 { continue; } } catch e { print(e); } } print(a); } f(); for c in out { print(c()); }',
    'var out = []; fn f() { try { var x = 1; out.push(|| { x = x + 1; return x; }); return x; } finally { print("fin"); } } '
    'print(f()); print(out[0]()); print(out[0]());',
    'var out = []; fn f() { try { try { var x = 1; out.push(|| x); nil(); } finally { print("f1"); } } catch e { var y = 2; '
    'out.push(|| y); out.push(|| e); } } f(); print(out[0]()); print(out[1]()); print(out[2]());',
    'var out = []; fn f() { try { var x = 1; fn g() { var y = 2; out.push(|| x + y); throw x + y; } g(); } catch e { print(e); } } '
    'f(); print(out[0]());',
    # a function-level local captured before the try, touched directly and through the closure in the finally block, on
    # every way into it: fall-through, return, return of the closure call's result, exception
    'var out = []; fn work(n) { var released = 0; var release = || { released = released + 1; return released; }; out.push(release); '
    'try { if n == 1 { return 7; } if n == 2 { return release(); } if n == 3 { throw n; } print("body"); } catch e { print(e); } '
    'finally { print(release()); print(released); released = released + 10; print(release()); print(released); } return released; } '
    'print(work(0)); print(work(1)); print(work(2)); print(work(3)); print(out[0]()); print(out[3]());',
    'fn counter() { var c = 0; var inc = || { c = c + 1; return c; }; var get = || c; try { inc(); return get; } '
    'finally { inc(); c = c + 1; print(c); print(get()); } } var g = counter(); print(g());',
    'var keep = nil; fn f(v) { var log = []; keep = || log; try { log.push(1); return log.len(); } finally { log.push(2); '
    'log = [9]; print(keep()); print(log); } } print(f(0)); print(keep());',
]


def nested_jump_sources():
    """the same family with `for` loops (outside the mini-language; oracle = the reference interpreter)"""
    res = []
    for ex in ("break", "continue"):
        for k in (1, 2, 3):
            core = "if v == 2 { r = v; %s; } print(v); " % ex
            for j in range(k):
                core = "try { %s} catch c%d { print(\"c%d\"); print(c%d); } " % (core, j, j, j)
            for later in ('throw "late";', 'try { throw "late2"; } catch z { print(z); } throw "late3";',
                          'try { [1][3]; } finally { print("fin"); }'):
                res.append('fn find(items) { var r = nil; for v in items { %sprint("it"); } print(r); %s } '
                           'try { try { find([1, 2, 3]); } finally { print("cleanup"); } } catch e { print(type(e)); print(e); } '
                           'print("end");' % (core, later))
    return res


BIG = None


def big_programs():
    """|try block| + |catch clause| across 65535 bytes of bytecode, each part below it (the two 16-bit operands of
    PushExcHandler are ADDED by the VM): the only consumers of the sum are JumpFinally (return inside the try block) and
    the exceptional entry of a finally block; expectations by construction (`a = -a;` is 6 bytes of bytecode)"""
    global BIG
    if BIG is None:
        def filler(n):
            return " ".join(["a = -a;"] * n)
        BIG = [
            ('fn work(a) { try { print("try"); %s return "done"; } catch e { print("catch"); %s } finally { print("cleanup"); } '
             'return "fell"; } try { print(work(1)); } catch e { print("caller"); print(e); } print("after");'
             % (filler(7000), filler(5000)), "try,cleanup,done,after/D"),
            ('fn work(a) { try { print("try"); %s throw a; } catch e { print("catch"); print(e); %s return e + 1; } '
             'finally { print("cleanup"); } return "fell"; } try { print(work(1)); } catch e { print("caller"); print(e); } print("after");'
             % (filler(9001), filler(3000)), None),
            ('fn work(a) { try { print("try"); %s return a; } catch e { print("catch"); %s } finally { print("cleanup"); } '
             'return "fell"; } print(work(5)); print("after");' % (filler(5464), filler(5455)), None),
            ('fn work(a) { try { print("try"); %s return a; } catch e { print("catch"); %s } finally { print("cleanup"); } '
             'return "fell"; } print(work(5)); print("after");' % (filler(5400), filler(5400)), "try,cleanup,5,after/D"),
        ]
        # return in catch with a finally clause is the open class early_exit_skips_finally: program 2 only throws/catches
        BIG[1] = ('fn work(a) { try { print("try"); %s throw a; } catch e { print("catch"); print(e); %s } '
                  'finally { print("cleanup"); } return "fell"; } try { print(work(1)); } catch e { print("caller"); print(e); } '
                  'print("after");' % (filler(9001), filler(3000)), "try,catch,-1,cleanup,fell,after/D")
        BIG[2] = (BIG[2][0], "try,cleanup,5,after/D")
    return BIG


def run_round9(ctx, stats):
    """round 9: scale families (clause sizes x exit paths, counts) and throw site / handler in different modules"""
    try:
        from props import C08_r9
    except Exception as ex:  # noqa
        ctx.notes.append("tools/props/C08_r9.py not importable (%s): round-9 families skipped" % ex)
        return
    C08_r9.run_sizes(ctx, stats, impl_result)
    C08_r9.run_counts(ctx, stats, impl_result)
    C08_r9.run_modules(ctx, stats, impl_result)
    stats["round9_programs"] = stats.get("scale_size_programs", 0) + stats.get("scale_count_programs", 0) + stats.get("cross_module_cases", 0)


def run_big(ctx, stats):
    progs = big_programs()
    for prof in ("release", "debug"):
        recs = yvlib.run_harness(ctx.harness(prof), ["run - " + hx(src) for src, _ in progs], case_timeout_ms=60000)
        for k, ((src, want), rec) in enumerate(zip(progs, recs)):
            got = impl_result(rec)
            if got != want:
                short = src[:120] + " ...[%d bytes]... " % len(src) + src[-260:]
                stats["violations"].append({"src": src, "spec": want, "impl": got + " (%s build)" % prof, "m": None, "wire": "",
                                            "prog": None, "short": short, "big_index": k})
                break
    stats["big_try_catch_programs"] = len(progs)


# ------------------------------------------------------------------------------------------------
# one Vm, several runs: a run that ends with an uncaught exception must leave nothing behind that changes how the next
# programs handle exceptions (harness `repl`): first snippet fails, the later ones are ordinary generated programs
# outside the classes, compared with S as if each ran on a fresh VM
FIRST_SNIPPETS = []
for _site in ('throw "boom";', "nil();", '"12x".to_num();'):
    FIRST_SNIPPETS += [
        _site,
        "fn a9() { %s } fn b9() { a9(); print(1); } b9();" % _site,
        'try { %s } finally { print("c"); }' % _site,
        'try { throw 1; } catch e9 { %s }' % _site,
        "var fb9 = Fiber.new(|| { %s }); fb9.call();" % _site,
        'fn r9() { try { return 7; } finally { %s } } r9();' % _site,
    ]


def split_snips(rec):
    parts = []
    cur = None
    for l in rec.lines:
        if l.startswith("SNIP "):
            cur = []
            parts.append(cur)
        elif cur is not None:
            cur.append(l)
    return [yvlib.Record(p_) for p_ in parts]


def repl_streams(ctx, results, stats, nstreams):
    base = [r for r in results if r["wf"] and r["cls"] is None and not r["m"].endswith("/S")]
    if not base:
        return
    # programs with finally clauses first: EndFinally is where a leaked flag / pending return shows
    withfin = [r for r in base if re.search(r"6 [01] 1", r["wire"])]
    rng = ctx.rng
    streams = []
    for k in range(nstreams):
        first = FIRST_SNIPPETS[k % len(FIRST_SNIPPETS)]
        later = [rng.choice(withfin if (withfin and rng.random() < 0.8) else base) for _ in range(rng.randint(1, 3))]
        streams.append((first, later))
    lines = ["repl - " + " ".join(hx(x) for x in [first] + [r["src"] for r in later]) for first, later in streams]
    bad = []
    for prof in ("release", "debug") if ctx.quick() else ("release",):
        sub = lines if prof == "release" else lines[:18]
        recs = yvlib.run_harness(ctx.harness(prof), sub, case_timeout_ms=20000)
        for (first, later), rec in zip(streams, recs):
            snips = split_snips(rec)
            if rec.crashed or len(snips) != len(later) + 1:
                bad.append((first, later, 0, "harness: %s, %d snippets answered" % (rec.crashed, len(snips))))
                continue
            if snips[0].result[0] != "err":
                ctx.broken.append("first snippet of a repl stream did not fail: " + first)
            for i, (r, sn) in enumerate(zip(later, snips[1:])):
                got = impl_result(sn)
                stats["repl_snippets"] = stats.get("repl_snippets", 0) + 1
                if got != r["spec"]:
                    bad.append((first, later, i, got))
                    break
    stats["repl_streams"] = len(streams)
    stats["repl_mismatch"] = len(bad)
    for k, (first, later, i, got) in enumerate(bad[:3]):
        # shrink: drop the snippets before the failing one if it still fails right after the first snippet
        r = later[i]
        rec = yvlib.run_harness(ctx.harness("release"), ["repl - " + hx(first) + " " + hx(r["src"])], case_timeout_ms=20000)[0]
        sn = split_snips(rec)
        if len(sn) == 2 and impl_result(sn[1]) != r["spec"]:
            small, keep, got2 = shrink_repl(ctx, first, r), None, None
            ctx.violation("a program run after a FAILED run on the same Vm differs from the Spec (outside the known classes)",
                          input=[first, small["src"]], expected=small["spec"], actual=small["got"], wire=small["wire"],
                          repl_first=first)
        else:
            ctx.violation("a program run after a FAILED run on the same Vm differs from the Spec (outside the known classes)",
                          input=[first] + [x["src"] for x in later[:i + 1]], expected=r["spec"], actual=got,
                          wire=";;".join(x["wire"] for x in later[:i + 1]), repl_first=first)


def repl_check(ctx, first, rs):
    """[(r, got)] for the programs rs each run right after `first` on one Vm"""
    lines = ["repl - " + hx(first) + " " + hx(r["src"]) for r in rs]
    recs = yvlib.run_harness(ctx.harness("release"), lines, case_timeout_ms=20000)
    out = []
    for r, rec in zip(rs, recs):
        sn = split_snips(rec)
        out.append((r, impl_result(sn[1]) if len(sn) == 2 else "harness:%s" % rec.crashed))
    return out


def shrink_repl(ctx, first, r, budget=10):
    cur = dict(r, got=repl_check(ctx, first, [r])[0][1])
    progress = True
    while progress and budget > 0:
        progress = False
        prog = cur["prog"]
        cands = list(drop_unused_functions(prog))
        for fi in range(len(prog)):
            for a in subterms_replace(prog[fi]):
                cands.append(prog[:fi] + [a] + prog[fi + 1:])
        cands.sort(key=lambda p_: len(wire(p_)))
        batch = cands[:16]
        if not batch:
            break
        budget -= 1
        ev = [x for x in evaluate(ctx, batch, "replshrink", want_trace=False) if x["wf"] and x["cls"] is None and x["impl"] == x["spec"]]
        for x, got in repl_check(ctx, first, ev):
            if got != x["spec"] and len(x["wire"]) < len(cur["wire"]):
                cur = dict(x, got=got)
                progress = True
                break
    return cur


def run_directed(ctx, stats):
    import binascii
    if not refspec_available():
        return
    directed = DIRECTED + nested_jump_sources()
    recs = yvlib.run_harness(ctx.harness("release"), ["trace - 20000 " + hx(s_) for s_ in directed], case_timeout_ms=10000)
    drecs = yvlib.run_harness(ctx.harness("debug"), ["run - " + hx(s_) for s_ in directed], case_timeout_ms=20000)
    vals = yvlib.coq_eval(["YV:SpecScripts"], ['run_case 400 [] "%s"' % binascii.hexlify(s_.encode()).decode() for s_ in directed],
                          shard_size=3, tag="C08dir", preamble="Open Scope string_scope.\n")
    stats.setdefault("deco_nontrivial", set())
    for src, r, dr, v in zip(directed, recs, drecs, vals):
        ref = ref_result(v)
        if ref is None:
            ctx.broken.append("the reference interpreter did not evaluate the directed closure program: " + src[:200])
            continue
        if captured_at_raise(r):
            stats["deco_nontrivial"].add(src)
        for got in (impl_result(r), impl_result(dr)):
            if got != ref:
                stats["violations"].append({"src": src, "spec": ref, "impl": got, "m": None, "wire": "", "prog": None})
                break
    stats["directed_closure_programs"] = len(directed)


WITNESSES = [("wit_early_exit_break", "early_exit_skips_finally"), ("wit_early_exit_return2", "early_exit_skips_finally"),
             ("wit_early_exit_catch", "early_exit_skips_finally"), ("wit_return_no_finally", "return_in_try_catch_no_finally"),
             ("wit_finally_local", "finally_local"), ("wit_he_global_nested", "handling_exception_global"),
             ("wit_he_global_callee", "handling_exception_global"), ("wit_abrupt_finally", "abrupt_exit_from_finally"),
             ("wit_pending_return", "pending_return_survives_throw"),
             ("wit_catch_pops_outer", None), ("wit_break_in_try", None), ("wit_native_finally", None),
             ("wit_break_two_tries", None)]


def replay_witnesses(ctx, stats):
    """the witness programs of the `_refuted` lemmas (HandlersProofs.v) on the real binary: the implementation must
    do what M does (so the lemma is about this code), and differ from S (else the class is repaired)"""
    vals = yvlib.coq_eval(["YV:TryRun", "YV:HandlersProofs"], [n for n, _ in WITNESSES], tag="C08wit")
    if any(v is None for v in vals):
        ctx.broken.append("witness programs of HandlersProofs.v could not be evaluated")
        return
    rs = evaluate(ctx, [unwire(v) for v in vals], "witrun", ndebug=len(vals))
    for (name, cls), r in zip(WITNESSES, rs):
        judge(ctx, r, stats)
        if r["cls"] != cls:
            ctx.broken.append("witness %s is classified %s, expected %s" % (name, r["cls"], cls))
        if cls is not None and r["impl"] == r["spec"]:
            ctx.notes.append("witness %s of the open class %s now behaves as the Spec demands: the class looks repaired "
                             "(move it to `fixed`, drop the exclusion)" % (name, cls))
        if cls is None and r["impl"] != r["spec"]:
            stats["violations"].append(r)
    stats["witnesses_replayed"] = len(rs)


def refspec_compare(ctx, results, stats, tag):
    """the FULL reference interpreter (SpecScripts.run_case = SpecRun.run_program (ParseRun.parse_source src), other
    owners' files) on the rendered sources against TrySpec.eval_spec; skipped when those files are not built"""
    import binascii
    if not all(os.path.exists(os.path.join(yvlib.COQ, "theories", f)) for f in ("SpecRun.vo", "ParseRun.vo", "SpecScripts.vo")):
        ctx.notes.append("SpecRun/ParseRun/SpecScripts not built: comparison with the full reference interpreter skipped")
        return
    rs = [r for r in results if r["wf"]]
    terms = ['run_case 300 [] "%s"' % binascii.hexlify(r["src"].encode()).decode() for r in rs]
    vals = yvlib.coq_eval(["YV:SpecScripts"], terms, shard_size=max(4, min(60, (len(terms) + 31) // 32)), tag="C08ref" + tag,
                          preamble="Open Scope string_scope.\n")
    stats.setdefault("refspec_compared", 0)
    stats.setdefault("refspec_disagree", 0)
    stats.setdefault("refspec_failed", 0)
    for r, v in zip(rs, vals):
        mm = re.match(r"^out=\[([0-9a-f,]*)\];res=(ok|err|fuel)(?::(\w+):\[([0-9a-f,]*)\])?", v or "")
        if not mm or mm.group(2) == "fuel":
            stats["refspec_failed"] += 1
            continue
        out = [binascii.unhexlify(x).decode("utf-8", "replace") for x in mm.group(1).split(",") if x] if mm.group(1) else []
        ref = ",".join(norm_line(l) for l in out)
        if mm.group(2) == "ok":
            ref += "/D"
        else:
            msgs = [binascii.unhexlify(x).decode("utf-8", "replace") for x in (mm.group(4) or "").split(",") if x]
            m0 = msgs[0] if msgs else ""
            m1 = re.match(r"^Unhandled exception: (.*)$", m0)
            m2 = re.match(r"^Unhandled (\w+): ", m0)
            ref += "/U:" + (norm_line(m1.group(1)) if m1 else m2.group(1) if m2 else "?" + m0)
        stats["refspec_compared"] += 1
        if ref != r["spec"]:
            stats["refspec_disagree"] += 1
            if r["impl"] == ref:
                ctx.broken.append("TrySpec.eval_spec differs from the full reference interpreter AND from the implementation: "
                                  "%s | eval_spec %s | SpecRun %s" % (r["src"][:300], r["spec"], ref))
            elif len(ctx.notes) < 6:
                ctx.notes.append("SpecRun.run_program differs from TrySpec.eval_spec on: %s | eval_spec %s | SpecRun %s | impl %s"
                                 % (r["src"][:300], r["spec"], ref, r["impl"]))


def run(ctx):
    quick = ctx.quick()
    rng = ctx.rng
    stats = {"total": 0, "not_wf": 0, "steps": 0, "traces_ok": 0, "m_undefined": 0, "nontrivial": set(), "violations": []}
    if ctx.replay_only and ctx.replay_only.get("deco_seed") is not None:
        src, impl, ref, _ = run_decorated(ctx, [(unwire(ctx.replay_only["wire"]), ctx.replay_only["deco_seed"])])[0]
        if ref is not None and impl != ref:
            ctx.violation("variables / escaped closures differ from the reference semantics after exception handling",
                          input=src, expected=ref, actual=impl, wire=ctx.replay_only["wire"], deco_seed=ctx.replay_only["deco_seed"])
        ctx.cov.update({"evaluations": 1, "distinct_nontrivial": 0, "rule": "replay", "samples": [src]})
        return
    if ctx.replay_only and ctx.replay_only.get("kinds_seed") is not None:
        ro = ctx.replay_only
        rs = evaluate(ctx, [unwire(ro["kinds_wire"])], "replay", want_trace=False)
        src, preserving, used = render_kinds(rs[0]["prog"], ro["kinds_seed"], ro.get("kinds_force"))
        for prof in ("release", "debug"):
            rec = yvlib.run_harness(ctx.harness(prof), ["run - " + hx(src)])[0]
            if impl_result(rec) != ro["expected"]:
                ctx.violation("a function of another KIND differs from the Spec", input=src, expected=ro["expected"],
                              actual=impl_result(rec) + " (%s build)" % prof, kinds_wire=ro["kinds_wire"], kinds_seed=ro["kinds_seed"],
                              kinds_force=ro.get("kinds_force"))
                break
        ctx.cov.update({"evaluations": 1, "distinct_nontrivial": 0, "rule": "replay", "samples": [src]})
        return
    if ctx.replay_only and ctx.replay_only.get("pending"):
        run_pending(ctx, stats)
        finish(ctx, stats, [])
        return
    if ctx.replay_only and ctx.replay_only.get("big_index") is not None:
        run_big(ctx, stats)
        finish(ctx, stats, [])
        return
    if ctx.replay_only and not ctx.replay_only.get("wire") and isinstance(ctx.replay_only.get("input"), str):
        # a fixed program (probe / directed family): re-run the recorded source against the recorded expectation
        rmods = ctx.replay_only.get("modules")
        rline = ("mods - " + hx(ctx.replay_only["input"]) + "".join(" %s=%s" % (hx(k), hx(v)) for k, v in sorted(rmods.items()))) if rmods \
            else "run - " + hx(ctx.replay_only["input"])
        for prof in ("release", "debug"):
            rec = yvlib.run_harness(ctx.harness(prof), [rline], case_timeout_ms=240000)[0]
            if impl_result(rec) != ctx.replay_only.get("expected"):
                ctx.violation("fixed program differs from its expectation", input=ctx.replay_only["input"],
                              expected=ctx.replay_only.get("expected"), actual=impl_result(rec) + " (%s build)" % prof,
                              **({"modules": rmods} if rmods else {}))
                break
        ctx.cov.update({"evaluations": 1, "distinct_nontrivial": 0, "rule": "replay", "samples": [ctx.replay_only["input"][:300]]})
        return
    if ctx.replay_only and ctx.replay_only.get("repl_first") is not None:
        first = ctx.replay_only["repl_first"]
        rs = [x for x in evaluate(ctx, [unwire(w_) for w_ in ctx.replay_only["wire"].split(";;")], "replay", want_trace=False)]
        recs = yvlib.run_harness(ctx.harness("release"), ["repl - " + " ".join(hx(x) for x in [first] + [r["src"] for r in rs])])
        sn = split_snips(recs[0])
        for r, s_ in zip(rs, sn[1:]):
            if impl_result(s_) != r["spec"]:
                ctx.violation("a program run after a FAILED run on the same Vm differs from the Spec", input=[first, r["src"]],
                              expected=r["spec"], actual=impl_result(s_), wire=ctx.replay_only["wire"], repl_first=first)
                break
        ctx.cov.update({"evaluations": len(rs), "distinct_nontrivial": 0, "rule": "replay", "samples": [first]})
        return
    if ctx.replay_only:
        w = ctx.replay_only.get("wire")
        if w:
            for r in evaluate(ctx, [unwire(w)], "replay", ndebug=1):
                judge(ctx, r, stats)
            finish(ctx, stats, [])
        return
    if not getattr(ctx, "_c08_skip_r9", False):
        run_round9(ctx, stats)
    if getattr(ctx, "_c08_search_fast", False):
        # search(): the cheap directed scale / cross-module families alone, first
        if stats["violations"]:
            finish(ctx, stats, [])
        return
    replay_witnesses(ctx, stats)
    run_probes(ctx, stats)
    run_directed(ctx, stats)
    run_big(ctx, stats)
    run_pending(ctx, stats)
    raise_sites_family(ctx, stats)
    progs = systematic()
    nsys = len(progs)
    n_safe, n_wild = (330, 150) if quick else (7000, 3000)
    g1 = Gen(rng, "safe")
    progs += [g1.program() for _ in range(n_safe)]
    g2 = Gen(rng, "wild")
    progs += [g2.program() for _ in range(n_wild)]
    seen = set()
    uniq = []
    for p in progs:
        w = wire(p)
        if w not in seen:
            seen.add(w)
            uniq.append(p)
    results = evaluate(ctx, uniq, "gen", ndebug=min(len(uniq), nsys if quick else nsys + 600))
    for r in results:
        judge(ctx, r, stats)
    refspec_compare(ctx, results[:nsys + (120 if quick else 3000)], stats, "gen")
    closure_family(ctx, results, stats, 200 if quick else 1500)
    repl_streams(ctx, results, stats, 72 if quick else 600)
    kinds_family(ctx, results, stats, 120 if quick else 800)
    finish(ctx, stats, results)


def unwire(w):
    def st(toks):
        t = toks.pop(0)
        if t == 0:
            return ("skip",)
        if t == 1:
            a = st(toks)
            b = st(toks)
            return ("seq", a, b)
        if t == 2:
            return ("print", toks.pop(0))
        if t == 3:
            return ("pexc",)
        if t == 4:
            return ("throw", toks.pop(0))
        if t == 5:
            return ("fail",)
        if t == 6:
            hc, hf = toks.pop(0), toks.pop(0)
            b = st(toks)
            c = st(toks) if hc else None
            f = st(toks) if hf else None
            return ("try", b, c, f)
        if t == 7:
            n = toks.pop(0)
            return ("loop", n, st(toks))
        if t == 8:
            k = toks.pop(0)
            return ("ifiter", k, st(toks))
        if t == 9:
            return ("break",)
        if t == 10:
            return ("cont",)
        if t == 11:
            return ("ret", toks.pop(0))
        if t == 12:
            return ("call", toks.pop(0))
        if t == 13:
            return ("nfail",)
        raise ValueError(t)
    return [st([int(x) for x in g.split()]) for g in w.split(";")]


def finish(ctx, stats, results):
    # violations outside the classes: shrink the first, keep at most 5
    viol = stats["violations"]
    stats.setdefault("nontrivial", set())
    # programs of the mini-language first (they shrink best), then the fixed families
    viol.sort(key=lambda r: 0 if r.get("prog") else 1)
    n0 = len(ctx.violations)
    for k, r in enumerate(viol[:5]):
        small = shrink(ctx, r) if (k == 0 and r.get("prog")) else r
        extra = {"input_summary": small["short"]} if small.get("short") else {}
        if small.get("big_index") is not None:
            extra["big_index"] = small["big_index"]
        if small.get("mods"):
            extra["modules"] = small["mods"]
        if small.get("pending"):
            extra["pending"] = True
        ctx.violation("printed trace / outcome differs from the Spec outside the known classes", input=small["src"],
                      expected=small["spec"], actual=small["impl"], model=small["m"], wire=small["wire"], **extra)
    ctx.violations[0:0] = ctx.violations[n0:]
    del ctx.violations[len(ctx.violations) - (len(ctx.violations) - n0) // 2:]
    samples = [r["src"] for r in results[-3:]] + [r["src"] for r in results if r["wire"] in stats["nontrivial"]][:2]
    deco_nt = stats.pop("deco_nontrivial", set())
    deco_sample = stats.pop("deco_sample", None)
    if deco_sample:
        samples.append(deco_sample)
    stats["deco_nontrivial_count"] = len(deco_nt)
    ctx.cov.update({
        "evaluations": stats["total"] + stats.get("deco_programs", 0) + stats.get("directed_closure_programs", 0)
                       + stats.get("kinds_programs", 0) + stats.get("repl_snippets", 0) + stats.get("pending_return_heap_programs", 0)
                       + stats.get("round9_programs", 0),
        "distinct_nontrivial": len(stats["nontrivial"]) + len(deco_nt),
        "rule": "variables-and-closures family (programs outside the classes decorated with outer locals and escaping "
                "closures, oracle = the full reference interpreter): non-trivial = the REAL trace raises an exception while "
                "a captured variable lives at or above the height of the receiving handler; PLUS generated programs (systematic throw-site x shape x exit-path table + random 'safe' and 'wild' ASTs, "
                "nesting <= 4, 1-4 functions, calls at depth 1-3); distinct by wire encoding; non-trivial = the REAL "
                "trace (hook H4) dispatches Throw (or a failing Call) while >= 2 handlers are active, or dispatches "
                "EndFinally with handling_exception or a pending return set",
        "samples": samples,
        "traces_validated_against_impl": stats["traces_ok"],
        "m_steps_compared": stats["steps"],
        "m_undefined_runs": stats["m_undefined"],
        "distribution": {k: v for k, v in stats.items() if isinstance(v, int)},
    })


def search(ctx):
    # directed families first (round 9: scale + cross-module, ~20 s): if they produce the failing input, stop there
    old = ctx.tier
    ctx._c08_search_fast = True
    try:
        n0 = len(ctx.violations)
        run(ctx)
        if len(ctx.violations) > n0:
            return
    finally:
        ctx._c08_search_fast = False
    ctx.tier = "thorough"
    ctx._c08_skip_r9 = True        # just done
    try:
        run(ctx)
    finally:
        ctx.tier = old
        ctx._c08_skip_r9 = False
