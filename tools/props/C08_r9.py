"""C08 round 9: SCALE families (sizes of the three clauses of a try statement x every exit path; counts: nesting depth,
iterations, call depth, sequential try statements) and the MODULES family (throw site and handler in DIFFERENT modules).
Every expectation is computed by construction (closed form in the size): no model evaluation of a huge program."""
import yvlib
from yvlib import hx

# ------------------------------------------------------------------------------------------------
# 1. clause sizes.  `nil;` compiles to Nil, Pop = 2 bytes; the operands of PushExcHandler are measured on the pad-free
#    template through the H4 trace (h:<catch,finally,...> offsets), so the ladders straddle the thresholds EXACTLY.

WF_MODES = (0, 1, 2, 3, 4, 5, 6)
WO_MODES = (0, 1, 2, 3, 4, 5)
WC_MODES = (0, 1, 2, 3, 4, 5, 6, 7)


def pad(n):
    return "nil; " * n


def f_wf(pt, pc, pf):
    return ('fn wf(m) { try { print("T"); if m == 2 { return "r2"; } if m == 4 { throw "x4"; } %s'
            'if m == 1 { return "r1"; } if m == 3 { throw "x3"; } if m == 5 { nil(); } if m == 6 { "12x".to_num(); } print("t"); } '
            'catch e { print("C"); %sprint(m); } finally { print("F"); %sprint("f"); } print("A"); return "e"; } '
            % (pad(pt), pad(pc), pad(pf)))


def f_wo(pt, pf):
    return ('fn wo(m) { try { print("T"); if m == 2 { return "r2"; } if m == 4 { throw "x4"; } %s'
            'if m == 1 { return "r1"; } if m == 3 { throw "x3"; } if m == 5 { nil(); } print("t"); } '
            'finally { print("F"); %sprint("f"); } print("A"); return "e"; } ' % (pad(pt), pad(pf)))


def f_wc(pt, pc):
    return ('fn wc(m) { var i = 0; while i < 2 { i = i + 1; try { print("T"); if m == 1 { break; } if m == 2 { if i == 1 { continue; } } '
            'if m == 4 { throw "x4"; } if m == 7 { throw "x7"; } %sif m == 3 { throw "x3"; } if m == 5 { break; } '
            'if m == 6 { if i == 1 { continue; } } print("t"); } catch e { print("C"); %sif m == 7 { break; } print(m); } print("A"); } '
            'throw "late"; } ' % (pad(pt), pad(pc)))


DRIVER = 'fn call(f, m) { try { print(f(m)); } catch e { print("U"); if m == 5 { print(type(e)); } else { print(e); } } print("-"); } '


_ERRLINE = "<class TypeError>"


def exp_wf(m):
    if m == 0:
        return ["T", "t", "F", "f", "A", "e", "-"]
    if m in (1, 2):
        return ["T", "F", "f", "r%d" % m, "-"]
    return ["T", "C", str(m), "F", "f", "A", "e", "-"]


def exp_wo(m):
    if m == 0:
        return ["T", "t", "F", "f", "A", "e", "-"]
    if m in (1, 2):
        return ["T", "F", "f", "r%d" % m, "-"]
    if m in (3, 4):
        return ["T", "F", "f", "U", "x%d" % m, "-"]
    return ["T", "F", "f", "U", _ERRLINE, "-"]


def exp_wc(m):
    late = ["U", "late", "-"]
    if m == 0:
        return ["T", "t", "A"] * 2 + late
    if m == 1:
        return ["T"] + late
    if m == 5:
        return ["T", "U", "<class String>", "-"]       # the driver prints the type for mode 5
    if m in (2, 6):
        return ["T", "T", "t", "A"] + late
    if m in (3, 4):
        return ["T", "C", str(m), "A"] * 2 + late
    return ["T", "C"] + late


def size_program(pt, pc, pf, wc_cap=14000):
    """one program = the three templates with the given pad counts, every exit path of each, then an uncaught throw
    leaving wo through its finally clause; -> (source, expected impl_result string)"""
    src = f_wf(pt, pc, pf) + f_wo(pt, pf) + f_wc(min(pt, wc_cap), min(pc, wc_cap)) + DRIVER
    exp = []
    for m in WF_MODES:
        src += "call(wf, %d); " % m
        exp += exp_wf(m)
    for m in WO_MODES:
        src += "call(wo, %d); " % m
        exp += exp_wo(m)
    for m in WC_MODES:
        src += "call(wc, %d); " % m
        exp += exp_wc(m)
    src += 'print("end"); wo(3);'
    exp += ["end", "T", "F", "f"]
    return src, exp, "x3"


_ERRLINE = "<class TypeError>"


def match_out(got, want):
    return got == want


def calibrate(binary):
    """(try operand, catch operand) of wf at pad 0, and the finally-clause pad unit: from the first handler record of a trace"""
    src, _, _ = size_program(0, 0, 0)
    rec = yvlib.run_harness(binary, ["trace - 200 " + hx(src)], case_timeout_ms=30000)[0]
    for f in rec.tagged("T"):
        hf = [x for x in f if x.startswith("h:") and len(x) > 2]
        if hf and len(hf[0][2:].split(";")) == 2:      # the driver's handler + wf's own (pushed last)
            a = hf[0][2:].split(";")[1].split(",")
            return int(a[0]), int(a[1]), int(f[2])
    return None


THRESHOLDS = (128, 256, 32768)


def size_cases(base_try, base_catch):
    """[(label, pt, pc, pf)]: one clause at a time through the ladder (operand just below / at-or-above each threshold, and
    far ends), then pairs and a triple"""
    def n_for(base, target):
        return max(0, (target - base + 1) // 2)      # smallest pad with operand >= target
    cases = []
    for dim, base in (("try", base_try), ("catch", base_catch), ("finally", 20)):
        ns = []
        for t in THRESHOLDS:
            n = n_for(base, t)
            ns += [max(0, n - 1), n]
        ns += [n_for(base, 1000), n_for(base, 40000), n_for(base, 65000), n_for(base, 65500)]
        for n in sorted(set(ns)):
            cases.append(("%s pad %d" % (dim, n), n if dim == "try" else 1, n if dim == "catch" else 1, n if dim == "finally" else 1))
    nt, nc = n_for(base_try, 32768), n_for(base_catch, 32768)
    cases += [("try+catch just below 65536", nt - 2, nc - 2, 1), ("try 20000 + catch 45000", 10000, 22500, 3),
              ("try 45000 + catch 20000", 22500, 10000, 3), ("all three 32768+", nt, nc, nt),
              ("try 100 + catch 65000 + finally 65000", 50, n_for(base_catch, 65000), 32500),
              ("try 65000 + finally 65000", n_for(base_try, 65000), 1, 32500)]
    return cases


def lean_cases():
    """small try statements: pads 20..65 in the try block / the catch clause put the two operands on every value around 127/128
    (the big templates start above it); -> [(label, src, expected impl_result)]"""
    res = []
    for dim in ("try", "catch"):
        for n in range(20, 66):
            pt, pc = (n, 1) if dim == "try" else (1, n)
            src = ('fn lean(m) { try { %sif m == 1 { return "r"; } if m == 2 { throw "x"; } print("t"); } catch e { %sprint(e); } '
                   'finally { print("F"); } return "e"; } print(lean(0)); print(lean(1)); print(lean(2)); '
                   'fn bare(m) { try { %sif m == 1 { return "r"; } if m == 2 { throw "x"; } print("t"); } finally { print("F"); } return "e"; } '
                   'print(bare(0)); print(bare(1)); bare(2);' % (pad(pt), pad(pc), pad(pt)))
            res.append(("lean %s pad %d" % (dim, n), src, "t,F,e,F,r,x,F,e,t,F,e,F,r,F/U:x"))
    return res


def run_sizes(ctx, stats, impl_result):
    rel, dbg = ctx.harness("release"), ctx.harness("debug")
    cal = calibrate(rel)
    if cal is None:
        ctx.notes.append("C08 scale family: no handler record in the calibration trace - sizes not calibrated (defaults used)")
        cal = (43, 55, 0)
    catch_off, fin_off, push_pc = cal
    base_try = catch_off - push_pc      # push_pc = pc of the instruction AFTER PushExcHandler
    base_catch = fin_off - catch_off
    # at pad 0 the template already has pad(0): base operands are those of the pad-free template
    cases = size_cases(base_try, base_catch)
    progs = [(lab,) + size_program(pt, pc, pf) + ((base_try + 2 * pt, base_catch + 2 * pc, 2 * pf),) for lab, pt, pc, pf in cases]
    progs += [(lab, src, want.split("/U:")[0].split(","), "x", (0, 0, 0)) for lab, src, want in lean_cases()]
    nbad = 0
    for prof, b in (("release", rel), ("debug", dbg)):
        recs = yvlib.run_harness(b, ["run - " + hx(p[1]) for p in progs], case_timeout_ms=90000)
        for (lab, src, want, unc, ops), rec in zip(progs, recs):
            ok = match_out(rec.output, want) and impl_result(rec).endswith("/U:" + unc)
            if not ok and rec.result[0] == "crash" and "timeout" in str(rec.result[1]).lower():
                rec = yvlib.run_harness(b, ["run - " + hx(src)], case_timeout_ms=240000)[0]
                ok = match_out(rec.output, want) and impl_result(rec).endswith("/U:" + unc)
            if not ok and nbad < 3:
                nbad += 1
                k = 0
                while k < len(want) and k < len(rec.output) and want[k] == rec.output[k]:
                    k += 1
                stats["violations"].append({
                    "src": src, "spec": ",".join(want) + "/U:" + unc, "impl": impl_result(rec) + " (%s build)" % prof, "m": None,
                    "wire": "", "prog": None, "scale": True,
                    "short": "SCALE %s: PushExcHandler operands try=%d catch=%d, finally clause ~%d bytes; first difference at printed line %d "
                             "(templates wf = try/catch/finally, wo = try/finally, wc = try/catch in a loop; modes = exit paths); source %d bytes: %s ... %s"
                             % (lab, ops[0], ops[1], ops[2], k, len(src), src[:100], src[-200:])})
        if nbad:
            break
    stats["scale_size_programs"] = len(progs)
    stats["scale_size_operands"] = "base try=%d catch=%d; ladder: %s" % (base_try, base_catch, "; ".join(
        "%s -> (%d,%d,%d)" % (p[0], p[4][0], p[4][1], p[4][2]) for p in progs))[:3000]


# ------------------------------------------------------------------------------------------------
# 2. counts: nesting depth of try statements, iterations (throws caught / finally runs), call depth with a finally per
#    frame, number of sequential try statements in one function - closed-form expectations

def count_cases(quick):
    cases = []
    for d in (2, 17, 33, 60, 129, 300):
        # d nested try/finally inside one catch; throw at the innermost: finally blocks run inside-out, then the catch
        src = "fn deep() { try { " + "".join("try { " for _ in range(d)) + "throw \"x\"; " + \
              "".join("} finally { print(%d); } " % k for k in range(d, 0, -1)) + '} catch e { print(e); } print("A"); return 1; } print(deep()); '
        src += 'try { throw "late"; } catch e { print(e); }'
        cases.append(("nesting depth %d (finally at every level)" % d, src, [str(k) for k in range(d, 0, -1)] + ["x", "A", "1", "late"]))
        # d nested try/catch, the k-th level rethrows: every catch sees the exception once
        src = "var c = 0; fn deep() { " + "".join("try { " for _ in range(d)) + "throw 1; " + \
              "".join("} catch e { c = c + 1; throw e + 1; } " for _ in range(d - 1)) + "} catch e { print(e); } return c; } print(deep());"
        cases.append(("nesting depth %d (catch rethrows at every level)" % d, src, [str(d), str(d - 1)]))
    for n in ((17, 129, 300, 1100, 5000, 70000) if quick else (17, 129, 300, 1100, 5000, 70000, 300000)):
        src = ("var c = 0; var f = 0; var t = 0; fn loop(n) { var i = 0; while i < n { i = i + 1; try { t = t + 1; if i %% 3 == 0 "
               "{ throw i; } if i %% 7 == 0 { nil(); } } catch e { c = c + 1; } finally { f = f + 1; } } return i; } "
               "print(loop(%d)); print(c); print(f); print(t); try { throw \"late\"; } catch e { print(e); }" % n)
        caught = n // 3 + n // 7 - n // 21
        cases.append(("%d iterations of try/catch/finally" % n, src, [str(n), str(caught), str(n), str(n), "late"]))
        src = ("var f = 0; fn one(i) { try { if i %% 2 == 0 { return i; } throw i; } finally { f = f + 1; } } "
               "fn loop(n) { var i = 0; var c = 0; while i < n { i = i + 1; try { one(i); } catch e { c = c + 1; } } return c; } "
               "print(loop(%d)); print(f);" % n)
        cases.append(("%d calls leaving try/finally by return or throw" % n, src, [str(n - n // 2), str(n)]))
    for d in (2, 17, 33, 55, 60, 61):
        src = ("var f = 0; fn rec(k) { try { if k == 0 { throw \"bottom\"; } rec(k - 1); print(\"no\"); } finally { f = f + 1; } } "
               "fn top() { try { rec(%d); } catch e { print(e); } return f; } print(top());" % d)
        cases.append(("call depth %d with a finally per frame" % d, src, ["bottom", str(d + 1)]))
    for n, k in ((17, 3), (33, 33), (65, 65), (129, 100), (200, 50), (250, 3), (4, 240)):
        # n locals live at the handler, k locals of the try block discarded by the unwind: the function's variables stay intact
        src = ("fn lf(m) { " + "".join("var a%d = %d; " % (i, i) for i in range(n)) + "try { "
               + "".join("var b%d = %d; " % (i, 1000 + i) for i in range(k))
               + "if m == 1 { throw a%d + b%d; } if m == 2 { return a%d; } a0 = b0; } catch e { print(e); a1 = a1 + e; } "
                 "finally { a2 = a2 + 1; print(a%d); } return a0 + a1 + a2 + a%d; } print(lf(0)); print(lf(1)); print(lf(2));"
               % (n - 1, k - 1, n - 2, n - 1, n - 1))
        e = n + k + 998
        cases.append(("%d locals at the handler, %d locals inside the try block" % (n, k), src,
                      [str(x) for x in (n - 1, n + 1003, e, n - 1, e + n + 3, n - 1, n - 2)]))
    for n in (17, 129, 300, 1100):
        body = "".join("try { if m == %d { throw %d; } s = s + 1; } catch e { print(e); } finally { g = g + 1; } " % (k, k) for k in range(n))
        src = "var g = 0; fn many(m) { var s = 0; %sreturn s; } print(many(-1)); print(many(0)); print(many(%d)); print(many(%d)); print(g);" \
              % (body, n // 2, n - 1)
        cases.append(("%d sequential try statements in one function" % n, src,
                      [str(n), "0", str(n - 1), str(n // 2), str(n - 1), str(n - 1), str(n - 1), str(4 * n)]))
    return cases


def run_counts(ctx, stats, impl_result):
    cases = count_cases(ctx.quick())
    nbad = 0
    for prof in ("release", "debug"):
        sel = [c for c in cases if prof == "release" or len(c[1]) < 40000 and "70000" not in c[0] and "300000" not in c[0]]
        recs = yvlib.run_harness(ctx.harness(prof), ["run - " + hx(c[1]) for c in sel], case_timeout_ms=90000)
        for (lab, src, want), rec in zip(sel, recs):
            ok = rec.result[0] == "ok" and rec.output == want
            if not ok and rec.result[0] == "crash":
                rec = yvlib.run_harness(ctx.harness(prof), ["run - " + hx(src)], case_timeout_ms=240000)[0]
                ok = rec.result[0] == "ok" and rec.output == want
            if not ok and nbad < 3:
                nbad += 1
                stats["violations"].append({"src": src, "spec": ",".join(want) + "/D", "impl": impl_result(rec) + " (%s build)" % prof,
                                            "m": None, "wire": "", "prog": None, "scale": True,
                                            "short": "SCALE %s; source %d bytes: %s ... %s" % (lab, len(src), src[:200], src[-200:])})
        if nbad:
            break
    stats["scale_count_programs"] = len(cases)


# ------------------------------------------------------------------------------------------------
# 3. modules: the exception is raised in one module and handled in another; handlers and finally blocks read, write and
#    define globals of THEIR OWN module and create closures there (harness `mods`)

LIB2 = ('var tag = "lib2"; var cnt = 2000; fn thrower(k) { if k == 0 { throw "x0"; } if k == 1 { nil(); } if k == 2 { "12x".to_num(); } '
        'if k == 3 { [1][5]; } return tag; } fn get() { return cnt; } ')

LIB = ('import "lib2"; var tag = "lib"; var cnt = 1000; '
       'fn thrower(k) { if k == 0 { throw "x0"; } if k == 1 { nil(); } if k == 2 { "12x".to_num(); } if k == 3 { [1][5]; } return tag; } '
       '#[constructor(new)] class K { fn boom(self, k) { thrower(k); return tag; } #[static] fn sboom(k) { thrower(k); return tag; } } '
       'fn method(k) { return K.new().boom(k); } '
       'fn mk() { return |k| thrower(k); } '
       'fn via_finally(k) { try { thrower(k); } finally { print(tag); cnt = cnt + 1; } return tag; } '
       'fn apply(f, k) { try { return f(k); } finally { print(tag); cnt = cnt + 1; } } '
       'fn chain(k) { return lib2.thrower(k); } '
       'fn chain_catch(k) { try { lib2.thrower(k); } catch e { print(tag); cnt = cnt + 1; throw "re"; } return tag; } '
       'fn inner_fiber(k) { var fb = Fiber.new(|| { try { lib2.thrower(k); } catch e { print(tag); cnt = cnt + 1; } return tag; }); return fb.call(); } '
       'fn get() { return cnt; } ')

# route -> (call expression in main, lines printed by library code on the way when the exception passes,
#           increments of lib.cnt, does the exception reach main?)
ROUTES = {
    "function": ("lib.thrower(%d)", [], 0, True),
    "method": ("lib.K.new().boom(%d)", [], 0, True),
    "method via function": ("lib.method(%d)", [], 0, True),
    "static method": ("lib.K.sboom(%d)", [], 0, True),
    "closure made in lib": ("lib.mk()(%d)", [], 0, True),
    "through a finally in lib": ("lib.via_finally(%d)", ["lib"], 1, True),
    "callback of main run by lib": ("lib.apply(mine, %d)", ["lib"], 1, True),
    "lib calls lib2": ("lib.chain(%d)", [], 0, True),
    "lib catches lib2 and rethrows": ("lib.chain_catch(%d)", ["lib"], 1, True),
    "fiber in lib handles lib2": ("lib.inner_fiber(%d)", ["lib"], 1, False),
}

HSHAPES = ("catch", "catch+finally", "finally inside catch", "in function", "in method", "in fiber")


def module_case(route, k, shape):
    call, libprints, libinc, reaches = ROUTES[route]
    call = call % k
    use = 'print(tag); cnt = cnt + 1; var fresh%s = cnt; print(fresh%s); var cl%s = || tag; print(cl%s());'
    # a local declared in the finally block of a try WITHOUT catch is the open class finally_local: none there
    hc, hf, hi = use % (("c",) * 4), use % (("f",) * 4), 'print(tag); cnt = cnt + 1; print(cnt); print(tag);'
    pre = 'import "lib"; var tag = "main"; var cnt = 0; fn mine(k) { if k < 9 { throw tag; } return k; } '
    post = 'print(tag); print(cnt); print(lib.get()); print(lib.tag); try { throw "late"; } catch e { print(e); print(tag); }'
    exp = []
    cnt = 0

    def used():
        nonlocal cnt
        cnt += 1
        return ["main", str(cnt), "main"]
    if shape == "catch":
        body = 'try { print(%s); print("ret"); } catch e { %s }' % (call, hc)
        exp += libprints + (used() if reaches else ["lib", "ret"])
    elif shape == "catch+finally":
        body = 'try { print(%s); print("ret"); } catch e { %s } finally { %s }' % (call, hc, hf)
        exp += libprints + (used() if reaches else ["lib", "ret"]) + used()
    elif shape == "finally inside catch":
        body = 'try { try { print(%s); print("ret"); } finally { %s } } catch e { %s }' % (call, hi, hc)
        exp += libprints + ([] if reaches else ["lib", "ret"]) + used() + (used() if reaches else [])
    elif shape == "in function":
        body = 'fn h() { try { print(%s); print("ret"); } catch e { print(tag); cnt = cnt + 1; return tag; } finally { print(cnt); } return "n"; } print(h());' % call
        # return inside catch with a finally clause is the open class early_exit_skips_finally: no return there
        body = 'fn h() { var r = "n"; try { print(%s); print("ret"); } catch e { print(tag); cnt = cnt + 1; r = tag; } finally { print(cnt); } return r; } print(h());' % call
        if reaches:
            cnt += 1
            exp += libprints + ["main", "1", "main"]
        else:
            exp += libprints + ["lib", "ret", "0", "n"]
    elif shape == "in method":
        body = ('#[constructor(new)] class H { fn h(self) { try { print(%s); print("ret"); } catch e { print(tag); cnt = cnt + 1; self.t = tag; } '
                'return cnt; } } var ho = H.new(); print(ho.h());' % call)
        if reaches:
            cnt += 1
            exp += libprints + ["main", "1"]
        else:
            exp += libprints + ["lib", "ret", "0"]
    else:
        body = ('var fb = Fiber.new(|| { try { print(%s); print("ret"); } catch e { print(tag); cnt = cnt + 1; } finally { print(cnt); } return tag; }); '
                'print(fb.call());' % call)
        if reaches:
            cnt += 1
            exp += libprints + ["main", "1", "main"]
        else:
            exp += libprints + ["lib", "ret", "0", "main"]
    exp += ["main", str(cnt), str(1000 + libinc), "lib", "late", "main"]
    mods = {"lib": LIB, "lib2": LIB2}
    return pre + body + " " + post, mods, exp


def import_cases():
    """the exception is raised by the TOP-LEVEL code of a module during its import"""
    res = []
    for k in range(4):
        bad = 'var tag = "bad"; var cnt = 5; fn thrower(k) { if k == 0 { throw "x0"; } if k == 1 { nil(); } if k == 2 { "12x".to_num(); } ' \
              'if k == 3 { [1][5]; } return tag; } print(tag); thrower(%d); print("no");' % k
        src = ('var tag = "main"; var cnt = 0; try { import "bad"; print("no"); } catch e { print(tag); cnt = cnt + 1; var fresh = cnt; print(fresh); } '
               'finally { print(tag); cnt = cnt + 1; } print(tag); print(cnt); try { throw "late"; } catch e { print(e); print(tag); }')
        res.append((src, {"bad": bad}, ["bad", "main", "1", "main", "main", "2", "late", "main"], "import / kind %d" % k))
    return res


def mods_line(main, mods):
    return "mods - " + hx(main) + "".join(" %s=%s" % (hx(k), hx(v)) for k, v in sorted(mods.items()))


def module_cases(ctx):
    cases = []
    for route in ROUTES:
        for k in range(4):
            for shape in HSHAPES:
                src, mods, exp = module_case(route, k, shape)
                cases.append((src, mods, exp, "%s / kind %d / %s" % (route, k, shape)))
    cases += import_cases()
    return cases


def run_modules(ctx, stats, impl_result, only=None):
    cases = module_cases(ctx) if only is None else [only]
    nbad = 0
    for prof in ("release", "debug"):
        recs = yvlib.run_harness(ctx.harness(prof), [mods_line(c[0], c[1]) for c in cases], case_timeout_ms=30000)
        for (src, mods, want, lab), rec in zip(cases, recs):
            ok = rec.result[0] == "ok" and rec.output == want
            if not ok and rec.result[0] == "crash":
                rec = yvlib.run_harness(ctx.harness(prof), [mods_line(src, mods)], case_timeout_ms=120000)[0]
                ok = rec.result[0] == "ok" and rec.output == want
            if not ok and nbad < 3:
                nbad += 1
                stats["violations"].append({"src": src, "spec": ",".join(want) + "/D", "impl": impl_result(rec) + " (%s build; %s)" % (prof, lab),
                                            "m": None, "wire": "", "prog": None, "mods": mods, "xmod": lab})
        if nbad:
            break
    stats["cross_module_cases"] = len(cases)
