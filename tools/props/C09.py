"""C09 - fibers transfer control and values faithfully and keep their own state.

Theorems (coq/props/C09.v over FiberBase/Coroutines/Fibers/FiberLang/FibersProofs.v): for EVERY program of a
mini-language of fiber programs (= every interleaving of call/yield/return/throw over any number of fibers,
nested frames, try blocks spanning switches, captured locals) the mechanism M (stack slots popped and poked by
load_fiber/unload_fiber/return_impl as in vm.rs) delivers what the coroutine Spec S delivers; rejected
operations leave every fiber's state untouched; an operation touches no other fiber except the hand-over
slot; the caller links form a simple chain to the root.
Tie: (t) translator: shape of load_fiber/unload_fiber/return_impl/fiber_call regenerated (gen/FiberArms.v);
(a) impl == M: hook H4 (`trace`): the switch events of the real VM (fiber id, stack length, frame count,
has_caller at the first instruction after every switch) against M's schedule for the rendered program;
fiber_ptr_ok at every instruction in dev AND release; dev trace == release trace;
(b) impl == S: printed output + outcome of rendered programs against eval_coroutine (vm_compute);
metamorphic: a program prints the same when its whole body is moved into a fiber that is called once;
(c) a family with `finally` blocks that switch fibers (outside the mini-language; Python-side expectations);
(d) heap-state family: every per-fiber piece of state (local, local of a nested frame, captured variable, catch
variable, handler spanning the switch, pending `return` / pending exception inside a finally block that yields,
handed-over values) holds a FRESH heap object across suspensions while other fibers and the main script allocate;
run in the debug build (collection at every allocation) and in release with gc=always, freed memory quarantined;
(e) module family (harness `mods`): fibers defined in modules la/lb/main (globals `tag`/`cnt` of the same names in all),
nested 1-3 deep across modules, driven from main's top level, main's functions, a lambda and a library function; the
caller's own globals are read and written right after every call returns (yield, normal end, rejected call);
(f) round 7, back-to-back switches: EVERY switch sequence once more with NOTHING between two switches of a fiber (no print,
no has_finished, no function call: whatever `call_native` or a helper frame would reset stays as the switch left it, e.g. the
per-fiber record of the native arity, which is stale after a call answered by the callee RETURNING - YV.FiberArityProofs),
every switch with / without a value, random per-gap decorations; random programs of style `bare`; ALL mini-language programs
also run in the release build with gc=always + a collection after the run + freed memory quarantined.
(g) round 9, stack-capacity scale family (props/c09_r9.py): recursion D deep (<= 63 frames) x L locals per activation (1..250) at
module level / in a fiber / in a fiber called by a fiber / suspended at the bottom / three fibers deep at once / chains of up to
33 fibers, closed-form oracle: every fiber has the capacity of the fiber that runs the program;
(h) round 9, finally x fiber switch (props/c09_r9.py): one interpreter of the compiler's handler instructions in two modes - flag
per fiber (Spec) / one flag per VM (vm.rs) - the open class finally_switch_shares_flag is COMPUTED (the modes differ); outside it
the implementation must equal the Spec, inside it the one-flag mechanism, in every cell of finally entered by exception / return /
normally x calls a fiber that returns / yields / throws / ... x what follows.
The model is evaluated with the shape constant passed as a literal (not through YVGen.FiberArms): when the translator no
longer recognises a switch function the dynamic part still runs and produces the failing input."""
import json
import os

import yvlib
from yvlib import hx, log

LEVEL = "proof"
TRUSTED = [
    "Coq 8.16.1 kernel (coqc), vm_compute; no native_compute, no extraction",
    "translator/translate_c09.py (token shape of load_fiber / unload_fiber / return_impl / fiber_call / fiber_yield; the "
    "functions that read ObjFiber.native_arity, the bracket set/clear of call_native)",
    "hook H4 (vm.rs verif_trace, feature verif_hooks), the harness `yv` (Rust), tools/*.py (Python)",
    "YV.FiberLang.render (mini-AST -> yarel source) and the wire decoder prog_of_wire are definitions, not verified",
    "modelled, not verified: the compiler's slot layout of a body (slot 0 closure, parameter, three locals) and of the "
    "helper functions - checked on every traced program through the stack lengths at the switch points",
]
ASSUMPTIONS = [
    "the interpreter's cached registers (ip, active_chunk, active_module, unsafe_fiber) are not state of M: "
    "checked dynamically (fiber_ptr_ok, dev trace == release trace), proved in C10",
    "no yarel value denotes the root fiber (vs_call excludes fiber 0)",
    "`finally` is outside the Coq mini-language; family (c) uses hand-derived expectations, family (h) two Python interpreters "
    "(props/c09_r9.py: flag per fiber = Spec, one flag per VM = vm.rs) that are trusted, validated against the unchanged tree",
    "ObjFiber.native_arity is not state of M: sound while only the natives' argument accessors read it (regenerated side "
    "condition C09_side_arity_scope; YV.FiberArity models the record: fresh inside a native, stale outside)",
]

FINDINGS_PATH = os.path.join(yvlib.VERIF, "notes", "C09-findings.json")
NV = 3

# ------------------------------------------------------------------------------------------------
# mini-AST (python side: generation, wire encoding, measurement; semantics and rendering come from Coq)
# expr: ("nil",) ("const", z) ("var", i) ("param",)
# action: ("print", e) ("set", x, e) ("yield", dst, arg, nested) ("call", dst, k, arg, nested) ("call2", k, e1, e2)
#         ("return", arg) ("throw", z) ("hasfin", k) ("try",) ("endtry",) ("capture", x) ("printcap", k) ("setcap", k, e)
# prog: {"main": [...], "fibers": [{"param": bool, "body": [...]}]}


def w_expr(e):
    return {"nil": [0, 0], "const": [1, e[1] if len(e) > 1 else 0], "var": [2, e[1] if len(e) > 1 else 0],
            "param": [3, 0]}[e[0]]


def w_oexpr(e):
    return [0, 0, 0] if e is None else [1] + w_expr(e)


def w_ovar(d):
    return 0 if d is None else d + 1


def w_action(a):
    t = a[0]
    if t == "print":
        return [0] + w_expr(a[1])
    if t == "set":
        return [1, a[1]] + w_expr(a[2])
    if t == "yield":
        return [2, w_ovar(a[1])] + w_oexpr(a[2]) + [int(a[3])]
    if t == "call":
        return [3, w_ovar(a[1]), a[2]] + w_oexpr(a[3]) + [int(a[4])]
    if t == "call2":
        return [4, a[1]] + w_expr(a[2]) + w_expr(a[3])
    if t == "return":
        return [5] + w_oexpr(a[1])
    if t == "throw":
        return [6, a[1]]
    if t == "hasfin":
        return [7, a[1]]
    if t == "try":
        return [8]
    if t == "endtry":
        return [9]
    if t == "capture":
        return [10, a[1]]
    if t == "printcap":
        return [11, a[1]]
    if t == "setcap":
        return [12, a[1]] + w_expr(a[2])
    raise ValueError(a)


def wire(p):
    groups = [[99, 0]] + [w_action(a) for a in p["main"]]
    for f in p["fibers"]:
        groups.append([99, int(f["param"])])
        groups += [w_action(a) for a in f["body"]]
    return ";".join(" ".join(str(x) for x in g) for g in groups)


def prog_size(p):
    return len(p["main"]) + sum(len(f["body"]) for f in p["fibers"])


# ------------------------------------------------------------------------------------------------
# generation: bodies are written while a status-only simulation of the coroutines runs, so that every body is
# the script of its part of ONE explicit interleaving


class Sim:
    """who runs, who waits for whom, who is suspended/done; try depth per fiber; measures for `nontrivial`"""

    def __init__(self, nf, params):
        self.nf = nf
        self.params = params            # dict k -> bool
        self.status = {0: "running"}
        self.status.update({k: "new" for k in range(1, nf + 1)})
        self.back = {}
        self.cur = 0
        self.depth = {k: 0 for k in range(nf + 1)}
        self.bodies = {k: [] for k in range(nf + 1)}
        self.ended = False              # the run is over (uncaught exception / main returned)
        self.max_susp = 0
        self.val_in = 0                 # values handed to a fiber by call(arg)
        self.val_out = 0                # values handed back by yield(arg)/return arg
        self.switches = 0
        self.errors = 0
        self.kinds = set()

    def emit(self, a):
        self.bodies[self.cur].append(a)

    def note(self):
        n = sum(1 for k in range(1, self.nf + 1) if self.status[k] == "suspended")
        self.max_susp = max(self.max_susp, n)

    def valid_call(self, k, argc):
        st = self.status[k]
        if st == "new":
            return argc == (1 if self.params[k] else 0)
        return st == "suspended" and argc <= 1

    def do_call(self, dst, k, arg, nested):
        """a call that succeeds"""
        self.emit(("call", dst, k, arg, nested))
        self.kinds.add("call-nested" if nested else "call")
        self.status[self.cur] = "calling"
        self.back[k] = self.cur
        self.status[k] = "running"
        self.cur = k
        self.switches += 1
        if arg is not None:
            self.val_in += 1
        self.note()

    def do_yield(self, dst, arg, nested):
        self.emit(("yield", dst, arg, nested))
        self.kinds.add("yield-nested" if nested else "yield")
        me = self.cur
        self.status[me] = "suspended"
        self.cur = self.back.pop(me)
        self.status[self.cur] = "running"
        self.switches += 1
        if arg is not None:
            self.val_out += 1
        self.note()

    def do_return(self, arg, explicit=True):
        if explicit:
            self.emit(("return", arg))
        self.kinds.add("return" if explicit else "fall-off")
        me = self.cur
        if me == 0:
            self.ended = True
            return
        self.status[me] = "done"
        self.cur = self.back.pop(me)
        self.status[self.cur] = "running"
        self.switches += 1
        if arg is not None:
            self.val_out += 1
        self.note()

    def raise_(self):
        """an exception in the running fiber: caught by its own innermost try (the generator then closes the try,
        the rest of the block being dead code), or the run ends"""
        self.errors += 1
        if self.depth[self.cur] > 0:
            self.emit(("endtry",))
            self.depth[self.cur] -= 1
        else:
            self.ended = True

    def finish(self):
        """close the open try blocks; bodies simply end (running fibers fall off their end one after the other)"""
        for k in range(self.nf + 1):
            self.bodies[k] += [("endtry",)] * self.depth[k]
            self.depth[k] = 0
        return {"main": self.bodies[0],
                "fibers": [{"param": self.params[k], "body": self.bodies[k]} for k in range(1, self.nf + 1)]}

    def measures(self):
        return {"max_suspended": self.max_susp, "val_in": self.val_in, "val_out": self.val_out,
                "switches": self.switches, "errors": self.errors, "kinds": sorted(self.kinds)}


def nontrivial(meas):
    return meas["max_suspended"] >= 2 and meas["val_in"] >= 1 and meas["val_out"] >= 1


class Vals:
    def __init__(self):
        self.n = 100

    def fresh(self):
        self.n += 1
        return ("const", self.n)


def gen_expr(rng, vals, param_ok=True):
    r = rng.random()
    if r < 0.45:
        return vals.fresh()
    if r < 0.8:
        return ("var", rng.randrange(NV))
    if r < 0.9 and param_ok:
        return ("param",)
    return ("nil",)


def gen_program(rng, nf=None, steps=None, style=None):
    nf = nf or rng.choice([1, 2, 2, 3, 3, 4])
    steps = steps or rng.randint(6, 40)
    params = {k: rng.random() < 0.5 for k in range(1, nf + 1)}
    params[0] = False
    sim = Sim(nf, params)
    vals = Vals()
    style = style or rng.choice(["busy", "busy", "errors", "captures", "deep", "bare"])
    for _ in range(steps):
        if sim.ended:
            break
        me = sim.cur
        r = rng.random()
        if style == "bare" and r < 0.49 and rng.random() < (0.9 if me != 0 else 0.5):
            # round 7: switches follow one another back to back (no print / has_finished / closure call in between)
            r = 0.49 + rng.random() * 0.51
        dst = rng.choice([None, 0, 1, 2, 0, 1])
        nested = rng.random() < 0.3
        if r < 0.18:
            sim.emit(("print", gen_expr(rng, vals)))
        elif r < 0.22:
            sim.emit(("set", rng.randrange(NV), gen_expr(rng, vals)))
        elif r < 0.28:
            sim.emit(("hasfin", rng.randint(1, nf)))
            sim.kinds.add("hasfin")
        elif r < 0.33 and sim.depth[me] < 2:
            sim.emit(("try",))
            sim.depth[me] += 1
            sim.kinds.add("try")
        elif r < 0.36 and sim.depth[me] > 0:
            sim.emit(("endtry",))
            sim.depth[me] -= 1
        elif r < 0.40:
            if sim.depth[me] > 0 or rng.random() < 0.15:
                sim.emit(("throw", vals.fresh()[1]))
                sim.kinds.add("throw-caught" if sim.depth[me] > 0 else "throw-uncaught")
                sim.raise_()
        elif r < 0.44 and style in ("captures", "busy"):
            sim.emit(("capture", rng.randrange(NV)))
            sim.kinds.add("capture")
        elif r < 0.49 and style in ("captures", "busy"):
            sim.emit(rng.choice([("printcap", rng.randint(0, nf)), ("setcap", rng.randint(0, nf), gen_expr(rng, vals))]))
            sim.kinds.add("cap-use")
        elif r < 0.74:
            # a call
            k = rng.randint(1, nf)
            want_valid = rng.random() < (0.6 if style == "errors" else 0.9)
            cands = [j for j in range(1, nf + 1) if sim.status[j] in ("new", "suspended")]
            if want_valid and cands:
                k = rng.choice(cands)
                if sim.status[k] == "new":
                    arg = gen_expr(rng, vals) if params[k] else None
                else:
                    arg = gen_expr(rng, vals) if rng.random() < 0.6 else None
                sim.do_call(dst, k, arg, nested)
            else:
                # rejected: finished / running / waiting fiber, wrong argument count
                arg = gen_expr(rng, vals) if rng.random() < 0.5 else None
                two = rng.random() < 0.15
                ok = (not two) and sim.valid_call(k, 0 if arg is None else 1)
                if ok:
                    sim.do_call(dst, k, arg, nested)
                    continue
                wrap = sim.depth[me] == 0 and rng.random() < 0.85
                if wrap:
                    sim.emit(("try",))
                    sim.depth[me] += 1
                sim.emit(("call2", k, gen_expr(rng, vals), gen_expr(rng, vals)) if two else ("call", dst, k, arg, nested))
                sim.kinds.add("rejected-" + ("argc2" if two else sim.status[k]))
                sim.raise_()
        elif r < 0.92:
            arg = gen_expr(rng, vals) if rng.random() < 0.7 else None
            if me != 0:
                sim.do_yield(dst, arg, nested)
            elif rng.random() < 0.3:
                wrap = sim.depth[me] == 0 and rng.random() < 0.85
                if wrap:
                    sim.emit(("try",))
                    sim.depth[me] += 1
                sim.emit(("yield", dst, arg, nested))
                sim.kinds.add("rejected-yield-outside")
                sim.raise_()
        else:
            if sim.depth[me] == 0 and me != 0:
                sim.do_return(gen_expr(rng, vals) if rng.random() < 0.7 else None)
    # remaining fibers fall off their end; measure those switches too
    p = sim.finish()
    if not sim.ended:
        while sim.cur != 0:
            sim.do_return(None, explicit=False)
    return p, sim.measures()


def enum_interleavings(nf, max_switch, variant):
    """EVERY sequence of at most `max_switch` switch points (call fk of a new/suspended fiber | yield | return) over
    nf fibers; the local decoration is deterministic: every value received is stored and printed together with
    has_finished of every fiber; arguments are present/absent and calls/yields direct/nested by `variant`."""
    out = []

    def deco(sim):
        for k in range(1, nf + 1):
            sim.emit(("hasfin", k))

    def rec(state, seq):
        # state is rebuilt from seq to keep the code simple (programs are tiny)
        if seq:
            out.append(list(seq))
        if len(seq) >= max_switch:
            return
        sim = replay(seq)
        if sim.ended:
            return
        me = sim.cur
        for k in range(1, nf + 1):
            if sim.status[k] in ("new", "suspended"):
                rec(None, seq + [("C", k)])
        if me != 0:
            rec(None, seq + [("Y",)])
            rec(None, seq + [("R",)])

    def replay(seq):
        params = {k: ((k + variant) % 2 == 0) for k in range(1, nf + 1)}
        params[0] = False
        sim = Sim(nf, params)
        c = [200]

        def val():
            c[0] += 1
            return ("const", c[0])
        started = set()
        for i, op in enumerate(seq):
            me = sim.cur
            nested = ((i + variant) % 3 == 0)
            witharg = ((i + variant // 2) % 4 != 1)
            if op[0] == "C":
                k = op[1]
                if sim.status[k] == "new":
                    arg = val() if params[k] else None
                else:
                    arg = val() if witharg else None
                sim.do_call(0, k, arg, nested)
                if k not in started:
                    started.add(k)
                    sim.emit(("print", ("param",)))
                    if (k + variant) % 3 == 0:
                        sim.emit(("try",))
                        sim.depth[k] += 1
                else:
                    sim.emit(("print", ("var", 0)))
                deco(sim)
            elif op[0] == "Y":
                sim.do_yield(0, val() if witharg else None, nested)
                sim.emit(("print", ("var", 0)))
                deco(sim)
            else:
                if sim.depth[me] > 0:
                    sim.emit(("throw", val()[1]))
                    sim.raise_()
                sim.do_return(val() if witharg else None)
                sim.emit(("print", ("var", 0)))
                deco(sim)
        return sim

    rec(None, [])
    res = []
    for seq in out:
        sim = replay(seq)
        p = sim.finish()
        while sim.cur != 0 and not sim.ended:
            sim.do_return(None, explicit=False)
        res.append((p, sim.measures(), seq))
    return res


def switch_sequences(nf, max_switch):
    """EVERY sequence of at most `max_switch` switch points (C k = call of a new/suspended fiber | Y = yield | R = return of
    the running fiber) over nf fibers that the status-only simulation accepts"""
    out = []

    def status(seq):
        sim = Sim(nf, {k: False for k in range(nf + 1)})
        for op in seq:
            if op[0] == "C":
                sim.do_call(None, op[1], None, False)
            elif op[0] == "Y":
                sim.do_yield(None, None, False)
            else:
                sim.do_return(None)
        return sim

    def rec(seq):
        if seq:
            out.append(list(seq))
        if len(seq) >= max_switch:
            return
        sim = status(seq)
        for k in range(1, nf + 1):
            if sim.status[k] in ("new", "suspended"):
                rec(seq + [("C", k)])
        if sim.cur != 0:
            rec(seq + [("Y",)])
            rec(seq + [("R",)])
    rec([])
    return out


def build_bare(nf, seq, params, witharg, nested, deco, end_dump):
    """the program of ONE switch sequence with the work BETWEEN two switches of a fiber chosen per gap (round 7):
    deco[i] = what the fiber that runs after switch i does before it switches again
       0 nothing at all: the next call/yield/return follows the previous one back to back (no native call, no function
         call in between - state that `call_native` or a helper's frame would reset stays as the switch left it)
       1 print(value received)    2 print(value received) + has_finished() of every fiber   3 a local assignment only
    witharg[i] / nested[i]: switch i hands a value over / goes through a helper frame (hc1/hy1).  Received values are kept in
    the three locals in rotation and handed on by later switches (odd i) or replaced by fresh constants (even i), so that
    the main script sees them even when no fiber prints; end_dump: main prints its locals and every has_finished() last."""
    params = dict(params)
    params[0] = False
    sim = Sim(nf, params)
    c = [300]

    def val():
        c[0] += 1
        return ("const", c[0])
    last = {k: None for k in range(nf + 1)}      # expression that holds the value received last
    pend = {k: None for k in range(nf + 1)}      # destination chosen when the fiber switched out
    nd = {k: 0 for k in range(nf + 1)}
    started = set()

    def dst_for(me):
        d = nd[me] % NV
        nd[me] += 1
        pend[me] = d
        return d

    def arg_for(me, i):
        if not witharg[i]:
            return None
        if last[me] is not None and i % 2 == 1:
            return last[me]
        return val()

    def arrive(i):
        me = sim.cur
        if me not in started and me != 0:
            started.add(me)
            last[me] = ("param",) if params[me] else None
        elif pend[me] is not None:
            last[me] = ("var", pend[me])
        d = deco[i]
        if d in (1, 2):
            sim.emit(("print", last[me] if last[me] is not None else ("nil",)))
        if d == 2:
            for k in range(1, nf + 1):
                sim.emit(("hasfin", k))
        if d == 3:
            sim.emit(("set", (nd[me] + 1) % NV, val()))
    for i, op in enumerate(seq):
        me = sim.cur
        if op[0] == "C":
            k = op[1]
            if sim.status[k] == "new":
                arg = (arg_for(me, i) or val()) if params[k] else None
            else:
                arg = arg_for(me, i)
            sim.do_call(dst_for(me), k, arg, nested[i])
        elif op[0] == "Y":
            sim.do_yield(dst_for(me), arg_for(me, i), nested[i])
        else:
            arg = arg_for(me, i)
            sim.do_return(arg, explicit=(arg is not None or i % 2 == 0))
        arrive(i)
    p = sim.finish()
    while sim.cur != 0 and not sim.ended:
        sim.do_return(None, explicit=False)
    if end_dump:
        for x in range(NV):
            p["main"].append(("print", ("var", x)))
        for k in range(1, nf + 1):
            p["main"].append(("hasfin", k))
    return p, sim.measures()


def bare_family(rng, specs):
    """round 7: for EVERY switch sequence (specs: [(nf, max_switch)]) four fixed decorations - fibers never do anything
    between two switches; every switch hands a value over / none does; the main script prints what it receives at once /
    only at the very end - plus `nrandom` random decorations (per gap 0-3, per switch argument / helper frame, per fiber
    parameter); specs: [(nf, max_switch, all four fixed decorations?, nrandom)]; identical programs are kept once"""
    res = []
    seen = set()
    for nf, ms, four, nrandom in specs:
        for seq in switch_sequences(nf, ms):
            n = len(seq)
            # who runs after switch i (to decorate only the main script's gaps)
            sim = Sim(nf, {k: False for k in range(nf + 1)})
            runner = []
            for op in seq:
                if op[0] == "C":
                    sim.do_call(None, op[1], None, False)
                elif op[0] == "Y":
                    sim.do_yield(None, None, False)
                else:
                    sim.do_return(None)
                runner.append(sim.cur)
            for args in (True, False):
                for main_prints in ((True, False) if four else (True,)):
                    deco = [(1 if (main_prints and r == 0) else 0) for r in runner]
                    p, meas = build_bare(nf, seq, {k: args for k in range(1, nf + 1)}, [args] * n, [False] * n, deco, True)
                    if wire(p) not in seen:
                        seen.add(wire(p))
                        res.append((p, meas, ("bare", nf, seq, args, main_prints)))
            for _ in range(nrandom):
                deco = [rng.choice([0, 0, 0, 1, 2, 3]) for _ in range(n)]
                wa = [rng.random() < 0.6 for _ in range(n)]
                ne = [rng.random() < 0.25 for _ in range(n)]
                params = {k: rng.random() < 0.6 for k in range(1, nf + 1)}
                p, meas = build_bare(nf, seq, params, wa, ne, deco, rng.random() < 0.8)
                if wire(p) not in seen:
                    seen.add(wire(p))
                    res.append((p, meas, ("bare-random", nf, seq)))
    return res


def special_programs():
    """hand-written members of the mini-language aimed at the states the unit tests never build"""
    C = lambda z: ("const", z)
    V = lambda i: ("var", i)
    ps = []
    # try block spanning a switch: the fiber yields inside try, is resumed, then throws: its own handler catches;
    # the caller is itself inside a try whose handler must NOT be used
    ps.append({"main": [("try",), ("call", 0, 1, None, False), ("print", V(0)), ("call", 0, 1, C(2), False), ("print", V(0)), ("endtry",),
                        ("hasfin", 1)],
               "fibers": [{"param": False, "body": [("try",), ("yield", 1, C(1), False), ("print", V(1)), ("throw", 9), ("endtry",),
                                                    ("print", C(3)), ("return", C(4))]}]})
    # an exception not caught inside the fiber ends the run although the caller has a handler
    ps.append({"main": [("try",), ("call", 0, 1, None, False), ("endtry",), ("print", C(5))],
               "fibers": [{"param": False, "body": [("throw", 7)]}]})
    # resume without argument: the pending yield is nil (direct and nested)
    ps.append({"main": [("call", None, 1, None, False), ("call", None, 1, None, False), ("call", None, 1, None, True), ("call", None, 1, None, False)],
               "fibers": [{"param": False, "body": [("yield", 0, C(1), False), ("print", V(0)), ("yield", 1, C(2), True), ("print", V(1)),
                                                    ("yield", 2, None, True), ("print", V(2))]}]})
    # direct self call, indirect re-entry, finished fiber, wrong counts, yield outside: all rejected, state intact
    ps.append({"main": [("set", 0, C(1)), ("call", 1, 1, C(10), False), ("print", V(1)), ("try",), ("call2", 1, V(0), V(1)), ("endtry",),
                        ("try",), ("yield", None, C(3), False), ("endtry",), ("try",), ("yield", None, None, True), ("endtry",),
                        ("call", 1, 1, None, False), ("print", V(1)), ("try",), ("call", None, 1, None, False), ("endtry",),
                        ("try",), ("call", None, 2, C(1), False), ("endtry",), ("print", V(0)), ("print", V(1))],
               "fibers": [{"param": True, "body": [("try",), ("call", None, 1, None, False), ("endtry",), ("try",), ("call", None, 1, C(1), False), ("endtry",),
                                                   ("call", 0, 2, None, True), ("print", V(0)), ("yield", None, ("param",), False), ("return", C(11))]},
                          {"param": False, "body": [("try",), ("call", None, 1, C(5), True), ("endtry",), ("try",), ("call", None, 2, None, False), ("endtry",),
                                                    ("return", C(12))]}]})
    # (obs) a fiber in its first stretch calling itself with a wrong count: the arity rule of a NEW fiber applies
    ps.append({"main": [("call", None, 1, C(1), False), ("call", None, 2, None, False)],
               "fibers": [{"param": True, "body": [("try",), ("call", None, 1, None, False), ("endtry",), ("try",), ("call", None, 1, None, False), ("endtry",)]},
                          {"param": False, "body": [("try",), ("call", None, 2, C(5), False), ("endtry",), ("try",), ("call", None, 2, C(5), False), ("endtry",)]}]})
    # captured local of a suspended fiber read and written from the main script, then closed by the return
    ps.append({"main": [("printcap", 1), ("call", 0, 1, None, False), ("printcap", 1), ("setcap", 1, C(77)), ("printcap", 1), ("call", 0, 1, None, True),
                        ("printcap", 1), ("setcap", 1, C(78)), ("printcap", 1), ("hasfin", 1), ("capture", 0), ("printcap", 0), ("call", None, 2, None, False),
                        ("print", V(0))],
               "fibers": [{"param": False, "body": [("set", 1, C(5)), ("capture", 1), ("yield", None, None, True), ("print", V(1)), ("set", 1, C(6))]},
                          {"param": False, "body": [("printcap", 0), ("setcap", 0, C(99)), ("printcap", 1)]}]})
    # three fibers suspended at once, values in both directions, nested frames everywhere
    ps.append({"main": [("call", 0, 1, C(1), True), ("print", V(0)), ("call", 0, 2, C(2), True), ("print", V(0)), ("call", 0, 3, C(3), True), ("print", V(0)),
                        ("call", 0, 2, C(4), False), ("print", V(0)), ("call", 0, 1, C(5), False), ("print", V(0)), ("call", 0, 3, None, False), ("print", V(0))],
               "fibers": [{"param": True, "body": [("yield", 0, ("param",), True), ("print", V(0)), ("return", V(0))]},
                          {"param": True, "body": [("yield", 0, ("param",), True), ("print", V(0)), ("yield", 1, V(0), False), ("print", V(1))]},
                          {"param": True, "body": [("yield", 0, ("param",), True), ("print", V(0))]}]})
    # a chain of fibers calling fibers, yielding from the innermost
    ps.append({"main": [("call", 0, 1, None, False), ("print", V(0)), ("call", 0, 3, C(9), False), ("print", V(0)), ("call", 0, 1, C(8), False), ("print", V(0))],
               "fibers": [{"param": False, "body": [("call", 0, 2, None, True), ("print", V(0)), ("yield", 1, V(0), False), ("print", V(1)), ("return", V(1))]},
                          {"param": False, "body": [("call", 0, 3, None, False), ("print", V(0)), ("return", C(21))]},
                          {"param": False, "body": [("yield", 0, C(31), True), ("print", V(0)), ("return", C(32))]}]})
    return ps


# ------------------------------------------------------------------------------------------------
# metamorphic transformation: the whole main body moved into a new fiber that is called once


def movable(p):
    for a in p["main"]:
        if a[0] in ("yield", "capture"):
            return False
    for body in [p["main"]] + [f["body"] for f in p["fibers"]]:
        for a in body:
            if a[0] in ("printcap", "setcap") and a[1] == 0:
                return False
    return len(p["fibers"]) < 8


def moved(p):
    n = len(p["fibers"]) + 1
    return {"main": [("call", None, n, None, False)],
            "fibers": list(p["fibers"]) + [{"param": False, "body": list(p["main"])}]}


# ------------------------------------------------------------------------------------------------
# evaluation


# the shape of load_fiber's resumed branch as a Gallina literal (set by run() from the translator's manifest).  NOT read from
# YVGen.FiberArms: when the translator fails closed on a re-shaped switch function that file does not compile, and exactly
# then the dynamic part (whose oracle S does not depend on it) must keep running to produce the failing input (round 7).
PN = ["true"]


def coq_cases(progs, tag):
    terms = ['run_case_w %s "%s"%%string' % (PN[0], wire(p)) for p in progs]
    vals = yvlib.coq_eval(["YV:FiberLang"], terms, shard_size=60, tag=tag,
                          preamble="Open Scope string_scope.")
    res = []
    for v in vals:
        if v is None:
            res.append(None)
            continue
        parts = v.split("@")
        if len(parts) != 4:
            res.append(None)
            continue
        res.append({"S": parts[0], "M": parts[1], "sched": [x for x in parts[2].split(",") if x], "src": parts[3]})
    return res


def run_robust(binary, lines, **kw):
    """run_harness, but a case that came back as crashed/timed out is re-run alone (twice at most): on a loaded
    machine a whole shard can exceed its wall-clock allowance, which must not be mistaken for a crash of the VM"""
    recs = yvlib.run_harness(binary, lines, **kw)
    bad = [i for i, r in enumerate(recs) if r.crashed]
    for attempt in range(2):
        if not bad:
            break
        kw2 = dict(kw)
        kw2["shards"] = 1
        kw2["case_timeout_ms"] = 60000
        again = [yvlib.run_harness(binary, [lines[i]], **kw2)[0] for i in bad[:40]]
        for i, r in zip(bad[:40], again):
            recs[i] = r
        bad = [i for i in bad[:40] if recs[i].crashed]
    return recs


def impl_result(rec):
    """harness record -> the Spec's result format"""
    if rec.crashed:
        return "CRASH:" + str(rec.crashed)
    k, v = rec.result
    out = "|".join(rec.output)
    if k == "ok":
        return out + "#ok"
    if k == "err":
        first = rec.messages[0] if rec.messages else ""
        return out + "#" + first
    return out + "#" + k + ":" + str(v)[:200]


def parse_trace(rec):
    t = []
    for f in rec.tagged("T"):
        t.append(tuple(f[:11]))
    return t


def switch_events(tr):
    ev = []
    for a, b in zip(tr, tr[1:]):
        if a[0] != b[0]:
            ev.append((a[0], b[0], int(b[4]), int(b[6]), int(b[10])))
    return ev


def check_schedule(ev, sched):
    """impl switch events vs M's schedule, up to a consistent renaming of fiber ids"""
    ms = []
    for s in sched:
        ft, rest = s.split(":", 1)
        a, b = ft.split(">")
        st, fr, hc = rest.split(":")
        if a == b:
            continue  # the record of an uncaught exception
        ms.append((int(a), int(b), int(st), int(fr), int(hc)))
    if len(ev) != len(ms):
        return "number of switches: impl %d, M %d" % (len(ev), len(ms))
    ren = {"0": 0}
    used = {0}
    for i, (e, m) in enumerate(zip(ev, ms)):
        if ren.get(e[0]) != m[0]:
            return "switch %d: from fiber differs (impl %s, M %d)" % (i, e[0], m[0])
        if e[1] not in ren:
            if m[1] in used:
                return "switch %d: M re-enters fiber %d, impl enters a fiber not seen before" % (i, m[1])
            ren[e[1]] = m[1]
            used.add(m[1])
        if ren[e[1]] != m[1]:
            return "switch %d: to fiber differs (impl %s -> %s, M %d)" % (i, e[1], ren[e[1]], m[1])
        if e[2:] != m[2:]:
            return "switch %d (%d>%d): impl (stack,frames,has_caller)=%s, M %s" % (i, m[0], m[1], e[2:], m[2:])
    return None


def uncaught_frames(sched):
    for s in sched:
        ft, rest = s.split(":", 1)
        a, b = ft.split(">")
        if a == b:
            return int(rest.split(":")[1])
    return None


# ------------------------------------------------------------------------------------------------
# the family with `finally` blocks that switch fibers (not in the Coq mini-language)

FIN_PRELUDE = "var f1 = nil; var f2 = nil; "


def finally_family():
    """(source, expected result, in_known_class, what the ONE-flag mechanism prints): a fiber keeps its own pending exception
    across suspensions.  Round 9: a program of the known class must print exactly what the one-flag mechanism prints (4th
    component); anything else is a NEW violation (the class no longer hides other misbehaviour in its neighbourhood).
    The VM keeps ONE handling_exception flag: a switch inside a finally block exposes it to another fiber."""
    fam = []
    for a, b in ((1, 9), (4, 6)):
        # finally entered normally, yields; meanwhile another fiber throws and catches: no interference
        fam.append((FIN_PRELUDE +
                    "f1 = Fiber.new(|| { try { print(%d); } finally { print(11); Fiber.yield(12); print(13); } print(14); return 15; }); " % a +
                    "f2 = Fiber.new(|| { try { throw %d; } catch e { print(e); } print(21); return 22; }); " % b +
                    "print(f1.call()); print(f2.call()); print(f1.call());",
                    "%d|11|12|%d|21|22|13|14|15#ok" % (a, b), False, None))
        # finally entered BY EXCEPTION yields; another fiber completes a try/finally normally in between:
        # that fiber must not see an exception; the first fiber re-raises its own after being resumed
        fam.append((FIN_PRELUDE +
                    "f1 = Fiber.new(|| { try { throw %d; } finally { print(11); Fiber.yield(12); print(13); } print(14); return 15; }); " % a +
                    "f2 = Fiber.new(|| { try { print(20); } finally { print(21); } print(22); return 23; }); " +
                    "print(f1.call()); print(f2.call()); print(24); print(f1.call());",
                    "11|12|20|21|22|23|24|13#Unhandled exception: %d" % a, True,
                    "11|12|20|21#Unhandled exception: <fn lambda-1 @ 0xA>"))
        # ... another fiber throws and catches in between: the pending exception of the first must survive
        fam.append((FIN_PRELUDE +
                    "f1 = Fiber.new(|| { try { throw %d; } finally { print(11); Fiber.yield(12); print(13); } print(14); return 15; }); " % a +
                    "f2 = Fiber.new(|| { try { throw %d; } catch e { print(e); } return 23; }); " % b +
                    "print(f1.call()); print(f2.call()); print(f1.call()); print(25);",
                    "11|12|%d|23|13#Unhandled exception: %d" % (b, a), True, "11|12|%d|23|13|14|15|25#ok" % b))
        # a fiber suspended in a finally block entered by exception; the main script's own try/finally completes normally
        fam.append((FIN_PRELUDE +
                    "f1 = Fiber.new(|| { try { throw %d; } finally { Fiber.yield(12); } return 15; }); " % a +
                    "print(f1.call()); try { print(30); } finally { print(31); } print(32);",
                    "12|30|31|32#ok", True, "12|30|31#Unhandled exception: <script @ 0xA>"))
        # finally that CALLS another fiber (which throws and catches) while an exception is pending
        fam.append((FIN_PRELUDE +
                    "f2 = Fiber.new(|| { try { throw %d; } catch e { print(e); } return 23; }); " % b +
                    "f1 = Fiber.new(|| { try { throw %d; } finally { print(f2.call()); } return 15; }); " % a +
                    "print(f1.call()); print(26);",
                    "%d|23#Unhandled exception: %d" % (b, a), True, "%d|23|15|26#ok" % b))
    return fam


# ------------------------------------------------------------------------------------------------
# family (d): every per-fiber piece of state holds a FRESH heap object across a suspension during which
# the other fibers and the main script allocate (not in the Coq mini-language: values are heap objects and the
# collector matters; expectations come from the little per-shape model below)

HEAP_PRELUDE = (
    '#[constructor(new)] class Box {} '
    'fn build(kind, tag, n) { if kind == 0 { var out = []; for i in 0..n { out.push("${tag}-${i}"); } return out; } '
    'if kind == 1 { return "${tag}#${n}"; } var b = Box.new(); b.v = build(0, tag, n); return b; } '
    'fn show(x) { if type(x) == Box { return "Box(${x.v})"; } return "${x}"; } '
    'var stash = []; '
    'fn churn(n) { var t = []; for i in 0..n { t.push([i, "tmp-${i}"]); } stash.push("kept-${n}"); return n; } '
    'fn inner(kind, tag, n, ytag) { var t = build(kind, tag, n); var got = Fiber.yield(build(1, ytag, n)); return [show(t), show(got)]; } ')


def hdisp(kind, tag, n):
    vec = "[" + ", ".join("%s-%d" % (tag, i) for i in range(n)) + "]"
    return vec if kind == 0 else ("%s#%d" % (tag, n) if kind == 1 else "Box(%s)" % vec)


def hbuild(kind, tag, n):
    return 'build(%d, "%s", %d)' % (kind, tag, n)


# shape -> (body source, [stage], captures?)   stage(p, a) -> (lines printed by the fiber, display of the call's result | None)
# every body takes one parameter p (a fresh object made by the caller); stage 0 receives p, later stages the resume value a
def heap_shape(name, k, kind, n, f=None):
    cv = None
    T = "f%d" % k
    V = hdisp(kind, T, n)
    Y = hdisp(1, "y" + T, n)
    yv = hbuild(1, "y" + T, n)
    bv = hbuild(kind, T, n)
    if name == "local":      # a local holds the object
        body = '|p| { var a = %s; var got = Fiber.yield(%s); print("%s local ${show(a)} ${show(got)} ${show(p)}"); return a; }' % (bv, yv, T)
        st = [lambda p, a: ([], Y), lambda p, a: (["%s local %s %s %s" % (T, V, a, p)], V)]
    elif name == "nested":   # a local of a nested function frame holds it (2 frames at the suspension)
        body = '|p| { var r = inner(%d, "%s", %d, "y%s"); print("%s nested ${r} ${show(p)}"); return r; }' % (kind, T, n, T, T)
        st = [lambda p, a: ([], Y), lambda p, a: (["%s nested [%s, %s] %s" % (T, V, a, p)], "[%s, %s]" % (V, a))]
    elif name == "capture":  # only a closure over the fiber's local refers to it (open while suspended, closed afterwards)
        body = ('|p| { var c = %s; g%d = || c; s%d = |v| { c = v; }; Fiber.yield(%s); c = %s; Fiber.yield(%s); return 0; }'
                % (bv, k, k, yv, hbuild(kind, T + "b", n), yv))
        st = [lambda p, a: ([], Y), lambda p, a: ([], Y), lambda p, a: ([], "0")]
    elif name == "catchvar":  # the catch variable holds a thrown fresh object across a yield inside the catch block
        body = '|p| { var keep = nil; try { throw %s; } catch e { Fiber.yield(%s); keep = e; } print("%s caught ${show(keep)} ${show(p)}"); return keep; }' % (bv, yv, T)
        st = [lambda p, a: ([], Y), lambda p, a: (["%s caught %s %s" % (T, V, p)], V)]
    elif name == "tryspan":  # a handler pushed before the suspension catches an object thrown after it
        body = '|p| { var keep = nil; try { var got = Fiber.yield(%s); throw [show(got), show(%s)]; } catch e { keep = e; } print("%s span ${keep}"); return keep; }' % (yv, bv, T)
        st = [lambda p, a: ([], Y), lambda p, a: (["%s span [%s, %s]" % (T, a, V)], "[%s, %s]" % (a, V))]
    elif name == "retfin":   # `return <fresh>` pending while the finally block yields
        body = '|p| { try { return %s; } finally { Fiber.yield(%s); print("%s cleanup ${show(p)}"); } }' % (bv, yv, T)
        st = [lambda p, a: ([], Y), lambda p, a: (["%s cleanup %s" % (T, p)], V)]
    elif name == "retfin2":  # two suspensions inside the finally block while the return is pending
        body = ('|p| { try { return %s; } finally { Fiber.yield(%s); Fiber.yield(%s); print("%s cleanup2 ${show(p)}"); } }'
                % (bv, yv, yv, T))
        st = [lambda p, a: ([], Y), lambda p, a: ([], Y), lambda p, a: (["%s cleanup2 %s" % (T, p)], V)]
    elif name == "result":   # the body's result / the argument of yield are fresh objects seen only by the caller
        body = '|p| { var got = Fiber.yield(%s); return [show(got), show(p), show(%s)]; }' % (bv, bv)
        st = [lambda p, a: ([], V), lambda p, a: ([], "[%s, %s, %s]" % (a, p, V))]
    elif name == "capmulti":
        # 2-3 locals captured in a given ORDER (the open-upvalue list is kept sorted by slot: a later-declared local captured
        # first makes the next record be linked BEHIND it); all closures but the one over local `surv` are dropped
        nloc, order, surv = f["nloc"], f["order"], f["surv"]
        cv = [hdisp(kind, "%sc%d" % (T, i), n) for i in range(nloc)]
        decl = "".join("var c%d = %s; " % (i, hbuild(kind, "%sc%d" % (T, i), n)) for i in range(nloc))
        caps = "".join(("g%d = || c%d; s%d = |v| { c%d = v; }; " % (k, i, k, i)) if i == surv else ("var d%d = || c%d; " % (i, i)) for i in order)
        drops = "".join("d%d = nil; " % i for i in order if i != surv)
        shows = " ".join("${show(c%d)}" % i for i in range(nloc))
        body = '|p| { %s%s%sFiber.yield(%s); print("%s multi %s ${show(p)}"); return 0; }' % (decl, caps, drops, yv, T, shows)
        st = [lambda p, a: ([], Y), lambda p, a: (["%s multi %s %s" % (T, " ".join(cv), p)], "0")]
    elif name == "excfin":   # an exception (fresh object) pending while the finally block yields; re-raised afterwards: ends the run
        body = '|p| { try { throw %s; } finally { Fiber.yield(%s); print("%s cleanup3 ${show(p)}"); } }' % (bv, yv, T)
        st = [lambda p, a: ([], Y), lambda p, a: (["%s cleanup3 %s" % (T, p)], ("raise", V))]
    else:
        raise ValueError(name)
    return body, st, cv


HEAP_SHAPES = ["local", "nested", "capture", "capmulti", "capmulti", "catchvar", "tryspan", "retfin", "retfin2", "result"]


def heap_fiber(rng, shape=None):
    f = {"shape": shape or rng.choice(HEAP_SHAPES), "kind": rng.randrange(3), "n": rng.randint(0, 3)}
    if f["shape"] == "capmulti":
        f["nloc"] = rng.choice([2, 3])
        f["order"] = list(range(f["nloc"]))
        rng.shuffle(f["order"])
        f["surv"] = rng.randrange(f["nloc"])
    return f


def heap_nstages(f, k):
    return len(heap_shape(f["shape"], k, f["kind"], f["n"], f)[1])


def gen_heap_spec(rng, big=False):
    nf = rng.randint(2, 4)
    fibers = [heap_fiber(rng) for _ in range(nf)]
    if rng.random() < 0.5:
        fibers[rng.randrange(nf)] = heap_fiber(rng, rng.choice(["retfin", "retfin2"]))

    def plan():
        todo = []
        for i in range(nf):
            ns = heap_nstages(fibers[i], i + 1)
            todo += [i + 1] * (ns if rng.random() < 0.85 else rng.randint(1, ns))   # some fibers are abandoned suspended
        rng.shuffle(todo)        # the order of the calls of one fiber is fixed, the interleaving is random
        return todo
    todo = plan()
    if rng.random() < 0.2:
        # last: a fiber suspended in a finally block with its exception pending (syntactically inside the open class
        # finally_switch_shares_flag; nobody else throws or runs a finally block meanwhile, so it is expected to work)
        for i, f in enumerate(fibers):
            if f["shape"] in ("catchvar", "tryspan", "retfin", "retfin2"):
                fibers[i] = heap_fiber(rng, rng.choice(["local", "nested", "capture", "capmulti", "result"]))
        todo = plan()
        fibers.append(heap_fiber(rng, "excfin"))
        fibers[-1]["kind"] = rng.randrange(2)
        todo.insert(rng.randint(0, len(todo)), nf + 1)
        todo.append(nf + 1)
    sched = []
    dropped = set()
    for j, k in enumerate(todo):
        if k in dropped:
            continue
        sched.append(["call", k, rng.randrange(3), rng.randint(0, 2)])
        f = fibers[k - 1]
        if f["shape"] in ("capmulti", "capture") and rng.random() < 0.6:
            # the suspended fiber is abandoned: no reference to it remains, only the surviving closure over its local
            sched.append(["drop", k])
            dropped.add(k)
        r = rng.random()
        m = rng.randint(5, 60 if big else 25)
        if r < 0.45:
            sched.append(["churn", m])
        elif r < 0.75:
            sched.append(["other", m])
        if rng.random() < 0.35:
            kk = rng.randint(1, nf)
            sched.append(["get", kk] if rng.random() < 0.6 else ["set", kk, rng.randrange(3), rng.randint(0, 2)])
    tail = []
    for k in sorted(dropped):
        tail += [["churn", rng.randint(5, 25)], ["get", k], ["set", k, rng.randrange(3), rng.randint(0, 2)], ["other", rng.randint(5, 25)], ["get", k]]
    if fibers[-1]["shape"] == "excfin" and sched and sched[-1][0] == "call" and sched[-1][1] == len(fibers):
        sched = sched[:-1] + tail + sched[-1:]
    else:
        sched += tail
    return {"fibers": fibers, "sched": sched}


def capture_order_specs():
    """EVERY capture order of 2 and of 3 locals x every surviving closure, the fiber abandoned while suspended"""
    import itertools
    res = []
    for nloc in (2, 3):
        for order in itertools.permutations(range(nloc)):
            for surv in range(nloc):
                kind = (surv + len(res)) % 3
                res.append({"fibers": [{"shape": "capmulti", "kind": kind, "n": 2, "nloc": nloc, "order": list(order), "surv": surv},
                                       {"shape": "local", "kind": 0, "n": 1}],
                            "sched": [["call", 1, 0, 1], ["drop", 1], ["churn", 30], ["get", 1], ["call", 2, 1, 1], ["other", 30],
                                      ["set", 1, 2, 2], ["churn", 20], ["get", 1], ["call", 2, 0, 0]]})
    return res


def render_heap(spec):
    """-> (source, expected result in the Spec's format)"""
    fibers = spec["fibers"]
    src = [HEAP_PRELUDE]
    for i in range(len(fibers)):
        src.append("var g%d = nil; var s%d = nil; var f%d = nil; " % (i + 1, i + 1, i + 1))
    stages = {}
    cvs = {}
    for i, f in enumerate(fibers):
        body, st, cv = heap_shape(f["shape"], i + 1, f["kind"], f["n"], f)
        stages[i + 1] = st
        cvs[i + 1] = cv
        src.append("f%d = Fiber.new(%s); " % (i + 1, body))
    src.append("var other = Fiber.new(|p| { var q = p; while true { q = Fiber.yield(churn(q)); } }); ")
    out = []
    pos = {k: 0 for k in stages}
    pdisp = {}
    cap = {}       # what the getter of fiber k shows
    for j, step in enumerate(spec["sched"]):
        if step[0] == "call":
            k, kind, n = step[1], step[2], step[3]
            if pos[k] >= len(stages[k]):
                continue
            tag = "a%d" % j
            a = hdisp(kind, tag, n)
            if pos[k] == 0:
                pdisp[k] = a
            lines, res = stages[k][pos[k]](pdisp[k], a)
            f = fibers[k - 1]
            if f["shape"] == "capture":
                if pos[k] < 2:
                    cap[k] = hdisp(f["kind"], "f%d" % k, f["n"]) if pos[k] == 0 else hdisp(f["kind"], "f%db" % k, f["n"])
            elif f["shape"] == "capmulti" and pos[k] == 0:
                cap[k] = cvs[k][f["surv"]]
            pos[k] += 1
            src.append('print("%d> ${show(f%d.call(%s))}"); ' % (k, k, hbuild(kind, tag, n)))
            if isinstance(res, tuple):
                return "".join(src), "|".join(out + lines) + "#Unhandled exception: " + res[1]
            out += lines + ["%d> %s" % (k, res)]
        elif step[0] == "churn":
            src.append("churn(%d); " % step[1])
        elif step[0] == "other":
            src.append('print("o ${other.call(%d)}"); ' % step[1])
            out.append("o %d" % step[1])
        elif step[0] == "get":
            k = step[1]
            src.append('if g%d != nil { print("g%d ${show(g%d())}"); } ' % (k, k, k))
            if k in cap:
                out.append("g%d %s" % (k, cap[k]))
        elif step[0] == "set":
            k, kind, n = step[1], step[2], step[3]
            tag = "w%d" % j
            src.append('if s%d != nil { s%d(%s); } ' % (k, k, hbuild(kind, tag, n)))
            if k in cap:
                cap[k] = hdisp(kind, tag, n)
                if cvs[k] is not None:
                    cvs[k][fibers[k - 1]["surv"]] = cap[k]
        elif step[0] == "drop":
            k = step[1]
            src.append("f%d = nil; " % k)
            pos[k] = len(stages[k])
    src.append('print(stash.len());')
    out.append(str(sum(1 for s in spec["sched"] if s[0] in ("churn", "other"))))
    return "".join(src), "|".join(out) + "#ok"


def shrink_heap(spec, fails, budget):
    """drop whole fibers (with their steps), then single steps, while the failure persists"""
    cur = json.loads(json.dumps(spec))
    k = len(cur["fibers"])
    while k >= 1 and budget[0] > 0:
        if len(cur["fibers"]) > 1:
            cand = json.loads(json.dumps(cur))
            del cand["fibers"][k - 1]
            sch = []
            for st in cand["sched"]:
                if st[0] in ("call", "get", "set", "drop"):
                    if st[1] == k:
                        continue
                    if st[1] > k:
                        st = [st[0], st[1] - 1] + st[2:]
                sch.append(st)
            cand["sched"] = sch
            budget[0] -= 1
            if fails(cand):
                cur = cand
        k -= 1
    i = 0
    while i < len(cur["sched"]) and budget[0] > 0:
        if cur["sched"][i][0] == "call":
            i += 1
            continue
        cand = json.loads(json.dumps(cur))
        del cand["sched"][i]
        budget[0] -= 1
        if fails(cand):
            cur = cand
        else:
            i += 1
    return cur


def run_heap(dbg, rel, specs):
    """-> list of (spec, source, expected, [(mode, actual, uaf)] of the modes that differ)"""
    rs = [render_heap(sp) for sp in specs]
    r1 = run_robust(dbg, ["run - " + hx(src) for src, _ in rs], quarantine=True, case_timeout_ms=20000)
    r2 = run_robust(rel, ["run gc=always " + hx(src) for src, _ in rs], quarantine=True, case_timeout_ms=20000)
    res = []
    for sp, (src, exp), a, b in zip(specs, rs, r1, r2):
        diff = []
        for mode, r in (("debug build, collection at every allocation, freed memory quarantined", a),
                        ("release build, gc=always, freed memory quarantined", b)):
            got = impl_result(r)
            if got != exp or r.uaf:
                diff.append((mode, got, r.uaf))
        res.append((sp, src, exp, diff))
    return res


# ------------------------------------------------------------------------------------------------
# family (e): fibers across modules.  Every module (main, la, lb) has globals `tag` and `cnt` of the SAME names; a
# fiber body reads and writes the globals of the module it was DEFINED in, and a caller gets its own module back
# right after every `call` returns (yield, normal end, rejected call) - at top level, inside functions, inside fibers.

def lib_src(tag, base):
    return ('var tag = "%s"; var cnt = %d; '
            'fn counter() { return Fiber.new(|a| { var x = a; while x != nil { cnt = cnt + 1; x = Fiber.yield("${tag}:${cnt}:${x}"); } '
            'return "${tag}:end:${cnt}"; }); } '
            'fn relay(g) { return Fiber.new(|a| { var x = a; while x != nil { var r = g.call(x); cnt = cnt + 1; '
            'x = Fiber.yield("${tag}:${cnt}<${r}>"); } var r2 = g.call(nil); cnt = cnt + 100; return "${tag}:end:${cnt}<${r2}>"; }); } '
            'fn drive(f, x) { var r = f.call(x); cnt = cnt + 1; return "${r}|${tag}|${cnt}"; } ' % (tag, base))


class MFiber:
    def __init__(self, mod, inner=None):
        self.mod, self.inner, self.done = mod, inner, False

    def call(self, mods, x):
        """x: display string or None (nil) -> result display"""
        m = mods[self.mod]
        if x is None:
            self.done = True
            if self.inner is None:
                return "%s:end:%d" % (m["tag"], m["cnt"])
            r2 = self.inner.call(mods, None)
            m["cnt"] += 100
            return "%s:end:%d<%s>" % (m["tag"], m["cnt"], r2)
        if self.inner is None:
            m["cnt"] += 1
            return "%s:%d:%s" % (m["tag"], m["cnt"], x)
        r = self.inner.call(mods, x)
        m["cnt"] += 1
        return "%s:%d<%s>" % (m["tag"], m["cnt"], r)


MODS = ["main", "la", "lb"]


def gen_fiber_expr(rng, depth):
    """(source expression in main, model) - nesting up to 3, modules chosen at random"""
    mod = rng.choice(MODS)
    pre = "" if mod == "main" else mod + "."
    if depth <= 1 or rng.random() < 0.35:
        return pre + "counter()", ("c", mod)
    inner_src, inner = gen_fiber_expr(rng, depth - 1)
    return "%srelay(%s)" % (pre, inner_src), ("r", mod, inner)


def build_model(desc):
    return MFiber(desc[1]) if desc[0] == "c" else MFiber(desc[1], build_model(desc[2]))


def gen_mod_spec(rng):
    nf = rng.randint(1, 3)
    fibers = [gen_fiber_expr(rng, rng.randint(1, 3)) for _ in range(nf)]
    steps = []
    alive = list(range(nf))
    for j in range(rng.randint(4, 12)):
        k = rng.randrange(nf)
        how = rng.choice(["top", "top", "fn", "libfn", "lambda"])
        if k in alive:
            if rng.random() < 0.2:
                steps.append(["end", k, how])
                alive.remove(k)
            else:
                steps.append(["call", k, how, rng.randint(1, 99)])
        elif rng.random() < 0.4:
            steps.append(["dead", k])
    return {"fibers": [[s, d] for s, d in fibers], "steps": steps, "bases": [rng.randint(0, 5) * 10 for _ in MODS]}


def render_mod(spec):
    """-> (main source, {name: source}, expected result)"""
    bases = spec["bases"]
    libs = {"la": lib_src("la", bases[1]), "lb": lib_src("lb", bases[2])}
    mods = {"main": {"tag": "main", "cnt": bases[0]}, "la": {"tag": "la", "cnt": bases[1]}, "lb": {"tag": "lb", "cnt": bases[2]}}
    src = ['import "la" as la; import "lb" as lb; ', lib_src("main", bases[0]), "var r = nil; "]
    models = []
    for i, (fs, desc) in enumerate(spec["fibers"]):
        src.append("var f%d = %s; " % (i, fs))
        models.append(build_model(tuple_deep(desc)))
    out = []
    mm = mods["main"]
    for st in spec["steps"]:
        k = st[1]
        if st[0] in ("call", "end"):
            how = st[2]
            x = None if st[0] == "end" else str(st[3])
            xs = "nil" if x is None else x
            if how == "top":
                src.append('r = f%d.call(%s); cnt = cnt + 1; print("${r} / ${tag} ${cnt}"); ' % (k, xs))
                r = models[k].call(mods, x)
                mm["cnt"] += 1
                out.append("%s / main %d" % (r, mm["cnt"]))
            elif how == "fn":
                src.append('print(drive(f%d, %s)); print("${tag} ${cnt}"); ' % (k, xs))
                r = models[k].call(mods, x)
                mm["cnt"] += 1
                out += ["%s|main|%d" % (r, mm["cnt"]), "main %d" % mm["cnt"]]
            elif how == "libfn":
                src.append('print(lb.drive(f%d, %s)); cnt = cnt + 1; print("${tag} ${cnt}"); ' % (k, xs))
                r = models[k].call(mods, x)
                mods["lb"]["cnt"] += 1
                mm["cnt"] += 1
                out += ["%s|lb|%d" % (r, mods["lb"]["cnt"]), "main %d" % mm["cnt"]]
            else:
                src.append('print((|f, x| { var q = f.call(x); cnt = cnt + 1; return "${q};${tag};${cnt}"; })(f%d, %s)); ' % (k, xs))
                r = models[k].call(mods, x)
                mm["cnt"] += 1
                out.append("%s;main;%d" % (r, mm["cnt"]))
        else:
            src.append('try { r = f%d.call(7); } catch e { cnt = cnt + 1; print("${tag} ${cnt} ${e.context}"); } ' % k)
            mm["cnt"] += 1
            out.append("main %d Cannot call a finished fiber." % mm["cnt"])
    src.append('print("${tag} ${cnt} ${la.tag} ${la.cnt} ${lb.tag} ${lb.cnt}");')
    out.append("main %d la %d lb %d" % (mm["cnt"], mods["la"]["cnt"], mods["lb"]["cnt"]))
    return "".join(src), libs, "|".join(out) + "#ok"


def tuple_deep(d):
    return tuple(tuple_deep(x) if isinstance(x, (list, tuple)) else x for x in d)


def mods_line(main, libs, opts="-"):
    return "mods %s %s %s" % (opts, hx(main), " ".join("%s=%s" % (hx(n), hx(s)) for n, s in sorted(libs.items())))


def run_mods(dbg, rel, specs):
    rs = [render_mod(sp) for sp in specs]
    lines = [mods_line(m, l) for m, l, _ in rs]
    r1 = run_robust(dbg, lines, case_timeout_ms=10000)
    r2 = run_robust(rel, lines, case_timeout_ms=10000)
    res = []
    for sp, (m, l, exp), a, b in zip(specs, rs, r1, r2):
        diff = [(mode, impl_result(r)) for mode, r in (("debug", a), ("release", b)) if impl_result(r) != exp]
        res.append((sp, m, l, exp, diff))
    return res


def shrink_mod(spec, fails, budget):
    cur = json.loads(json.dumps(spec))
    i = 0
    while i < len(cur["steps"]) and budget[0] > 0:
        cand = json.loads(json.dumps(cur))
        del cand["steps"][i]
        budget[0] -= 1
        if fails(cand):
            cur = cand
        else:
            i += 1
    return cur


# ------------------------------------------------------------------------------------------------


def shrink_prog(p, fails, budget):
    """delete single actions (try/endtry only in pairs) while the failure persists"""
    cur = json.loads(json.dumps(p))

    def bodies(q):
        return [q["main"]] + [f["body"] for f in q["fibers"]]
    progress = True
    while progress and budget[0] > 0:
        progress = False
        for bi in range(len(bodies(cur))):
            i = 0
            while i < len(bodies(cur)[bi]) and budget[0] > 0:
                cand = json.loads(json.dumps(cur))
                b = bodies(cand)[bi]
                if b[i][0] in ("try", "endtry"):
                    i += 1
                    continue
                del b[i]
                budget[0] -= 1
                if fails(cand):
                    cur = cand
                    progress = True
                else:
                    i += 1
    # drop the try blocks that have become empty
    for bi in range(len(bodies(cur))):
        i = 0
        while i + 1 < len(bodies(cur)[bi]) and budget[0] > 0:
            b = bodies(cur)[bi]
            if b[i][0] == "try" and b[i + 1][0] == "endtry":
                cand = json.loads(json.dumps(cur))
                del bodies(cand)[bi][i:i + 2]
                budget[0] -= 1
                if fails(cand):
                    cur = cand
                    continue
            i += 1
    return cur


def to_tuples(p):
    def t(x):
        return tuple(t(y) for y in x) if isinstance(x, list) else x
    return {"main": [t(a) for a in p["main"]], "fibers": [{"param": f["param"], "body": [t(a) for a in f["body"]]} for f in p["fibers"]]}


def run(ctx, directed=False):
    """directed=True (used by search): only the directed mini-language families at their thorough size - the hand-written
    programs, the back-to-back switch family and 600 random programs of style `bare` - with the Spec oracle in both builds"""
    quick = ctx.quick()
    rng = ctx.rng
    dbg = ctx.harness("debug")
    rel = ctx.harness("release")
    notes = ctx.notes

    # --- side information from the translator
    try:
        with open(os.path.join(yvlib.COQ, "gen", "manifest.json")) as fh:
            arms = json.load(fh).get("c09_fiber_arms", {})
    except Exception:
        arms = {}
    poke_nil = arms.get("load_fiber", {}).get("poke_nil_on_resume")
    PN[0] = "false" if poke_nil is False else "true"
    if poke_nil is None and not any("translator" in b for b in ctx.broken):
        ctx.broken.append("the translator did not recognise the shape of the fiber switch functions (gen/FiberArms.v): "
                          "the side conditions of props/C09.v cannot be decided; the dynamic comparison with the Spec still runs")
    if poke_nil is False:
        ctx.broken.append("load_fiber has the unrepaired shape (no nil poked for a fiber resumed without argument): "
                          "transfer_faithful does not apply")

    # --- the cases
    cases = []   # (prog, measures, family, extra)
    if ctx.replay_only:
        rp = ctx.replay_only
        if rp.get("prog"):
            cases.append((to_tuples(rp["prog"]), {"max_suspended": 0, "val_in": 0, "val_out": 0, "switches": 0, "errors": 0, "kinds": []}, "replay", None))
    else:
        for p in special_programs():
            cases.append((p, None, "special", None))
        cdir = os.path.join(yvlib.VERIF, "corpus", "C09")
        if os.path.isdir(cdir):
            for f in sorted(os.listdir(cdir)):
                with open(os.path.join(cdir, f)) as fh:
                    cases.append((to_tuples(json.load(fh)["prog"]), None, "corpus", None))
        nrand = 500 if quick else 6000
        if directed:
            nrand = 0
            for _ in range(600):
                p, meas = gen_program(rng, style="bare")
                cases.append((p, meas, "random", None))
        for _ in range(nrand):
            p, meas = gen_program(rng)
            cases.append((p, meas, "random", None))
        # round 7: every switch sequence with NOTHING between two switches of a fiber (and random per-gap decorations)
        if quick and not directed:
            bare = bare_family(rng, [(2, 5, True, 1), (3, 4, False, 0)])
        else:
            bare = bare_family(rng, [(2, 6, True, 1), (3, 5, True, 1)])
        for p, meas, info in bare:
            cases.append((p, meas, "bare", info))
        # exhaustive interleavings
        exh = []
        if directed:
            pass
        elif quick:
            exh += [(x, (2, 5, 0)) for x in enum_interleavings(2, 5, 0)]
        else:
            for v in range(2):
                exh += [(x, (2, 8, v)) for x in enum_interleavings(2, 8, v)]
            exh += [(x, (3, 7, 1)) for x in enum_interleavings(3, 7, 1)]
            exh += [(x, (3, 8, 0)) for x in enum_interleavings(3, 8, 0)]
        for (p, meas, seq), par in exh:
            cases.append((p, meas, "exhaustive", seq))
    # metamorphic partners
    base_n = len(cases)
    partners = {}
    if not ctx.replay_only and not directed:
        cand = [i for i in range(base_n) if movable(cases[i][0])]
        rng.shuffle(cand)
        for i in cand[:(250 if quick else 3000)]:
            partners[i] = len(cases)
            cases.append((moved(cases[i][0]), None, "moved", i))
    log("[C09] %d programs (%d metamorphic partners)" % (len(cases), len(partners)))

    import time
    t0 = time.time()
    progs = [c[0] for c in cases]
    cq = coq_cases(progs, "C09")
    log("[C09] model evaluated in %.1fs" % (time.time() - t0))
    lines = []
    idx = []
    for i, c in enumerate(cq):
        if c is None:
            ctx.corr_broken.append("model evaluation failed (coq_eval) for %s" % wire(progs[i])[:300])
            continue
        if not c["src"]:
            if cases[i][2] != "replay":
                ctx.broken.append("generator produced a program outside the mini-language: " + wire(progs[i])[:300])
            continue
        idx.append(i)
        lines.append("run - " + hx(c["src"]))
    t0 = time.time()
    recs = run_robust(dbg, lines, case_timeout_ms=5000)
    log("[C09] %d programs run in %.1fs" % (len(lines), time.time() - t0))
    impl = {}
    for i, r in zip(idx, recs):
        impl[i] = impl_result(r)
    # round 7: the same programs in the optimised build, a collection at every allocation and one after the run, freed
    # memory quarantined (a stack top that a switch left below the frame base, a slot dropped twice: silent in release until
    # the collector walks the fiber)
    t0 = time.time()
    REL_OPTS = "run gc=always,collect_end=1 "
    recs_rel = run_robust(rel, [REL_OPTS + l[len("run - "):] for l in lines], quarantine=True, case_timeout_ms=5000)
    log("[C09] %d programs run in the release build in %.1fs" % (len(lines), time.time() - t0))
    impl_rel = {}
    for i, r in zip(idx, recs_rel):
        impl_rel[i] = impl_result(r) + (" [use of a reclaimed object]" if r.uaf else "")

    # --- impl == S, M == S
    viol = []
    nontriv = set()
    fam_count = {}
    kinds = {}
    msg_lines_bad = 0
    for i, r in zip(idx, recs):
        c = cq[i]
        fam_count[cases[i][2]] = fam_count.get(cases[i][2], 0) + 1
        meas = cases[i][1]
        if meas:
            for kd in meas["kinds"]:
                kinds[kd] = kinds.get(kd, 0) + 1
            if nontrivial(meas):
                nontriv.add(wire(progs[i]))
        if c["M"] != c["S"]:
            ctx.broken.append("M != S on a program (contradicts transfer_faithful; poke_nil_on_resume=%s): %s | S %s | M %s" % (
                poke_nil, wire(progs[i])[:300], c["S"][:200], c["M"][:200]))
        if impl[i] != c["S"] or impl_rel[i] != c["S"]:
            viol.append(i)
        else:
            # the error trace lists the frames of the RUNNING fiber only
            uf = uncaught_frames(c["sched"])
            if uf is not None and r.result[0] == "err" and len(r.messages) - 1 != uf:
                msg_lines_bad += 1
                if msg_lines_bad <= 3:
                    ctx.corr_broken.append("uncaught error: impl lists %d frames, M's running fiber has %d: %s" % (
                        len(r.messages) - 1, uf, c["src"][:400]))
    # metamorphic
    meta_checked = 0
    for i, j in partners.items():
        if i in impl and j in impl:
            meta_checked += 1
            if cq[i]["S"] != cq[j]["S"]:
                ctx.broken.append("Spec is not invariant under moving the body into a fiber (transformation unsound?): " + wire(progs[i])[:300])
            elif impl[i] != impl[j] and i not in viol and j not in viol:
                viol.append(j)
    # the directed families first: their programs are the smallest
    viol.sort(key=lambda i: (0 if cases[i][2] in ("special", "bare") else 1, prog_size(progs[i])))

    # --- violations: shrink the first, keep at most 5
    def observe(p, release):
        c = coq_cases([p], "C09shrink")[0]
        if c is None or not c["src"]:
            return None, None, None
        if release:
            r = yvlib.run_harness(rel, [REL_OPTS + hx(c["src"])], shards=1, quarantine=True, case_timeout_ms=5000)[0]
            return impl_result(r) + (" [use of a reclaimed object]" if r.uaf else ""), c["S"], c["src"]
        r = yvlib.run_harness(dbg, ["run - " + hx(c["src"])], shards=1, case_timeout_ms=5000)[0]
        return impl_result(r), c["S"], c["src"]
    for n, i in enumerate(viol[:5]):
        p = progs[i]
        release = impl[i] == cq[i]["S"] and cases[i][2] != "moved"       # only the optimised build differs
        a, b, src = (impl_rel[i] if release else impl[i]), cq[i]["S"], cq[i]["src"]
        if n == 0 and cases[i][2] != "moved":
            budget = [36]

            def fails(q):
                x, y, _ = observe(to_tuples(q), release)
                return x is not None and x != y
            small = to_tuples(shrink_prog(p, fails, budget))
            a2, b2, src2 = observe(small, release)
            if a2 is not None and a2 != b2:
                p, a, b, src = small, a2, b2, src2
        what = "a rendered fiber program prints/ends differently from the coroutine Spec"
        if release:
            what += " in the release build (gc=always, collection after the run, freed memory quarantined; the debug build agrees with the Spec)"
        if cases[i][2] == "moved":
            what = "a program prints differently when its whole body is moved into a fiber that is called once"
            b = impl.get(cases[i][3], b)
        ctx.violation(what, input=src, expected=b, actual=a, prog=p, family=cases[i][2], build="release" if release else "debug")
    if len(viol) > 5:
        notes.append("%d further differing programs not listed" % (len(viol) - 5))

    # --- impl == M: traces (dev and release)
    tsel = [i for i in idx if cases[i][2] in ("special", "corpus", "replay")]
    rest = [i for i in idx if i not in set(tsel)]
    rng.shuffle(rest)
    tsel += rest[:(250 if (quick or directed) else 2500)]
    tl = ["trace - 200000 " + hx(cq[i]["src"]) for i in tsel]
    t0 = time.time()
    trd = run_robust(dbg, tl, case_timeout_ms=8000)
    log("[C09] %d dev traces in %.1fs" % (len(tl), time.time() - t0))
    t0 = time.time()
    trr = run_robust(rel, tl, case_timeout_ms=8000)
    log("[C09] %d release traces in %.1fs" % (len(tl), time.time() - t0))
    n_tr = 0
    n_sw = 0
    ptr_bad = 0
    cfg_bad = 0
    for i, rd, rr in zip(tsel, trd, trr):
        td, tr_ = parse_trace(rd), parse_trace(rr)
        if rd.crashed or rr.crashed or not td:
            ctx.corr_broken.append("trace run crashed/empty (dev %s, release %s): %s" % (rd.crashed, rr.crashed, cq[i]["src"][:300]))
            continue
        n_tr += 1
        for t in td + tr_:
            if t[9] != "1":
                ptr_bad += 1
        if td != tr_:
            cfg_bad += 1
            if cfg_bad <= 3:
                k = next((x for x in range(min(len(td), len(tr_))) if td[x] != tr_[x]), min(len(td), len(tr_)))
                ctx.violation("dev and release builds execute a fiber program differently (trace record %d)" % k,
                              input=cq[i]["src"], expected="dev " + " ".join(td[k] if k < len(td) else ()),
                              actual="release " + " ".join(tr_[k] if k < len(tr_) else ()), prog=progs[i], family="trace")
        if impl_result(rr) != impl_result(rd):
            ctx.violation("dev and release builds print/end differently", input=cq[i]["src"], expected=impl_result(rd),
                          actual=impl_result(rr), prog=progs[i], family="trace")
        ev = switch_events(td)
        n_sw += len(ev)
        bad = check_schedule(ev, cq[i]["sched"])
        if bad and impl.get(i) == cq[i]["S"]:
            ctx.corr_broken.append("impl != M (Fibers.v) at %s: %s" % (bad, cq[i]["src"][:400]))
    if ptr_bad:
        ctx.violation("the raw active-fiber pointer differs from the rooted fiber at %d traced instructions" % ptr_bad,
                      input="trace", expected="fiber_ptr_ok=1 everywhere", actual="%d records with 0" % ptr_bad)

    # --- the finally family
    fin = finally_family() if not ctx.replay_only and not directed else []
    fr = run_robust(dbg, ["run - " + hx(x[0]) for x in fin], case_timeout_ms=5000)
    fin_known = 0
    for (src, exp, known, mexp), r in zip(fin, fr):
        got = impl_result(r)
        # addresses in messages are masked
        import re
        got_m = re.sub(r"0x[0-9a-f]+", "0xA", got)
        if got_m != exp:
            if known and got_m == mexp:
                fin_known += 1
                ctx.violation("a fiber switch inside a finally block lets another fiber see (or clear) the pending exception",
                              input=src, expected=exp, actual=got_m, known_class="finally_switch_shares_flag")
            else:
                ctx.violation("finally block with a fiber switch misbehaves outside the known class", input=src, expected=exp, actual=got_m)

    # --- round 9, family (g): every fiber has the capacity of the fiber that runs the program (scale family, closed-form oracle)
    #      and family (h): finally x fiber switch with the class predicate COMPUTED by two executable models (props/c09_r9.py)
    from props import c09_r9
    raw = []     # (family, name, source, expected S, expected M)
    if ctx.replay_only and ctx.replay_only.get("rawsrc"):
        rp = ctx.replay_only["rawsrc"]
        raw.append((rp["family"], rp["name"], rp["src"], rp["S"], rp["M"]))
    elif not ctx.replay_only:
        for name, src, exp in c09_r9.stack_family(quick):
            raw.append(("stack-scale", name, src, exp, exp))
        for name, prog, src, sres, mres in c09_r9.finally_model_family(rng, 250 if quick else 2500):
            raw.append(("finally-switch", name, src, sres, mres))
    t0 = time.time()
    raw_d = run_robust(dbg, ["run - " + hx(x[2]) for x in raw], case_timeout_ms=20000)
    raw_r = run_robust(rel, ["run - " + hx(x[2]) for x in raw], case_timeout_ms=20000)
    log("[C09] %d stack-scale / finally-switch programs x 2 builds in %.1fs" % (len(raw), time.time() - t0))
    raw_stat = {"stack-scale": 0, "finally-switch": 0, "finally-switch in the computed class (M != S)": 0, "known": 0, "new": 0}
    raw_new = []
    for (fam, name, src, sres, mres), rd, rr in zip(raw, raw_d, raw_r):
        raw_stat[fam] += 1
        gd, gr = impl_result(rd), impl_result(rr)
        extra = {"family": fam, "rawsrc": {"family": fam, "name": name, "src": src, "S": sres, "M": mres}}
        if sres == mres:
            bad = [(b, g) for b, g in (("debug", gd), ("release", gr)) if g != sres]
            if bad:
                raw_new.append((len(src), fam, name, src, sres, bad, extra))
        else:
            raw_stat["finally-switch in the computed class (M != S)"] += 1
            # inside the open class: the debug build must do exactly what the one-flag mechanism does; the optimised build may
            # differ from it (the re-raised slot is whatever lies on the stack) but a result equal to neither model in BOTH
            # builds, or the Spec's result in one of them, is not what the known finding describes
            if gd == mres:
                raw_stat["known"] += 1
                if raw_stat["known"] <= 1:
                    ctx.violation("a fiber switch inside a finally block lets another fiber see (or clear) the pending exception "
                                  "(class predicate computed: one flag per VM vs one per fiber give different results)",
                                  input=src, expected=sres, actual=gd, known_class="finally_switch_shares_flag", **extra)
            elif gd == sres and gr == sres:
                ctx.corr_broken.append("finally x fiber switch: the implementation agrees with the per-fiber Spec where the one-flag "
                                       "mechanism model predicts the known defect (repaired? update c09_r9.interp): " + src[:400])
            else:
                raw_new.append((len(src), fam, name, src, mres, [("debug", gd)], extra))
    raw_new.sort(key=lambda x: x[0])
    raw_stat["new"] = len(raw_new)
    seen_f = {}
    for _, fam, name, src, exp, bad, extra in raw_new:
        if seen_f.get(fam, 0) >= 2:
            continue
        seen_f[fam] = seen_f.get(fam, 0) + 1
        if fam == "stack-scale":
            what = ("a fiber does not keep its own call stack and locals at scale: recursion within the documented limits "
                    "(<= 64 frames x <= 256 slots) gives a different result inside a fiber than the closed form / the same code at "
                    "module level [%s] (%s build)" % (name, bad[0][0]))
        elif extra["rawsrc"]["S"] == extra["rawsrc"]["M"]:
            what = ("finally block x fiber switch, OUTSIDE the open class finally_switch_shares_flag (one flag per VM and one flag "
                    "per fiber give the same result): the pending exception / return of the calling fiber is not kept [%s] (%s build)"
                    % (name, bad[0][0]))
        else:
            what = ("finally block x fiber switch inside the open class: the result is neither the Spec's nor what the one-flag "
                    "mechanism (vm.rs handling_exception) produces [%s] (%s build)" % (name, bad[0][0]))
        ctx.violation(what, input=src, expected=exp, actual=bad[0][1], **extra)
    if len(raw_new) > 4:
        notes.append("%d stack-scale / finally-switch programs differ in all" % len(raw_new))

    # --- family (d): fresh heap objects in every piece of per-fiber state across suspensions with allocation in between
    if ctx.replay_only and ctx.replay_only.get("heap"):
        hspecs = [ctx.replay_only["heap"]]
    elif ctx.replay_only or directed:
        hspecs = []
    else:
        hspecs = [gen_heap_spec(rng, big=(i % 3 == 0)) for i in range(120 if quick else 1500)]
        # the seeded shape, always: `return <fresh>` pending in a finally block that yields, others allocate meanwhile
        hspecs += capture_order_specs()
        for kind in range(3):
            hspecs.append({"fibers": [{"shape": "retfin", "kind": kind, "n": 3}, {"shape": "local", "kind": 0, "n": 2}],
                           "sched": [["call", 1, 0, 1], ["other", 40], ["call", 2, 1, 1], ["churn", 30], ["call", 1, 0, 0], ["call", 2, 0, 1]]})
    t0 = time.time()
    hres = run_heap(dbg, rel, hspecs)
    log("[C09] %d heap-state programs x 2 builds in %.1fs" % (len(hspecs), time.time() - t0))
    hbad = [x for x in hres if x[3]]
    hshapes = {}
    for sp in hspecs:
        for f in sp["fibers"]:
            hshapes[f["shape"]] = hshapes.get(f["shape"], 0) + 1
    for n, (sp, src, exp, diff) in enumerate(hbad[:3]):
        if n == 0 and not ctx.replay_only:
            budget = [24]

            def hfails(q):
                return bool(run_heap(dbg, rel, [q])[0][3])
            small = shrink_heap(sp, hfails, budget)
            x = run_heap(dbg, rel, [small])[0]
            if x[3]:
                sp, src, exp, diff = x
        mode, got, uaf = diff[0]
        ctx.violation("a suspended fiber does not keep its own state: a fresh heap object held by a fiber (local, nested frame, "
                      "captured variable, caught/pending exception, pending return in a finally block, handed-over value) is lost "
                      "while other fibers allocate (%s%s)" % (mode, "; use of a reclaimed object detected" if uaf else ""),
                      input=src, expected=exp, actual=got, heap=sp, family="heap-state")
    if len(hbad) > 3:
        notes.append("%d further heap-state programs differ" % (len(hbad) - 3))

    # --- family (e): fibers across modules
    if ctx.replay_only and ctx.replay_only.get("mods"):
        mspecs = [ctx.replay_only["mods"]]
    elif ctx.replay_only or directed:
        mspecs = []
    else:
        mspecs = [gen_mod_spec(rng) for _ in range(150 if quick else 2000)]
    t0 = time.time()
    mres = run_mods(dbg, rel, mspecs)
    log("[C09] %d multi-module programs x 2 builds in %.1fs" % (len(mspecs), time.time() - t0))
    mbad = [x for x in mres if x[4]]
    for n, (sp, msrc, libs, exp, diff) in enumerate(mbad[:2]):
        if n == 0 and not ctx.replay_only:
            budget = [20]

            def mfails(q):
                return bool(run_mods(dbg, rel, [q])[0][4])
            small = shrink_mod(sp, mfails, budget)
            x = run_mods(dbg, rel, [small])[0]
            if x[4]:
                sp, msrc, libs, exp, diff = x
        ctx.violation("after a fiber defined in another module yields/ends/is rejected, the caller does not get its own module "
                      "(its globals) back (%s build)" % diff[0][0],
                      input={"main": msrc, "modules": libs}, expected=exp, actual=diff[0][1], mods=sp, family="modules")
    if len(mbad) > 2:
        notes.append("%d further multi-module programs differ" % (len(mbad) - 2))

    # keep the report short: at most five new violations (the first one shrunk) besides the known class
    kn = [v for v in ctx.violations if v.get("known_class")]
    nw = [v for v in ctx.violations if not v.get("known_class")]
    if len(nw) > 5:
        notes.append("%d violations found, 5 reported" % len(nw))
    ctx.violations[:] = nw[:5] + kn[:2]

    sample_i = next((i for i in idx if cases[i][2] == "random" and cases[i][1] and nontrivial(cases[i][1])), idx[0] if idx else None)
    ctx.cov.update({
        "evaluations": 2 * len(idx) + len(tsel) * 2 + len(fin) + 2 * len(hspecs) + 2 * len(mspecs) + 2 * len(raw),
        "release_runs_of_minilanguage_programs": len(idx),
        "back_to_back_family": {"programs": fam_count.get("bare", 0),
                                "bound": "EVERY switch sequence, nothing between two switches of a fiber: quick 2 fibers <= 5 (4 fixed + 1 random "
                                         "decoration) and 3 fibers <= 4 (2 fixed); thorough / search 2 fibers <= 6 and 3 fibers <= 5 (4 fixed + 1 random)"},
        "module_family": {"programs": len(mspecs), "runs": 2 * len(mspecs), "differing": len(mbad)},
        "distinct_nontrivial": len(nontriv),
        "rule": "programs of the mini-language written along ONE explicit interleaving by a status-only simulation "
                "(random: 1-4 fibers, 6-40 steps, styles busy/errors/captures/deep; exhaustive: EVERY sequence of switch points "
                "call fk | yield | return up to the stated length); non-trivial = at least 2 fibers suspended at once AND at least one value "
                "handed to a fiber by call(arg) AND one handed back by yield(arg)/return, measured by the simulation on the mini-AST; "
                "distinct wire strings counted",
        "samples": [{"wire": wire(progs[sample_i]), "source": cq[sample_i]["src"], "spec": cq[sample_i]["S"],
                     "schedule": cq[sample_i]["sched"]}] if sample_i is not None else [],
        "programs": len(idx),
        "families": fam_count,
        "exhaustive": (not quick) and not ctx.replay_only,
        "exhaustive_bound": "quick: 2 fibers <= 5 switch points; thorough: 2 fibers <= 8 (two decorations), 3 fibers <= 8 and <= 7 (second decoration)",
        "action_kinds": kinds,
        "metamorphic_pairs": meta_checked,
        "traces_validated_against_impl": n_tr,
        "switch_events_compared": n_sw,
        "release_traces_equal_dev": n_tr - cfg_bad,
        "finally_family": {"programs": len(fin), "in_known_class_failing": fin_known},
        "round9_families": raw_stat,
        "heap_state_family": {"programs": len(hspecs), "runs": 2 * len(hspecs), "differing": len(hbad), "shapes": hshapes,
                              "modes": ["debug + quarantine (collects at every allocation)", "release gc=always + quarantine"]},
        "poke_nil_on_resume": poke_nil,
    })


def search(ctx):
    """obligations broken: look for a failing input with the thorough generators (Spec oracle)"""
    old = ctx.tier
    ctx.tier = "thorough"
    try:
        # directed families first (a few minutes): hand-written programs, every switch sequence with every decoration of
        # the gaps (2 fibers <= 6, 3 fibers <= 5 switch points), 600 random programs whose switches follow back to back
        log("[C09] search: directed families")
        run(ctx, directed=True)
        if not [v for v in ctx.violations if not v.get("known_class")]:
            log("[C09] search: all thorough generators")
            run(ctx)
    finally:
        ctx.tier = old
