"""C10 - optimised and checked builds behave identically.

Theorems (coq/props/C10.v over StackModel.v / ConfigModel.v / ConfigProofs.v): the raw variant of every Stack
operation refines the checked one on all call sequences without misuse (and they differ exactly on misuse); the raw
active-fiber pointer denotes the fiber held by the Root cell after every execute/load_fiber/unload_fiber sequence and
reading through it gives the same results; dev forces all five forks to `checked`; the 32 release mixes realise all
2^5 fork vectors; the gc fork is C01's schedule_independence; verified code never reaches the unknown-opcode arm.
Tie: (a) translator: every cfg!/#[cfg] site (gen/CfgSites.v) and every assignment/read site of Vm.fiber/unsafe_fiber
(gen/FiberSites.v) must equal the tables the model was written after (named obligations);
(b) impl == M for config_of_build: each binary reports its (debug_assertions, features), the model computes the fork
vector, the measured collection count of a probe program must match `gc_always`;
(c) the property itself, impl == S: cross-build differential.  The same programs (all repository scripts + generated
programs) run in every binary; printed lines, outcome and messages (addresses masked) must be identical.
Round 9 (C10_r9.py): families compared BETWEEN BUILDS ONLY - try/finally x fiber switch x abrupt exits (inside open known
classes of C08/C09: no single-build oracle), churn (scale family of the allocation accounting, closed-form results) and
the size-independent accounting probe; (d) regenerated table of every debug-only construct (debug_assert!*,
debug_assertions, overflow_checks) with its enclosing function (gen/FiberSites.v `debug_sites` = ConfigModel.debug_sites_ref):
a new one breaks C10_debug_sites_known and aims the search at the function it sits in."""
import hashlib
import itertools
import os
import re
import time
from concurrent.futures import ThreadPoolExecutor

import yvlib
from yvlib import hx, log
from props import C10_r9

LEVEL = "proof"
TRUSTED = [
    "Coq 8.16.1 kernel (coqc), vm_compute; no native_compute, no extraction",
    "translator/translate.py (cfg sites) and translator/translate_c10.py (fiber sites), token level",
    "StackModel.v / ConfigModel.v are hand transcriptions of stack.rs and of vm.rs execute/load_fiber/unload_fiber/"
    "active_fiber (the tables of sites are regenerated; the bodies are not)",
    "the harness `yv` (Rust, feature verif_hooks on in every configuration), cargo/rustc, tools/*.py (Python)",
    "what rustc/LLVM do with real undefined behaviour is outside any model: a raw build that misbehaves is found only "
    "if some program of the differential makes it print or end differently",
]
ASSUMPTIONS = [
    "feature verif_hooks does not change the behaviour of the forks (hooks are add-only)",
    "gc fork: schedule independence is proved for the repaired tracing tables (marks_fixed); for today's tables it is "
    "refuted in Coq (map keys, bound methods); both defects are fixed in /repo since, the two shapes are generated again "
    "(family `readmitted`, `arith` hash_tuples) and compared between builds like every other program",
    "round 9: the families unwind_switch / unwind_random (try/finally x fiber switch x abrupt exits, inside OPEN known classes "
    "of C08/C09) have NO single-build oracle here: only agreement between the builds is demanded",
    "opcodes/class_lookup forks: unreachable for compiler-produced bytecode accepted by C04's verifier",
]

FEATURES = ["debug_stress_gc", "safe_active_fiber", "safe_class_lookup", "safe_stack", "safe_vm_opcodes"]
SCRIPTS = os.path.join(yvlib.REPO, "yarel", "tests", "scripts")
ADDR = re.compile(r"0x[0-9a-f]+")
TIMEOUT_MS = 30000


def all_mixes():
    return [tuple(c) for r in range(len(FEATURES) + 1) for c in itertools.combinations(FEATURES, r)]


def cfg_name(profile, feats):
    return profile + ("+" + "+".join(feats) if feats else "")


def configurations(ctx, thorough=None):
    thorough = (not ctx.quick()) if thorough is None else thorough
    if thorough:
        return [("debug", ())] + [("release", m) for m in all_mixes()]
    return [("debug", ()), ("release", ()), ("release", tuple(FEATURES))]


def source_state():
    y = os.path.join(yvlib.REPO, "yarel")
    return yvlib.sha(os.path.join(y, "src"), os.path.join(y, "Cargo.toml"), os.path.join(y, "build.rs"),
                     # of the harness only what the commands used here (run, mods, config) are made of: other owners'
                     # ext_cXX.rs files change all the time and do not matter
                     *[os.path.join(yvlib.VERIF, "harness", f) for f in ("src/main.rs", "src/extra.rs", "src/ext_c10.rs", "Cargo.toml")])


def build_all(ctx, cfgs):
    """All binaries must come from ONE state of the sources: /repo and the harness may be edited while the (up to 33)
    builds run, so the pass is repeated (cargo rebuilds only what is stale) until the sources did not change during it."""
    t0 = time.time()
    for attempt in range(4):
        before = source_state()
        if attempt > 0 and isinstance(getattr(ctx, "_bins", None), dict):
            ctx._bins.clear()       # ctx.harness caches per configuration: build again (cargo decides what is stale)
        with ThreadPoolExecutor(max_workers=6) as ex:
            bins = list(ex.map(lambda c: ctx.harness(c[0], c[1]), cfgs))
        if source_state() == before:
            break
        log("[C10] sources changed while building, pass %d repeated" % (attempt + 1))
    else:
        ctx.notes.append("sources kept changing during 4 build passes; binaries may stem from different states")
    ctx.cov["build_s"] = round(ctx.cov.get("build_s", 0) + time.time() - t0, 1)
    ctx.cov["source_state"] = before[:16]
    return bins


# --------------------------------------------------------------------------------------------------
# programs


class Gen:
    """Bounded random generator of yarel programs made of independent snippets.  Every snippet prints what it
    computes.  Shapes known to hit C01's open defects are NOT generated: a bound method stored in a field of its own
    receiver (`x.f = x.m`), and tuples that are reachable only as map keys."""

    def __init__(self, rng):
        self.rng = rng
        self.n = 0

    def name(self, p):
        self.n += 1
        return "%s%d" % (p, self.n)

    # --- closures
    def closures(self):
        r = self.rng
        mk, c, v = self.name("mk"), self.name("c"), self.name("v")
        k = r.randint(2, 6)
        steps = r.randint(1, 5)
        s = ["fn %s(start) {" % mk, "  var total = start;", "  var calls = 0;",
             "  fn add(x) { total += x; calls += 1; return total; }",
             "  fn get() { return (total, calls); }", "  return [add, get, |y| { total -= y; return total; }];", "}",
             "var %s = [];" % v,
             "for i in 0..%d { %s.push(%s(i * %d)); }" % (k, v, mk, r.randint(1, 9))]
        for _ in range(steps):
            s.append("print(%s[%d][0](%d));" % (v, r.randrange(k), r.randint(-5, 20)))
            s.append("print(%s[%d][2](%d));" % (v, r.randrange(k), r.randint(0, 7)))
        s.append("for p in %s { print(p[1]()); }" % v)
        # closures capturing the loop variable, called after the loop (closed upvalues)
        s += ["var %s = [];" % c,
              "for i in 0..%d { var j = i * i; var k = i; %s.push(|| j + k); }" % (r.randint(2, 8), c),
              "for f in %s { print(f()); }" % c]
        if r.random() < 0.5:
            d = r.randint(2, 5)
            inner = "a0"
            src = "fn nest%d(a0) {\n" % self.n
            for i in range(1, d):
                src += "  " * i + "return |a%d| {\n" % i
                inner += " + a%d" % i
            src += "  " * d + "return %s;\n" % inner
            for i in range(d - 1, 0, -1):
                src += "  " * i + "};\n"
            src += "}"
            call = "nest%d(1)" % self.n + "".join("(%d)" % (i + 2) for i in range(d - 1))
            s += [src, "print(%s);" % call]
        return s

    # --- classes
    def classes(self):
        r = self.rng
        base, der, o = self.name("Base"), self.name("Der"), self.name("o")
        nf = r.randint(1, 5)
        s = ["class %s {" % base, "  #[constructor]", "  fn new(self, seed) {"]
        for i in range(nf):
            s.append("    self.f%d = seed + %d;" % (i, i))
        s += ["    self.log = [];", "  }",
              "  fn sum(self) { return %s; }" % " + ".join("self.f%d" % i for i in range(nf)),
              "  fn bump(self, by) { self.f0 += by; self.log.push(by); return self; }",
              "  fn describe(self) { return \"%s(${self.sum()})\"; }" % base,
              "  #[static]", "  fn twice(x) { return x * 2; }", "}",
              "#[derive(%s)]" % base, "class %s {" % der,
              "  #[constructor]", "  fn new(self, seed) { super.new(seed); self.extra = \"x\" + \"${seed}\"; }",
              "  fn describe(self) { return \"%s<\" + super.describe() + \",${self.extra}>\"; }" % der,
              "  fn sum(self) { return super.sum() * 10; }", "}",
              "var %s = [];" % o,
              "for i in 0..%d { if i %% 2 == 0 { %s.push(%s.new(i)); } else { %s.push(%s.new(i)); } }" % (
                  r.randint(2, 7), o, base, o, der),
              "for x in %s { print(x.bump(%d).bump(%d).describe()); print(x.sum()); print(x.log); }" % (
                  o, r.randint(1, 9), r.randint(1, 9)),
              "print(%s.twice(%d)); print(%s[0].twice(4));" % (base, r.randint(0, 50), o)]
        if r.random() < 0.6:
            # a bound method kept in a variable / a vec (not in a field of its receiver)
            s += ["var bm%d = %s[0].bump;" % (self.n, o), "bm%d(100);" % self.n, "print(%s[0].sum());" % o,
                  "var ms%d = [];" % self.n, "for x in %s { ms%d.push(x.describe); }" % (o, self.n),
                  "for m in ms%d { print(m()); }" % self.n]
        if r.random() < 0.4:
            s += ["try { print(%s[0].nothing); } catch e { print(e.context); }" % o,
                  "try { %s[0].sum(1, 2); } catch e { print(e.context); }" % o]
        return s

    # --- fibers
    def fibers(self):
        r = self.rng
        kind = r.choice(["gen", "pingpong", "nested", "args", "finished", "tryyield", "chain"])
        n = self.n = self.n + 1
        if kind == "gen":
            k = r.randint(1, 12)
            return ["var g%d = Fiber.new(|| { var a = 0; var b = 1; while true { Fiber.yield(a); var t = a + b; a = b; b = t; } });" % n,
                    "for i in 0..%d { print(g%d.call()); }" % (k, n), "print(g%d.has_finished());" % n]
        if kind == "pingpong":
            k = r.randint(2, 10)
            return ["var n%d = %d;" % (n, k),
                    "var ping%d = Fiber.new(|| { while n%d > 0 { print(\"ping ${n%d}\"); n%d -= 1; Fiber.yield(); } });" % (n, n, n, n),
                    "var pong%d = Fiber.new(|| { while n%d > 0 { print(\"pong ${n%d}\"); n%d -= 1; ping%d.call(); } });" % (n, n, n, n, n),
                    "pong%d.call();" % n, "print(\"done ${n%d}\");" % n,
                    "print(ping%d.has_finished()); print(pong%d.has_finished());" % (n, n)]
        if kind == "nested":
            d = r.randint(2, 6)
            s = ["var depth%d = [];" % n,
                 "fn spawn%d(level) {" % n,
                 "  return Fiber.new(|| {",
                 "    depth%d.push(level);" % n,
                 "    if level < %d { var child = spawn%d(level + 1); var got = child.call(); Fiber.yield(got + level); print(child.call()); }" % (d, n),
                 "    else { Fiber.yield(1000); }",
                 "    return \"end ${level}\";",
                 "  });", "}",
                 "var top%d = spawn%d(0);" % (n, n), "print(top%d.call());" % n, "print(top%d.call());" % n,
                 "print(depth%d);" % n, "print(top%d.has_finished());" % n]
            return s
        if kind == "args":
            k = r.randint(1, 6)
            s = ["var acc%d = Fiber.new(|first| { var total = first; while true { var x = Fiber.yield(total); if x == nil { break; } total += x; } return \"total ${total}\"; });" % n,
                 "print(acc%d.call(%d));" % (n, r.randint(0, 9))]
            for _ in range(k):
                s.append("print(acc%d.call(%d));" % (n, r.randint(-9, 99)))
            s += ["print(acc%d.call());" % n, "print(acc%d.has_finished());" % n]
            return s
        if kind == "finished":
            s = ["var f%d = Fiber.new(|| { return %d; });" % (n, r.randint(0, 99)), "print(f%d.call());" % n]
            if r.random() < 0.15:
                # error kind and message must be the same in every build (the error ends the program)
                s.append("f%d.call();" % n)
            return s
        if kind == "tryyield":
            return ["var f%d = Fiber.new(|| {" % n,
                    "  try { Fiber.yield(\"in try\"); throw \"boom%d\"; }" % n,
                    "  catch e { Fiber.yield(\"caught ${e}\"); }",
                    "  finally { print(\"finally in fiber\"); }",
                    "  return \"fiber end\";", "});",
                    "print(f%d.call()); print(f%d.call()); print(f%d.call()); print(f%d.has_finished());" % (n, n, n, n)]
        # chain: fiber i calls fiber i+1 (fibers calling fibers), values flow back
        k = r.randint(2, 7)
        s = ["var chain%d = [];" % n,
             "for i in 0..%d {" % k,
             "  var me = i;",
             "  chain%d.push(Fiber.new(|x| { if me + 1 < %d { return chain%d[me + 1].call(x + me) * 2; } return x; }));" % (n, k, n),
             "}",
             "print(chain%d[0].call(%d));" % (n, r.randint(0, 5)),
             "for f in chain%d { print(f.has_finished()); }" % n]
        return s

    # --- exceptions
    def exceptions(self):
        r = self.rng
        n = self.n = self.n + 1
        kind = r.choice(["deep", "finally_return", "nested", "runtime", "loop", "rethrow", "loopexit"])
        if kind == "loopexit":
            # continue/break out of a try inside a loop, then a later throw caught by the caller (see Directed)
            d = Directed(r)
            d.n = 1000 * n
            return d.loop_try_exit()
        if kind == "deep":
            d = r.randint(1, 30)
            return ["fn thrower%d(k) { if k == 0 { throw \"deep%d\"; } return thrower%d(k - 1) + 1; }" % (n, n, n),
                    "try { print(thrower%d(%d)); } catch e { print(\"caught ${e}\"); } finally { print(\"fin\"); }" % (n, d),
                    "print(\"after\");"]
        if kind == "finally_return":
            return ["fn fr%d(x) {" % n,
                    "  var log = [];",
                    "  try { log.push(1); if x > 2 { return log; } log.push(2); throw x; }",
                    "  catch e { log.push(\"c${e}\"); return log; }",
                    "  finally { log.push(\"f\"); print(log); }",
                    "}",
                    "for i in 0..5 { print(fr%d(i)); }" % n]
        if kind == "nested":
            return ["fn inner%d(v) { try { throw v; } finally { print(\"inner finally ${v}\"); } }" % n,
                    "fn outer%d(v) { try { inner%d(v); } catch e { print(\"outer caught ${e}\"); throw \"re-${e}\"; } finally { print(\"outer finally\"); } }" % (n, n),
                    "for i in 0..%d { try { outer%d(i); } catch e { print(e); } }" % (r.randint(1, 4), n)]
        if kind == "runtime":
            bad = r.choice(["[1, 2, 3][%d]" % r.randint(3, 9), "nil.foo", "1 + \"a\"", "undefined_name_%d" % n,
                            "\"abc\"[%d]" % r.randint(5, 9), "{}.insert([], 1)", "(1, 2)[5]", "[].pop()",
                            "(|a, b| a)(1)", "\"x\".to_num()", "(0..3)[7]"])
            s = ["try { print(%s); } catch e { print(e); print(e.context); } finally { print(\"f%d\"); }" % (bad, n)]
            if r.random() < 0.08:
                s.append("print(%s);" % bad)    # uncaught: same kind, same message, same trace everywhere
            return s
        if kind == "loop":
            return ["var out%d = [];" % n,
                    "for i in 0..%d {" % r.randint(3, 12),
                    "  try { if i %% 3 == 0 { throw i; } if i %% 3 == 1 { continue; } out%d.push(i); }" % n,
                    "  catch e { out%d.push(-e); }" % n,
                    "  finally { out%d.push(\"f\"); }" % n,
                    "}", "print(out%d);" % n]
        return ["fn lvl%d(k) { try { if k == 0 { throw \"bottom\"; } lvl%d(k - 1); } catch e { throw \"${e}<${k}\"; } }" % (n, n),
                "try { lvl%d(%d); } catch e { print(e); }" % (n, r.randint(1, 8))]

    # --- recursion around the 64-frame limit
    def recursion(self):
        r = self.rng
        n = self.n = self.n + 1
        d = r.choice([10, 40, 60, 61, 62, 63, 64, 65, 70, 200])
        s = ["fn rec%d(k) { if k == 0 { return 0; } return 1 + rec%d(k - 1); }" % (n, n)]
        how = r.choice(["catch", "catch", "catch", "method", "fiber", "method", "fiber", "plain"])
        if how == "catch":
            s.append("try { print(rec%d(%d)); } catch e { print(e.context); }" % (n, d))
            s.append("print(rec%d(5));" % n)
        elif how == "plain":
            s.append("print(rec%d(%d));" % (n, d))
        elif how == "method":
            s += ["#[constructor(new)]", "class R%d { fn go(self, k) { if k == 0 { return 0; } return 1 + self.go(k - 1); } }" % n,
                  "try { print(R%d.new().go(%d)); } catch e { print(e.context); }" % (n, d)]
        else:
            s += ["var rf%d = Fiber.new(|| { try { return rec%d(%d); } catch e { return \"in fiber: ${e.context}\"; } });" % (n, n, d),
                  "print(rf%d.call());" % n]
        return s

    # --- wide frames
    def wide(self):
        r = self.rng
        n = self.n = self.n + 1
        k = r.choice([20, 60, 120, 200, 240])
        body = ["fn wide%d(p) {" % n]
        for i in range(k):
            body.append("  var l%d = p + %d;" % (i, i))
        picks = sorted(set(r.randrange(k) for _ in range(8)) | {0, k - 1})
        body.append("  var g = || %s;" % " + ".join("l%d" % i for i in picks[:4]))
        body.append("  return [%s, g()];" % ", ".join("l%d" % i for i in picks))
        body.append("}")
        return body + ["print(wide%d(%d));" % (n, r.randint(0, 1000)),
                       "print([%s].len());" % ", ".join(str(i) for i in range(r.choice([10, 100, 250])))]

    # --- strings
    def strings(self):
        r = self.rng
        n = self.n = self.n + 1
        k = r.randint(3, 60)
        words = ["ab", "é", "xyz", "🙂", "-", "q"]
        return ["var s%d = \"\";" % n,
                "for i in 0..%d { s%d = s%d + \"%s\" + \"${i}\"; }" % (k, n, n, r.choice(words)),
                "print(s%d); print(s%d.len()); print(s%d.count_chars());" % (n, n, n),
                "var parts%d = s%d.split(\"%d\");" % (n, n, r.randint(0, 9)),
                "print(parts%d.len()); print(parts%d[0]);" % (n, n),
                "print(s%d.replace(\"1\", \"<one>\").find(\"<one>\", 0));" % n,
                "var cs%d = 0; for c in s%d { if c.is_digit() { cs%d += 1; } } print(cs%d);" % (n, n, n, n),
                "var sw%d = s%d.starts_with(\"a\"); var mix%d = [1, (2, \"t\"), {\"k\": nil}];" % (n, n, n),
                "print(\"${sw%d} ${mix%d} ${1 / 3} ${100000000 * 100000000 * 100000} ${0.1 + 0.2}\");" % (n, n)]

    # --- maps
    def maps(self):
        r = self.rng
        n = self.n = self.n + 1
        k = r.randint(1, 80)
        return ["var m%d = {};" % n,
                "for i in 0..%d { m%d.insert(\"k${i %% %d}\", i); m%d.insert(i * %d, \"v${i}\"); }" % (
                    k, n, r.randint(1, 20), n, r.choice([1, 3, 16, 64])),
                "print(m%d.len()); print(m%d.get(\"k1\")); print(m%d.has_key(%d));" % (n, n, n, r.randint(0, 99)),
                "for i in 0..%d { m%d.remove(i); }" % (r.randint(0, k), n),
                "print(m%d);" % n, "print(m%d.keys().len()); print(m%d.values().len());" % (n, n),
                "var t%d = 0; for kv in m%d.items() { t%d += 1; } print(t%d);" % (n, n, n, n),
                "print({1: \"a\", true: \"b\", nil: \"c\", \"s\": [1]} == {1: \"a\", true: \"b\", nil: \"c\", \"s\": [1]});"]

    # --- iterators
    def iterators(self):
        r = self.rng
        n = self.n = self.n + 1
        k = r.randint(2, 30)
        s = ["var acc%d = [];" % n,
             "for i in 0..%d { if i %% 4 == 3 { continue; } for c in \"ab\" { if i > %d { break; } acc%d.push(\"${i}${c}\"); } }" % (
                 k, r.randint(1, k), n),
             "print(acc%d);" % n,
             "print((0..%d).iter().map(|x| x * x).filter(|x| x %% 2 == 0).reduce(|a, b| a + b, 0));" % k,
             "for t in (1, \"two\", [3]) { print(t); }",
             "var it%d = [1, 2].iter(); print(it%d.next()); print(it%d.next()); print(it%d.next() == it%d.next());" % (n, n, n, n, n)]
        if r.random() < 0.5:
            s += ["#[constructor(new)]", "class Count%d {" % n,
                  "  fn iter(self) { self.i = 0; return self; }",
                  "  fn next(self) { if self.i == %d { return StopIter.new(); } self.i += 1; return self.i * %d; }" % (
                      r.randint(0, 9), r.randint(1, 5)),
                  "}", "for v in Count%d.new() { print(v); }" % n]
        return s

    # --- heavy allocation (the paced build must collect at least once: > 64 KiB of garbage)
    def alloc(self):
        r = self.rng
        n = self.n = self.n + 1
        kind = r.choice(["vecs", "strings", "instances", "closures", "fibers", "maps"])
        k = {"vecs": 600, "strings": 250, "instances": 2000, "closures": 1000, "fibers": 400, "maps": 800}[kind]
        k = r.randint(k // 2, k)
        keep = r.randint(2, 9)
        head = ["var keep%d = [];" % n]
        if kind == "vecs":
            body = "var v = [i, [i + 1, (i, i * 2)]]; if i %% %d == 0 { keep%d.push(v); }" % (keep * 10, n)
        elif kind == "strings":
            body = "var s = \"s${i}\" + \"-\" + \"${i * 2}\"; if i %% %d == 0 { keep%d.push(s); }" % (keep * 10, n)
        elif kind == "instances":
            head += ["class Node%d { #[constructor] fn new(self, v, next) { self.v = v; self.next = next; } }" % n,
                     "var head%d = nil;" % n]
            body = "head%d = Node%d.new(i, head%d); if i %% %d == 0 { keep%d.push(head%d); head%d = nil; }" % (
                n, n, n, keep * 10, n, n, n)
        elif kind == "closures":
            body = "var j = i; var f = || j + 1; if i %% %d == 0 { keep%d.push(f); }" % (keep * 10, n)
        elif kind == "fibers":
            body = "var f = Fiber.new(|x| { Fiber.yield(x + 1); return x; }); f.call(i); if i %% %d == 0 { keep%d.push(f); }" % (keep * 10, n)
        else:
            body = "var m = {\"a\": i, i: [i]}; if i %% %d == 0 { keep%d.push(m); }" % (keep * 10, n)
        tail = ["print(keep%d.len());" % n]
        if kind == "closures":
            tail.append("var t%d = 0; for f in keep%d { t%d += f(); } print(t%d);" % (n, n, n, n))
        elif kind == "fibers":
            tail.append("var t%d = 0; for f in keep%d { t%d += f.call(); } print(t%d);" % (n, n, n, n))
        elif kind == "instances":
            tail.append("var t%d = 0; for h in keep%d { var p = h; while p != nil { t%d += p.v; p = p.next; } } print(t%d);" % (n, n, n, n))
        else:
            tail.append("print(keep%d[keep%d.len() - 1]);" % (n, n))
        return head + ["for i in 0..%d { %s }" % (k, body)] + tail

    # --- class lookup of every kind of value (Vm::get_class): type(v), method lookup on built-in kinds
    def types(self):
        r = self.rng
        n = self.n = self.n + 1
        vals = ["1", "\"s\"", "nil", "true", "[1]", "(1, 2)", "{1: 2}", "0..3", "print", "type", "|x| x", "tfn%d" % n,
                "TC%d" % n, "TC%d.new()" % n, "TC%d.new().m" % n, "TC%d.sm" % n, "[].push", "\"s\".len", "Fiber.new(|| 1)",
                "\"ab\".iter()", "[1].iter()", "(1,).iter()", "(0..2).iter()", "{}.keys", "Type", "Object"]
        r.shuffle(vals)
        vals = vals[:r.randint(6, len(vals))]
        classes = ["Type", "Nil", "Bool", "Num", "StopIter", "Func", "BuiltIn", "Method", "BuiltInMethod", "String", "Vec",
                   "Range", "Tuple", "HashMap", "Fiber", "Object"]
        return ["fn tfn%d(a) { return a; }" % n,
                "#[constructor(new)]", "class TC%d { fn m(self) { return 1; } #[static] fn sm() { return 2; } }" % n,
                "var cls%d = [%s];" % (n, ", ".join(classes)),
                "for v in [%s] {" % ", ".join(vals),
                "  var t = type(v); var hits = [];",
                "  for i in 0..cls%d.len() { if t == cls%d[i] { hits.push(i); } }" % (n, n),
                "  print(\"${t} ${hits} ${type(t) == Type}\");",
                "}", "print(type(StopIter.new()) == StopIter);"]

    KINDS = ["closures", "classes", "fibers", "exceptions", "recursion", "wide", "strings", "maps", "iterators", "alloc", "types"]

    def program(self):
        """returns (list of snippets (each a list of lines), list of kinds)"""
        r = self.rng
        self.n = 0
        k = r.randint(2, 6)
        kinds = [r.choice(self.KINDS) for _ in range(k)]
        # most programs allocate enough for the paced build to collect, and mix fibers / exceptions in
        if r.random() < 0.8 and "alloc" not in kinds:
            kinds.insert(r.randrange(len(kinds) + 1), "alloc")
        if r.random() < 0.6:
            kinds.append(r.choice(["fibers", "exceptions"]))
        snippets = []
        for kd in kinds:
            lines = getattr(self, kd)()
            # half of the snippets run inside a function or a fiber: locals, upvalues and frames instead of globals
            wrap = r.random()
            if kd in ("classes", "recursion", "wide", "types") or wrap < 0.5:
                snippets.append(lines)
            elif wrap < 0.8:
                self.n += 1
                snippets.append(["fn scope%d() {" % self.n] + ["  " + l for l in lines] + ["}", "scope%d();" % self.n])
            else:
                self.n += 1
                snippets.append(["var wrap%d = Fiber.new(|| {" % self.n] + ["  " + l for l in lines] +
                                ["});", "wrap%d.call();" % self.n])
        return snippets, kinds


class Directed:
    """Directed family of GC-schedule-sensitive programs.  Their correct output does not depend on when collections
    happen; each parks a FRESH heap object in one of the places where the VM keeps a value outside the value stack (or
    only in a register / a suspended frame) while yarel code or an allocating native runs, then allocates, then prints
    the object.  A collect-at-every-allocation build (dev, debug_stress_gc) reclaims the object if the edge that should
    keep it alive is not traced; the paced build does not collect in that window: the builds print different things."""

    PRELUDE = ["class Box { #[constructor] fn new(self, v) { self.v = v; } fn show(self) { return \"Box(${self.v})\"; } }",
               "fn mkvec(k) { return [k, [k + 1], \"s${k}\"]; }",
               "fn mkc(k) { var x = [k, k]; return || x; }"]

    def __init__(self, rng):
        self.rng = rng
        self.n = 0

    def uid(self):
        self.n += 1
        return self.n

    def fresh(self, kind=None):
        """(expression creating a fresh heap object, statement printing variable %s)"""
        r = self.rng
        k = r.randint(1, 99)
        kind = kind or r.choice(["vec", "nested", "tuple", "map", "inst", "clo", "str", "call"])
        return {
            "vec": ("[1, 2, %d]" % k, "print(%s);"),
            "nested": ("[%d, [%d, (%d, \"t\")]]" % (k, k + 1, k + 2), "print(%s);"),
            "tuple": ("(%d, [%d])" % (k, k), "print(%s);"),
            "map": ("{\"k\": [%d], %d: \"v\"}" % (k, k), "print(%s);"),
            "inst": ("Box.new([%d])" % k, "print(%s.show());"),
            "clo": ("mkc(%d)" % k, "print(%s());"),
            "str": ("\"s\" + \"${%d}\" + \"e\"" % k, "print(%s);"),
            "call": ("mkvec(%d)" % k, "print(%s);"),
        }[kind]

    def alloc(self):
        r = self.rng
        u = self.uid()
        return r.choice([
            "var scratch%d = [7, 8, 9]; print(\"cleanup ${scratch%d}\");" % (u, u),
            "var junk%d = []; for i in 0..4 { junk%d.push([i, (i, \"j${i}\")]); } print(junk%d.len());" % (u, u, u),
            "var tmp%d = Box.new([9, 9]); print(tmp%d.show());" % (u, u),
            "var mm%d = {\"z\": [0], 1: (2, 3)}; print(mm%d.keys().len());" % (u, u),
            "var st%d = \"a\" + \"${%d}\" + \"b\"; print(st%d.split(\"a\"));" % (u, u, u),
        ])

    # --- pending return value while the finally block runs
    def ret_finally(self):
        r = self.rng
        e, show = self.fresh()
        e2, show2 = self.fresh()
        a, a2, a3 = self.alloc(), self.alloc(), self.alloc()
        v = r.choice(["plain", "catch", "nested", "method", "fiber", "yield", "loop", "lambda", "deep"])
        if v == "plain":
            body = ["fn build() { try { return %s; } finally { %s } }" % (e, a), "var v = build();"]
        elif v == "catch":
            body = ["fn build() { try { throw \"x\"; } catch err { return %s; } finally { %s } }" % (e, a), "var v = build();"]
        elif v == "nested":
            body = ["fn build() { try { try { return %s; } finally { %s } } finally { %s } }" % (e, a, a3), "var v = build();"]
        elif v == "method":
            body = ["#[constructor(new)]", "class Maker { fn build(self, k) { try { return [k, %s]; } finally { %s } } }" % (e, a),
                    "var v = Maker.new().build(5)[1];"]
        elif v == "fiber":
            body = ["var fb = Fiber.new(|| { try { return %s; } finally { %s } });" % (e, a), "var v = fb.call();"]
        elif v == "yield":
            body = ["var fb = Fiber.new(|| { try { Fiber.yield(0); return %s; } finally { %s } });" % (e, a),
                    "print(fb.call());", a3, "var v = fb.call();"]
        elif v == "loop":
            body = ["fn build() { for i in [10, 20, 30] { try { if i == 20 { return %s; } } finally { %s } } return nil; }" % (e, a),
                    "var v = build();"]
        elif v == "lambda":
            body = ["var build = |k| { try { return [k, %s]; } finally { %s } };" % (e, a), "var v = build(1)[1];"]
        else:
            body = ["fn inner() { try { return %s; } finally { %s } }" % (e, a),
                    "fn build() { try { return [inner(), %s]; } finally { %s } }" % (e2, a3),
                    "var pair = build(); var v = pair[0]; var w = pair[1];", show2 % "w"]
        return body + [a2, show % "v"]

    # --- receiver while a bound method is created / kept
    def bound_receiver(self):
        r = self.rng
        a, a2 = self.alloc(), self.alloc()
        k = r.randint(1, 50)
        v = r.choice(["inst", "veclen", "veciter", "mk", "strm", "mapkeys"])
        if v == "inst":
            return ["var m = Box.new([%d]).show;" % k, a, "print(m());", a2, "print(m());"]
        if v == "veclen":
            return ["var m = [1, 2, %d, [4]].len;" % k, a, "print(m());"]
        if v == "veciter":
            return ["var m = [[%d], [%d]].iter;" % (k, k + 1), a, "var it = m();", a2, "print(it.next()); print(it.next());"]
        if v == "mk":
            return ["fn mk() { return Box.new(mkvec(%d)); }" % k, "var ms = [mk().show, mk().show];", a,
                    "for m in ms { print(m()); }"]
        if v == "strm":
            return ["var m = (\"ab\" + \"${%d}\").len;" % k, a, "print(m());", "var sp = (\"x-y\" + \"-${%d}\").split;" % k, a2,
                    "print(sp(\"-\"));"]
        return ["var m = {\"a\": [%d], \"b\": (1, 2)}.items;" % k, a, "print(m());"]

    # --- arguments / receivers while an allocating native runs
    def native_args(self):
        r = self.rng
        k = r.randint(1, 50)
        e, _ = self.fresh(r.choice(["vec", "nested", "tuple", "map", "call"]))
        e2, _ = self.fresh(r.choice(["vec", "nested", "tuple", "str"]))
        return r.choice([
            ["print((\"a,b\" + \",${%d}\" + \",c\").split(\",\"));" % k],
            ["print({\"a\": %s, \"b\": %s}.keys());" % (e, e2), "print({\"a\": %s, \"b\": %s}.values());" % (e, e2)],
            ["print({\"a\": %s, %d: %s}.items());" % (e, k, e2)],
            ["print((\"x\" + \"${%d}\") + (\"y\" + \"${%d}\") + (\"z\" + \"${%s}\"));" % (k, k + 1, e)],
            ["print(\"${%s} and ${%s} and ${mkvec(%d)} and ${Box.new([%d]).show()}\");" % (e, e2, k, k)],
            ["print([%d, %d, %d].iter().map(|x| [x, \"m${x}\"]).filter(|p| p[0] > 0).collect());" % (k, k + 1, k + 2)],
            ["print(%s.iter().map(|x| (x, [x])).collect());" % "[[%d], (%d,), \"q\"]" % (k, k)],
            ["print((0..%d).iter().map(|i| Box.new([i])).map(|b| b.show()).collect());" % r.randint(2, 6)],
            ["print((0..%d).iter().map(|i| [i]).reduce(|acc, x| acc + \"${x}\", \"r\" + \"${%d}\"));" % (r.randint(2, 6), k)],
            ["print((\"aXbX\" + \"${%d}\").replace(\"X\", \"-\" + \"${%d}\"));" % (k, k + 1)],
            ["var vv = []; vv.push(%s); vv.push(%s); vv.push(mkvec(%d)); print(vv);" % (e, e2, k)],
            ["var hm = {}; hm.insert(\"k\" + \"${%d}\", %s); hm.insert(\"j\" + \"${%d}\", %s); print(hm.len()); print(hm.get(\"k\" + \"${%d}\"));" % (k, e, k, e2, k)],
            ["print([%s, %s] == [%s, %s]);" % (e, e2, e, e2), "print([mkvec(%d), mkvec(%d)]);" % (k, k + 1)],
            ["print(String.from(%s) + String.from(%s));" % (e, e2)],
        ])

    # --- the class under construction while its methods are created
    def class_building(self):
        r = self.rng
        k = r.randint(1, 50)
        nm = r.randint(3, 9)
        a = self.alloc()
        ms = " ".join("fn m%d(self) { return [k, %d, self.tag]; }" % (i, i) for i in range(nm))
        return ["fn mkclass(k) {",
                "  class Parent { fn a(self) { return (k, [k]); } }",
                "  #[derive(Parent)]",
                "  class Local { #[constructor] fn new(self, t) { self.tag = [t]; } %s #[static] fn s() { return [k, \"static\"]; } }" % ms,
                "  return Local;", "}",
                "var C = mkclass(%d);" % k, a, "var o = C.new(\"o\" + \"${%d}\");" % k, self.alloc(),
                "print(o.m%d()); print(o.m0()); print(o.a()); print(C.s());" % (nm - 1)]

    # --- the iterator (and the iterated fresh object) while the loop body allocates
    def iterating(self):
        r = self.rng
        k = r.randint(1, 50)
        a = self.alloc()
        e, show = self.fresh()
        e2, show2 = self.fresh()
        return r.choice([
            ["for x in [%s, mkvec(%d), [%d]] { %s print(x); }" % ("[%d, (1, 2)]" % k, k, k, a)],
            ["for c in (\"ab\" + \"c${%d}\") { %s print(c); }" % (k, a)],
            ["for kv in {\"a\": [%d], \"b\": mkvec(%d)}.items() { %s print(kv); }" % (k, k, a)],
            ["for x in (0..3).iter().map(|i| [i, \"i${i}\"]) { %s print(x); }" % a],
            ["#[constructor(new)]", "class Cnt { fn iter(self) { self.i = 0; self.seen = []; return self; } "
             "fn next(self) { if self.i == 3 { return StopIter.new(); } self.i += 1; self.seen.push([self.i]); return self.seen; } }",
             "for s in Cnt.new() { %s print(s); }" % a],
            ["for x in mkvec(%d) { for y in [[x], (x,)] { %s print(y); } }" % (k, a)],
            ["for x in [%s, %s] { %s }" % (e, e, a), "var keepv = %s; for i in 0..2 { %s } %s" % (e2, self.alloc(), show2 % "keepv")],
        ])

    # --- values held only by a suspended or a calling fiber
    def fiber_held(self):
        r = self.rng
        e, show = self.fresh()
        e2, show2 = self.fresh()
        a, a2, a3 = self.alloc(), self.alloc(), self.alloc()
        v = r.choice(["suspended", "calling", "yielded", "arg", "inner", "temp", "chain"])
        if v == "suspended":
            return ["var f = Fiber.new(|| { var mine = %s; Fiber.yield(1); %s return mine; });" % (e, a), "print(f.call());", a2,
                    "var v = f.call();", a3, show % "v"]
        if v == "calling":
            return ["fn outer() { var mine = %s; var f = Fiber.new(|| { %s Fiber.yield(2); %s }); f.call(); f.call(); return mine; }" % (e, a, a2),
                    "var v = outer();", a3, show % "v"]
        if v == "yielded":
            return ["var g = Fiber.new(|| { for i in 0..3 { Fiber.yield([i, (i, \"y${i}\")]); } return %s; });" % e,
                    "var y0 = g.call();", a, "var y1 = g.call();", a2, "print(y0); print(y1); print(g.call());", "var v = g.call();", a3, show % "v"]
        if v == "arg":
            return ["var f = Fiber.new(|x| { %s var y = Fiber.yield(x); %s return [x, y]; });" % (a, a2),
                    "var first = f.call(%s);" % e, a3, "var both = f.call(%s);" % e2, self.alloc(),
                    show % "first", show % "both[0]", show2 % "both[1]"]
        if v == "inner":
            return ["var outerf = Fiber.new(|| { var inner = Fiber.new(|| { var z = %s; Fiber.yield(z); %s return z; }); "
                    "var got = inner.call(); Fiber.yield(got); %s return inner.call(); });" % (e, a, a2),
                    "var v1 = outerf.call();", a3, "var v2 = outerf.call();", self.alloc(), show % "v1", show % "v2"]
        if v == "temp":
            return ["var v = Fiber.new(|| %s).call();" % e, a, show % "v",
                    "var w = Fiber.new(|p| { %s return [p]; }).call(%s);" % (a2, e2), a3, show2 % "w[0]"]
        return ["var fs = [];",
                "for i in 0..3 { var me = i; fs.push(Fiber.new(|x| { var mine = [me, x]; if me < 2 { var r = fs[me + 1].call(mine); %s return [mine, r]; } %s return mine; })); }" % (a, a2),
                "var v = fs[0].call(%s);" % e, a3, "print(v.len()); print(v[1].len());"]

    # --- other parking places: closed upvalues, exception in flight, compound assignment, map literal, constructor
    def misc(self):
        r = self.rng
        k = r.randint(1, 50)
        e, show = self.fresh()
        e2, show2 = self.fresh()
        a, a2 = self.alloc(), self.alloc()
        return r.choice([
            ["fn mk() { var x = %s; return || x; }" % e, "var c = mk();", a, "var v = c();", a2, show % "v"],
            ["try { try { throw %s; } finally { %s } } catch err { %s %s }" % (e, a, a2, show % "err")],
            ["fn thrower() { throw %s; }" % e, "fn mid() { try { thrower(); } finally { %s } }" % a,
             "try { mid(); } catch err { %s %s }" % (a2, show % "err")],
            ["var o = Box.new(\"p\" + \"${%d}\"); o.v += \"q\" + \"${%d}\"; %s o.v += \"r\"; print(o.show());" % (k, k, a)],
            ["var d = {(\"k\" + \"${%d}\"): %s, (\"j\" + \"${%d}\"): %s};" % (k, e, k, e2), a, "print(d);"],
            ["var b = Box.new(Box.new(%s));" % e, a, "var v = b.v.v;", a2, show % "v"],
            ["var vv = [0, 0]; vv[[0, 1].len() - 1] = %s; vv[0] = %s;" % (e, e2), a, show % "vv[1]", show2 % "vv[0]"],
            ["fn pass(x, y, z) { %s return [z, y, x]; }" % a, "var v = pass(%s, mkvec(%d), %s);" % (e, k, e2), a2,
             show2 % "v[0]", show % "v[2]", "print(v[1]);"],
            ["var t = (%s, %s, mkvec(%d));" % (e, e2, k), a, show % "t[0]", show2 % "t[1]", "print(t[2]);"],
            ["var r0 = %d..%d; %s print(r0); for i in r0 { print([i]); }" % (k, k + 3, a)],
        ])

    # --- the module while its body runs (through the harness' module loader)
    def module(self):
        e, show = self.fresh()
        e2, show2 = self.fresh()
        mod = self.PRELUDE + ["var data = %s;" % e, self.alloc(), "fn get() { return data; }", self.alloc(),
                              "var later = %s;" % e2, "fn fresh_one() { return %s; }" % e, self.alloc(), "print(\"module body done\");"]
        main = self.PRELUDE + ["import \"gcmod\" as m;", self.alloc(), show % "m.data", show % "m.get()", show2 % "m.later",
                               "var f1 = m.fresh_one();", self.alloc(), show % "f1"]
        return main, "\n".join(mod) + "\n"

    # --- `continue` / `break` leaving a try block inside a loop, FOLLOWED by a later throw in the same activation that
    #     must reach the caller's handler (a stale handler would truncate the stack above len: clamped in checked builds,
    #     grown back over dead slots in raw builds)
    def loop_try_exit(self):
        r = self.rng
        u = self.uid()
        how = r.choice(["continue", "break", "continue", "both"])
        loop = r.choice(["for", "while", "for"])
        nloc = r.randint(0, 5)
        tail = r.choice(["catch", "finally", "catchfinally"])
        depth = r.randint(1, 2)
        late = r.choice(["throw \"late\";", "throw [\"late\", %d];" % u, "var boom = [][3];", "nil.missing;", "thrower%d();" % u,
                         "var zz = 1 + \"a\";"])
        locs = " ".join("var l%d = \"loc%d-${i}\";" % (j, j) for j in range(nloc))
        use = " ".join("l%d" % j for j in range(nloc))
        exit_stmt = {"continue": "if i == 2 { continue; }", "break": "if i == 3 { break; }",
                     "both": "if i == 2 { continue; } if i == 4 { break; }"}[how]
        handler = {"catch": "catch e { print(\"loop handler: ${e} / ${tag}\"); }",
                   "finally": "finally { print(\"loop finally ${tag}\"); }",
                   "catchfinally": "catch e { print(\"loop handler: ${e} / ${tag}\"); } finally { print(\"fin ${tag}\"); }"}[tail]
        inner = "%s print(\"ok ${tag} %s\");" % (exit_stmt, " ".join("${l%d}" % j for j in range(nloc)))
        body = "try { %s } %s" % (inner, handler)
        if depth == 2:
            body = "try { %s } catch e2 { print(\"mid handler ${e2}\"); }" % body
        if loop == "for":
            lp = ["  for i in [1, 2, 3, 4, 5] {", "    var tag = \"item ${i}\"; %s" % locs, "    " + body, "  }"]
        else:
            lp = ["  var i = 0;", "  while i < 5 {", "    i += 1; var tag = \"item ${i}\"; %s" % locs, "    " + body, "  }"]
        fn = ["fn thrower%d() { throw \"from callee\"; }" % u, "fn run%d(seed) {" % u, "  var before = [seed, \"b\"];"] + lp + \
             ["  print(\"loop done ${before}\");", "  " + late, "  return \"not reached\";", "}"]
        call = ["try { print(run%d(%d)); } catch e { var mine = \"outer local\"; print(\"outer: ${e} ${mine}\"); }" % (u, u),
                "print(\"after\");"]
        if r.random() < 0.3:
            call = ["var fb%d = Fiber.new(|| { try { return run%d(%d); } catch e { return \"fiber outer: ${e}\"; } });" % (u, u, u),
                    "print(fb%d.call());" % u, "print(\"after\");"]
        return fn + call

    # --- arithmetic that is overflow-checked in dev and wrapping in release, driven to its extremes
    ARITH_PRELUDE = [
        "fn t(f) { try { print(f()); } catch e { print(e.context); } }",
        "var INF = 1 / 0; var NINF = -1 / 0; var NAN = 0 / 0;",
        "var P31 = 2147483648; var P32 = 4294967296; var P53 = 9007199254740992; var P63 = 9223372036854775808; var P64 = P63 * 2;",
        "var BIG = P64 * P64 * P64 * P64; BIG = BIG * BIG * BIG * BIG; var TINY = 1 / BIG / P64;",
        "fn rep(s, n) { var out = \"\"; for i in 0..n { out = out + s; } return out; }",
        "fn probe(k) { try { var m = {}; m.insert(k, \"v\"); m.insert(k, \"w\"); var r = [m.has_key(k), m.get(k), m.len()]; "
        "var lit = {k: 1, \"other\": 2}; r.push(lit.len()); r.push(lit.get(k)); r.push(m.remove(k)); r.push(m.len()); "
        "r.push(m.has_key(k)); print(r); } catch e { print(e.context); } }",
    ]
    NUMS = ["0", "-0", "1", "-1", "0.5", "-2.5", "127", "128", "255", "256", "65535", "65536", "P31", "P31 - 1", "-P31", "P32", "P32 - 1",
            "P53", "P53 - 1", "P53 + 2", "-P53", "P63", "P63 - 1024", "-P63", "-P63 - 2048", "P64", "-P64", "BIG", "-BIG",
            "BIG * BIG", "TINY", "-TINY", "INF", "NINF", "NAN", "0.1 + 0.2", "1 / 3"]

    def tuple_expr(self, depth):
        r = self.rng
        n = r.randint(0, 6)
        els = []
        for _ in range(n):
            c = r.random()
            if depth > 0 and c < 0.35:
                els.append(self.tuple_expr(depth - 1))
            elif c < 0.6:
                els.append(r.choice(self.NUMS))
            elif c < 0.8:
                els.append("rep(\"%s\", %d)" % (r.choice(["a", "é", "xy"]), r.choice([0, 1, 7, 8, 9, 33, 100])))
            else:
                els.append(r.choice(["nil", "true", "false", "0..3", "(-P63)..P63", "Vec", "String", "Box"]))
        if n == 1:
            return "(%s,)" % els[0]
        return "(%s)" % ", ".join(els)

    def arith(self):
        r = self.rng
        kinds = ["hash_tuples", "hash_nums", "hash_strs", "hash_misc", "index", "slice", "ranges", "strconv", "float_ops",
                 "bit_ops", "pacing", "hash_tuples", "index"]
        self.arith_i = getattr(self, "arith_i", -1) + 1
        kind = kinds[self.arith_i % len(kinds)]       # every kind at least twice per run
        pre = list(self.ARITH_PRELUDE)
        N = self.NUMS
        if kind == "hash_nums":
            ks = r.sample(N, 14)
            body = ["for k in [%s] { probe(k); }" % ", ".join(ks),
                    "var all = {}; for k in [%s] { all.insert(k, [k]); } print(all.len()); print(all.get(P63)); print(all.get(-0)); print(all.get(NAN));" % ", ".join(N)]
        elif kind == "hash_strs":
            lens = r.sample([0, 1, 2, 3, 7, 8, 9, 15, 16, 17, 31, 32, 33, 63, 64, 65, 99, 100], 9)
            body = ["for n in [%s] { probe(rep(\"a\", n)); probe(rep(\"é\", n)); probe(rep(\"🙂z\", n)); }" % ", ".join(map(str, lens)),
                    "var sm = {}; for n in 0..101 { sm.insert(rep(\"q\", n), n); } print(sm.len()); print(sm.get(rep(\"q\", 100))); print(sm.get(\"\"));"]
        elif kind == "hash_tuples":
            ts = [self.tuple_expr(r.randint(0, 3)) for _ in range(8)] + ["(1, 2)", "(2, 1)", "(P63, P63)", "(NAN, NAN)",
                                                                          "(INF, NINF, BIG, -BIG, P64, -P64)", "((((1, 2),),),)"]
            body = ["probe(%s);" % x for x in ts]
            body += ["var grid = {}; for x in 0..6 { for y in 0..6 { grid.insert((x, y), x * 10 + y); grid.insert((x, (y, (x, (y,)))), 1); } }",
                     "print(grid.len()); print(grid.get((1, 2))); print(grid.get((2, 1))); print(grid.has_key((5, (5, (5, (5,)))))); print(grid.get((6, 6)));",
                     "var lit = {(1, 2): \"ne\", (): 0, (P63, -P63, BIG): 3}; print(lit.get((1, 2))); print(lit.get(())); print(lit.get((P63, -P63, BIG))); print(lit);"]
        elif kind == "hash_misc":
            ks = ["true", "false", "nil", "Vec", "String", "HashMap", "Box", "Tuple", "Range", "0..0", "0..1", "1..0", "(-P63)..P63", "0..P53",
                  "P53..0", "(P63 - 1024)..P63", "(-5)..5", "[1]", "{}", "Box.new(1)", "|x| x", "print", "(1, [2])", "(1, (2, {}))",
                  "Fiber.new(|| 1)", "[].push", "\"s\".iter()"]
            r.shuffle(ks)
            body = ["probe(%s);" % k for k in ks]
        elif kind == "index":
            idx = r.sample(N, 12) + ["2", "-3", "3", "-4"]
            body = ["var cs = [\"abc\", \"aé🙂z\", [1, 2, 3], (1, 2, 3), \"\", [], ()];",
                    "for i in [%s] { for c in cs { t(|| c[i]); } }" % ", ".join(idx),
                    "for i in [%s] { t(|| { var v = [1, 2, 3]; v[i] = 9; return v; }); }" % ", ".join(r.sample(N, 8) + ["-1", "2", "3"]),
                    "for i in [%s] { t(|| \"abcdef\".char_byte_index(i)); t(|| \"abcabc\".find(\"c\", i)); }" % ", ".join(r.sample(N, 8) + ["0", "5", "6"])]
        elif kind == "slice":
            bs = r.sample(N, 7) + ["0", "2", "-1"]
            body = ["var cs = [\"abcdef\", \"aé🙂z\", [1, 2, 3, 4], (1, 2, 3, 4)];",
                    "for a in [%s] { for b in [%s] { t(|| a..b); for c in cs { t(|| c[a..b]); } } }" % (", ".join(bs), ", ".join(r.sample(N, 5) + ["3", "-2"]))]
        elif kind == "ranges":
            body = ["for rg in [0..0, 0..3, 3..0, (-P63)..P63, P63..(-P63), (P63 - 2048)..P63, (1024 - P63)..(-P63), 0..P53, (-P53)..(P53 + 2), "
                    "(P63 - 1024)..(P63 - 1024), (-2)..2] {",
                    "  print(rg); var it = rg.iter(); print(it.next()); print(it.next()); var n = 0; for x in rg { n += 1; if n == 3 { print(x); break; } } print(n); probe(rg);",
                    "}",
                    "t(|| ((P63 - 2048)..P63).iter().collect().len()); t(|| ((1024 - P63)..(-P63)).iter().collect().len());",
                    "t(|| ((P63 - 2048)..P63).iter().map(|x| x + 1).filter(|x| x > 0).collect().len());",
                    "t(|| (0..5).iter().reduce(|a, b| a * P63 + b, 1));",
                    "for a in [%s] { t(|| a..1); t(|| 1..a); }" % ", ".join(r.sample(N, 10))]
        elif kind == "strconv":
            vals = ["0", "1", "9", "10", "65", "126", "127", "128", "129", "255", "256", "257", "55295", "55296", "57343", "57344", "65535", "65536",
                    "1114111", "1114112", "P31", "P32", "P53", "P63", "-1", "-128", "-P63", "0.5", "NAN", "INF", "NINF", "BIG"]
            body = ["for v in [%s] { t(|| String.from_ascii([v])); t(|| String.from_utf8([v])); t(|| String.from_code_points([v])); "
                    "t(|| String.from_code_points([65, v, 66]).len()); }" % ", ".join(vals),
                    "t(|| String.from_utf8([240, 159, 153, 130])); t(|| String.from_utf8([240, 159, 153])); t(|| String.from_utf8([195, 40])); "
                    "t(|| String.from_ascii([72, 105, 0, 127]).to_bytes());",
                    "for s in [\"1e400\", \"-1e400\", \"9223372036854775808\", \"-9223372036854775809\", \"18446744073709551616\", \"nan\", \"inf\", \"-0\", "
                    "\"0x10\", \"1e-400\", \"4.9e-324\", \"1.7976931348623157e308\", \"0.1\", \"\", \" 1\", \"1_0\"] { t(|| s.to_num()); }",
                    "t(|| rep(\"🙂é\", 40).count_chars()); t(|| rep(\"🙂é\", 40).len()); t(|| rep(\"ab\", 50).to_code_points().len()); "
                    "t(|| rep(\"a,\", 60).split(\",\").len()); t(|| rep(\"ab\", 64).replace(\"a\", rep(\"x\", 33)).len());",
                    "t(|| String.from(P63)); t(|| String.from(-P64)); t(|| String.from(BIG)); t(|| String.from(TINY)); t(|| \"${P53 + 2} ${-0} ${NAN} ${1 / 3}\");"]
        elif kind == "float_ops":
            xs = r.sample(N, 9)
            ys = r.sample(N, 7)
            body = ["for x in [%s] { for y in [%s] {" % (", ".join(xs), ", ".join(ys)),
                    "  print([x + y, x - y, x * y, x / y, x % y, -x, x < y, x <= y, x == y, x != y, x > y]);",
                    "} }",
                    "var acc = 1; for i in 0..1100 { acc = acc * 2; } print(acc); acc = 1; for i in 0..1100 { acc = acc / 2; } print(acc);",
                    "var c = P53; c += 1; print(c == P53); c -= P53; print(c); c *= BIG; c *= BIG; print(c); c /= 0; print(c); c %= 0; print(c);"]
        elif kind == "bit_ops":
            xs = r.sample(N, 10) + ["5", "-5"]
            cnt = ["0", "1", "31", "32", "33", "62", "63", "64", "65", "127", "128", "-1", "-63", "-64", "P31", "P53", "P63", "2.5", "NAN", "INF"]
            body = ["for x in [%s] { t(|| ~x); for y in [%s] { t(|| [x & y, x | y, x ^ y]); } }" % (", ".join(xs), ", ".join(r.sample(N, 6))),
                    "for x in [1, -1, 3, P31, P53, P63 - 1024, -P63, 0.5] { for n in [%s] { t(|| x << n); t(|| x >> n); } }" % ", ".join(cnt),
                    "var b = 1; b <<= 62; print(b); b <<= 1; print(b); b <<= 1; print(b); b >>= 70; print(b); b |= P63; print(b); b &= -1; print(b); b ^= P53; print(b);"]
        else:
            body = ["var s = \"x\"; for i in 0..17 { s = s + s; } print(s.len());",
                    "var v = []; for i in 0..3000 { v.push(i); } print(v.len()); var vv = []; for i in 0..400 { vv.push([i]); } print(vv.len());",
                    "var big = rep(\"0123456789\", 2000); print(big.len()); print(big.split(\"5\").len()); print(big.replace(\"0\", \"\").len());",
                    "var m = {}; for i in 0..600 { m.insert(i * P32, \"v${i}\"); } print(m.len()); print(m.get(599 * P32));"]
        return pre + body

    # --- identity of a dead object reused: an object is used in an operation that could remember its address, dropped,
    #     and a NEW object of the same kind and size is used in the same operation; repeated in a loop of function calls so
    #     that a collect-at-every-allocation build frees the first and hands its block to the second (no quarantine!)
    REUSE_PRELUDE = [
        "class Countdown { #[constructor] fn new(self, items, stop) { self.items = items; self.pos = 0; self.stop = stop; } "
        "fn iter(self) { return self; } fn next(self) { if self.pos == self.items.len() { return self.stop; } self.pos = self.pos + 1; "
        "return self.items[self.pos - 1]; } }",
        "var keepers = [];",
    ]

    def reuse(self):
        r = self.rng
        kinds = ["stopiter", "stopiter_keep", "stopiter_methods", "stopiter", "error", "stopiter_methods", "error_uncaught", "iter",
                 "stopiter", "bound", "closure", "range", "fiber", "mapkey", "mixed", "stopiter"]
        self.reuse_i = getattr(self, "reuse_i", -1) + 1
        kind = kinds[self.reuse_i % len(kinds)]
        rounds = r.randint(3, 5)
        n1, n2 = r.randint(1, 4), r.randint(2, 5)
        pre = list(self.REUSE_PRELUDE)
        if kind.startswith("stopiter"):
            keep = "keepers.push(d);" if kind == "stopiter_keep" else ""
            meth = " fn tag(self) { return \"done\"; } fn other(self) { return 1; }" if kind == "stopiter_methods" else ""
            pmeth = " fn tag(self) { return \"fruit\"; } fn other(self) { return 2; }" if kind == "stopiter_methods" and r.random() < 0.5 else ""
            # first pass: 1-2 function-local subclasses of StopIter (optionally a plain sibling declared before / after)
            first = ["fn first_pass(k) {"]
            if r.random() < 0.3:
                first += ["  class Before {}"]
            first += ["  #[constructor(new), derive(StopIter)]", "  class Done {%s}" % meth]
            two = r.random() < 0.4
            if two:
                first += ["  #[constructor(new), derive(Done)]", "  class Done2 {}"]
            if r.random() < 0.3:
                first += ["  class After {}"]
            first += ["  var d = Done.new(); %s" % keep,
                      "  var count = 0; for v in Countdown.new([%s], d) { count = count + 1; }" % ", ".join(str(i) for i in range(n1))]
            if two:
                first += ["  for v in Countdown.new([k], Done2.new()) { count = count + 10; }"]
            first += ["  return count;", "}"]
            # second pass: 2-4 plain function-local classes, loops over instances of each of them
            names = ["Apple", "Pear", "Plum", "Fig"][:r.randint(2, 4)]
            second = ["fn second_pass(k) {"]
            for nm in names:
                second += ["  #[constructor(new)]", "  class %s {%s}" % (nm, pmeth)]
            second += ["  var count = 0;"]
            order = list(names)
            r.shuffle(order)
            for nm in order:
                second += ["  for v in [%s] { count = count + 1; }" % ", ".join(["%s.new()" % nm] * n2)]
            second += ["  for v in Countdown.new([%s, k], StopIter.new()) { count = count + 1; }" % ", ".join("%s.new()" % nm for nm in names),
                       "  return count;", "}"]
            body = first + second + [
                "for k in 0..%d { print(\"first pass: ${first_pass(k)}\"); print(\"second pass: ${second_pass(k)}\"); }" % rounds,
                "print(keepers.len());"]
        elif kind in ("error", "error_uncaught"):
            body = ["fn raise_local(k) {", "  #[derive(Error)]", "  class LocalErr { #[constructor] fn new(self, c) { self.context = c; } }",
                    "  try { throw LocalErr.new(\"ctx${k}\"); } catch e { return \"${e.context} ${type(e) == LocalErr} ${type(e) == Error}\"; }", "}",
                    "fn raise_other(k) {", "  #[derive(Error)]", "  class OtherErr { #[constructor] fn new(self, c) { self.context = c; } }", "  #[constructor(new)]", "  class Plain { fn tag(self) { return \"plain\"; } }",
                    "  var out = [];",
                    "  try { throw OtherErr.new([k]); } catch e { out.push(e.context); out.push(type(e) == OtherErr); }",
                    "  try { throw Plain.new(); } catch e { out.push(e.tag()); out.push(type(e) == Plain); }",
                    "  try { [][k]; } catch e { out.push(e.context); out.push(type(e) == IndexError); }",
                    "  return out;", "}",
                    "for k in 0..%d { print(raise_local(k)); print(raise_other(k)); }" % rounds]
            if kind == "error_uncaught":
                body += ["fn last() { #[derive(ValueError)] class Mine { #[constructor] fn new(self, c) { self.context = c; } } throw Mine.new(\"uncaught mine\"); }", "last();"]
        elif kind == "iter":
            body = ["fn local_iter(k) {", "  #[derive(Iter)]",
                    "  class Up { #[constructor] fn new(self, n) { self.i = 0; self.n = n; } fn iter(self) { return self; } "
                    "fn next(self) { if self.i == self.n { return StopIter.new(); } self.i += 1; return self.i * k; } }",
                    "  return Up.new(%d).map(|x| x + 1).filter(|x| x %% 2 == 0).collect();" % (n2 + 2), "}",
                    "fn plain_iter(k) {", "  class Down { #[constructor] fn new(self, n) { self.n = n; } fn iter(self) { return self; } "
                    "fn next(self) { if self.n == 0 { return StopIter.new(); } self.n -= 1; return [self.n, k]; } }",
                    "  var out = []; for v in Down.new(%d) { out.push(v); } return out;" % n2, "}",
                    "for k in 0..%d { print(local_iter(k)); print(plain_iter(k)); print((0..k).iter().map(|x| [x]).collect()); }" % rounds]
        elif kind == "bound":
            body = ["fn bound_a(k) { #[constructor(new)] class A { fn get(self) { return [\"a\", k]; } } var m = A.new().get; return m(); }",
                    "fn bound_b(k) { #[constructor(new)] class B { fn get(self) { return (\"b\", k); } fn get2(self) { return 2; } } "
                    "var o = B.new(); var m = o.get; var m2 = o.get2; var p = [k].push; p(m2()); return [m(), [k].len()]; }",
                    "for k in 0..%d { print(bound_a(k)); print(bound_b(k)); print(bound_a(k + 10)); }" % rounds]
        elif kind == "closure":
            body = ["fn mk_a(k) { var x = [k]; var f = || x; var g = |y| [x, y]; return [f(), g(1)]; }",
                    "fn mk_b(k) { var x = (k, k); var f = || x; var h = |y, z| (x, y, z); return [f(), h(2, 3)]; }",
                    "for k in 0..%d { print(mk_a(k)); print(mk_b(k)); var c = mk_a; print(c(k + 100)[0]); }" % rounds]
        elif kind == "range":
            body = ["fn over(lo, hi) { var t = 0; var r = lo..hi; for i in r { t += i; } for i in lo..hi { t += 1; } return [t, r]; }",
                    "for k in 0..%d { print(over(k, k + %d)); print(over(k + 1, k)); print(over(-k, %d)); print(\"abcdefgh\"[k..(k + 3)]); }" % (rounds, n2, n2)]
        elif kind == "fiber":
            body = ["fn spin(k) { var f = Fiber.new(|x| { var y = Fiber.yield([x]); return (x, y); }); var a = f.call(k); var b = f.call(k + 1); "
                    "return [a, b, f.has_finished()]; }",
                    "fn spin2(k) { var g = Fiber.new(|| { Fiber.yield(k); Fiber.yield(k + 1); }); var out = [g.call(), g.has_finished(), g.call(), g.call(), g.has_finished()]; "
                    "try { g.call(); } catch e { out.push(e.context); } return out; }",
                    "for k in 0..%d { print(spin(k)); print(spin2(k)); }" % rounds]
        elif kind == "mapkey":
            body = ["var reg = {};",
                    "fn register(k) { #[constructor(new)] class Local { fn id(self) { return k; } } reg.insert(Local, k); return [reg.has_key(Local), reg.len(), Local.new().id()]; }",
                    "fn lookup(k) { #[constructor(new)] class Local { fn id(self) { return -k; } } class Other {} return [reg.has_key(Local), reg.has_key(Other), reg.len(), Local.new().id()]; }",
                    "for k in 0..%d { print(register(k)); print(lookup(k)); }" % rounds, "print(reg.len());"]
        else:
            body = ["fn a(k) { #[constructor(new), derive(StopIter)] class S {} #[derive(Error)] class E { #[constructor] fn new(self, c) { self.context = c; } } var n = 0; "
                    "for v in Countdown.new([k, k], S.new()) { n += 1; } try { throw E.new(k); } catch e { n += 100; print(e.context); } return n; }",
                    "fn b(k) { #[constructor(new)] class P {} #[constructor(new)] class Q { fn m(self) { return k; } } var n = 0; var qm = Q.new().m; "
                    "for v in [P.new(), Q.new(), P.new()] { n += 1; } try { throw P.new(); } catch e { n += 10; } var f = Fiber.new(|| qm()); return [n, f.call()]; }",
                    "for k in 0..%d { print(a(k)); print(b(k)); }" % rounds]
        return pre + body

    FAMILIES = [("ret_finally", 16), ("bound_receiver", 7), ("native_args", 12), ("class_building", 4), ("iterating", 7),
                ("fiber_held", 10), ("misc", 8), ("module", 3),
                ("loop_try_exit", 12), ("arith", 26), ("reuse", 16)]

    def programs(self):
        """about 65 programs: [{name, line, src, snippets, kinds}]"""
        out = []
        for fam, count in self.FAMILIES:
            for i in range(count):
                if fam == "module":
                    main, mod = self.module()
                    src = "\n".join(main) + "\n"
                    line = "mods stats=1 %s %s=%s" % (hx(src), hx("gcmod"), hx(mod))
                    out.append({"name": "dir:%s:%d" % (fam, i), "line": line, "src": src + "// module gcmod:\n" + mod, "kinds": [fam]})
                    continue
                body = getattr(self, fam)()
                wrap = self.rng.random()
                if wrap < 0.35 and fam not in ("class_building", "arith", "loop_try_exit", "reuse") and not any(l.startswith(("fn ", "class ", "#[")) for l in body):
                    body = ["fn scoped() {"] + ["  " + l for l in body] + ["}", "scoped();"]
                src = "\n".join(self.PRELUDE + body) + "\n"
                # the reuse family runs through `c10reuse` (ext_c10.rs): the records of `run` plus the count of managed
                # allocations placed at an address an earlier allocation of the run had (evidence, not compared)
                cmd = "c10reuse " if fam == "reuse" else "run stats=1 "
                out.append({"name": "dir:%s:%d" % (fam, i), "line": cmd + hx(src), "src": src, "kinds": [fam]})
        return out


def join(snippets):
    return "\n".join("\n".join(s) for s in snippets) + "\n"


def repo_programs():
    """every script of the repository's suite: (name, request line, source)"""
    progs = []
    mods = {}
    mdir = os.path.join(SCRIPTS, "modules")
    for root, _, files in os.walk(mdir):
        for f in sorted(files):
            if f.endswith(".yl"):
                p = os.path.join(root, f)
                with open(p, encoding="utf-8") as fh:
                    mods[os.path.relpath(p, SCRIPTS)[:-3]] = fh.read()
    skipped = []
    for root, dirs, files in sorted(os.walk(SCRIPTS)):
        dirs.sort()
        for f in sorted(files):
            if not f.endswith(".yl"):
                continue
            p = os.path.join(root, f)
            rel = os.path.relpath(p, SCRIPTS)
            try:
                with open(p, encoding="utf-8") as fh:
                    src = fh.read()
            except UnicodeDecodeError:
                skipped.append(rel)
                continue
            if "\n" in hx(src) or " " in hx(src):
                skipped.append(rel)
                continue
            if "import" in src:
                # host loader of the harness: every module of the suite is offered under its import path
                line = "mods stats=1 %s %s" % (hx(src), " ".join("%s=%s" % (hx(k), hx(v)) for k, v in sorted(mods.items())))
            else:
                line = "run stats=1 %s" % hx(src)
            progs.append({"name": "repo:" + rel, "line": line, "src": src})
    return progs, skipped


def canon(rec):
    """what must be identical in every build: printed lines, outcome, messages; addresses masked"""
    k, v = rec.result
    mask = lambda s: ADDR.sub("0xADDR", s)
    if k == "panic":
        # every build panics (compared by kind and text): the numbers of a Rust panic message that stem from stale state
        # (`index out of bounds: the len is 197 but the index is 32767` vs `... 18446744073709518063`) are not compared
        v = re.sub(r"\d+", "N", v)
    return ([mask(l) for l in rec.output], k, mask(v), [mask(m) for m in rec.messages])


def fail_alike(sigs):
    """EVERY build ends the program with a Rust panic (or dies on a signal) after printing the same lines: all builds fail,
    which is C02's / C08's business, not a disagreement - the TEXT of such a panic may stem from stale memory and differ
    from run to run within one build (round 9, `break` inside a finally entered by an exception, at top level: dev says
    `index out of bounds: the len is 197 but the index is 32767` in 16 of 24 runs and `attempt to subtract with overflow`
    in 8; release always the former with another number).  A timeout is not an abnormal end in this sense."""
    return (all(s[1] in ("panic", "crash") and not (s[1] == "crash" and "timeout" in s[2]) for s in sigs)
            and all(s[0] == sigs[0][0] for s in sigs[1:]))


def collections(rec):
    s = rec.tagged("S")
    try:
        return int(s[-1][3])
    except Exception:
        return -1


def uses_fibers_or_exceptions(src):
    return src.count("Fiber.new") >= 2 or ("try" in src and ("throw" in src or "catch" in src))


BOUND_CYCLE = re.compile(r"(\w+)\.\w+\s*=\s*\1\.\w+\s*;")
TUPLE_KEY = re.compile(r"insert\(\s*\(|\{\s*\(|,\s*\([^)]*\)\s*:")


def known_class_of(src, cfgs, sigs):
    """narrow, syntactic: the two open defects of C01 that make the gc fork observable"""
    always = [i for i, (p, f) in enumerate(cfgs) if p == "debug" or "debug_stress_gc" in f]
    paced = [i for i in range(len(cfgs)) if i not in always]
    split_along_gc = (len({repr(sigs[i]) for i in always}) <= 1 and len({repr(sigs[i]) for i in paced}) <= 1)
    if not split_along_gc:
        return None
    if BOUND_CYCLE.search(src) and any(sigs[i][1] == "crash" for i in always + paced):
        return "gc_bound_method_regrey"
    if TUPLE_KEY.search(src):
        return "map_key_untraced"
    return None


def run_everywhere(bins, lines):
    """list over binaries of list of Records"""
    res = [None] * len(bins)
    # two binaries at a time: each run is itself sharded over all cores
    with ThreadPoolExecutor(max_workers=2) as ex:
        futs = {i: ex.submit(yvlib.run_harness, b, lines, False, TIMEOUT_MS) for i, b in enumerate(bins)}
        for i, f in futs.items():
            res[i] = f.result()
    return res


def shrink_snippets(snippets, still_fails, budget=30):
    cur = list(snippets)
    runs = 0
    changed = True
    while changed and runs < budget and len(cur) > 1:
        changed = False
        for i in range(len(cur)):
            cand = cur[:i] + cur[i + 1:]
            runs += 1
            if still_fails(join(cand)):
                cur = cand
                changed = True
                break
            if runs >= budget:
                break
    return cur


def check_config_model(ctx, cfgs, bins):
    """impl == M for ConfigModel.config_of_build: the binary's own report of (debug_assertions, features) is what was
    asked for; the model's fork vector for it; the measured collection count of a probe must match gc_always."""
    probe = "var v = []; for i in 0..50 { v.push([i]); } print(v.len());"
    terms = []
    for p, f in cfgs:
        terms.append("YV.ConfigModel.show_config (YV.ConfigModel.config_of_build %s [%s])" % (
            "true" if p == "debug" else "false", "; ".join('"%s"%%string' % x for x in f)))
    model = yvlib.coq_eval(["YV:ConfigModel"], terms, tag="c10cfg")
    rows = []
    for (p, f), b, m in zip(cfgs, bins, model):
        recs = yvlib.run_harness(b, ["config", "run stats=1 " + hx(probe)], case_timeout_ms=TIMEOUT_MS, shards=1)
        cfgline = " ".join(" ".join(x) for x in recs[0].tagged("CFG"))
        want = "debug_assertions=%s " % ("true" if p == "debug" else "false") + " ".join(
            "%s=%s" % (x, "true" if x in f else "false") for x in FEATURES)
        if cfgline != want:
            ctx.corr_broken.append("binary %s reports configuration `%s`, expected `%s`" % (cfg_name(p, f), cfgline, want))
        if m is None:
            ctx.broken.append("ConfigModel.config_of_build could not be evaluated for %s" % cfg_name(p, f))
            continue
        vec = dict(kv.split("=") for kv in m.split(" "))
        ncoll = collections(recs[1])
        if recs[1].result[0] != "ok" or recs[1].output != ["50"]:
            ctx.corr_broken.append("the probe program does not run in build %s: %s %s" % (cfg_name(p, f), recs[1].result, recs[1].output[:3]))
            continue
        rows.append({"build": cfg_name(p, f), "model": m, "probe_collections": ncoll})
        if (vec.get("gc_always") == "T") != (ncoll > 0):
            ctx.corr_broken.append("gc fork of %s: model says gc_always=%s, the probe program saw %d collections" % (
                cfg_name(p, f), vec.get("gc_always"), ncoll))
    ctx.cov["config_model_rows"] = rows if len(rows) <= 4 else rows[:2] + rows[-2:]
    ctx.cov["config_model_checked"] = len(rows)


def round9_programs(ctx, aim):
    """round 9 families (compared between builds only): unwind_switch / unwind_random / readmitted / churn; `aim` (from a
    broken debug-only-site table) multiplies the aimed families and repeats the aimed older directed families"""
    quick = ctx.quick()
    progs = C10_r9.UnwindSwitch(ctx.rng).programs(30 if quick else 120, half=quick) + C10_r9.readmitted(ctx.rng) + C10_r9.churn_programs(ctx.rng, quick)
    if aim:
        if "unwind_switch" in aim or "unwind_random" in aim:
            for rnd in range(2):
                extra = C10_r9.UnwindSwitch(ctx.rng).programs(60)
                for p in extra:
                    p["name"] += ":aimed%d" % rnd
                progs += extra
        if "churn" in aim:
            extra = C10_r9.churn_programs(ctx.rng, False)
            for p in extra:
                p["name"] += ":aimed"
            progs += extra
        older = [p for p in Directed(ctx.rng).programs() if p["kinds"][0] in aim]
        for p in older:
            p["name"] += ":aimed"
        progs += older
    return progs


def accounting_probe(ctx, cfgs, bins):
    """size-independent oracle for the allocation accounting (see C10_r9.accounting_lines): after the final full
    collection bytes_allocated and the object count must not depend on the amount of garbage the run produced, and must be
    the same in every build.  A drift is a broken correspondence (the pacing model `gc_schedule` assumes the accounting
    returns to the live size); the search then finds the program on which the builds split (churn family)."""
    lines, meta = C10_r9.accounting_lines()
    rows = {}
    for (p, f), b in zip(cfgs, bins):
        if (p, f) not in (("debug", ()), ("release", ())):
            continue
        recs = yvlib.run_harness(b, lines, False, 2 * TIMEOUT_MS)
        for (kind, n), r in zip(meta, recs):
            s = r.tagged("S")
            if r.result[0] != "ok" or not s or r.output[-1:] != ["true"]:
                rows.setdefault(kind, {})[(cfg_name(p, f), n)] = None
                continue
            rows.setdefault(kind, {})[(cfg_name(p, f), n)] = (int(s[-1][0]), int(s[-1][2]))
    drift = []
    for kind, d in rows.items():
        vals = {v for v in d.values() if v is not None}
        if len(vals) > 1:
            drift.append("%s: %s" % (kind, sorted((k[0], k[1], v) for k, v in d.items())))
    ctx.cov["accounting_probe"] = {"kinds": len(rows), "measurements": sum(len(d) for d in rows.values()),
                                   "unmeasured": sum(1 for d in rows.values() for v in d.values() if v is None),
                                   "drifting": len(drift)}
    if drift:
        ctx.corr_broken.append("allocation accounting drifts: (bytes_allocated, objects) after the final full collection depends on the "
                               "amount of garbage produced or on the build (Heap::allocate_raw / sweep / collect): " + "; ".join(drift[:3]))
    return drift


def differential(ctx, cfgs, n_generated, label, aim=None):
    bins = build_all(ctx, cfgs)
    check_config_model(ctx, cfgs, bins)
    repo, skipped = repo_programs()
    gen = Gen(ctx.rng)
    progs = list(repo)
    kind_hist = {}
    for i in range(n_generated):
        snippets, kinds = gen.program()
        src = join(snippets)
        for k in kinds:
            kind_hist[k] = kind_hist.get(k, 0) + 1
        progs.append({"name": "gen:%d" % i, "line": "run stats=1 " + hx(src), "src": src, "snippets": snippets, "kinds": kinds})
    directed = Directed(ctx.rng).programs()
    directed += round9_programs(ctx, aim)
    progs += directed
    for p in directed:
        kind_hist["dir:" + p["kinds"][0]] = kind_hist.get("dir:" + p["kinds"][0], 0) + 1
    lines = [p["line"] for p in progs]
    t0 = time.time()
    results = run_everywhere(bins, lines)
    run_s = time.time() - t0
    paced_ix = next((i for i, c in enumerate(cfgs) if c == ("release", ())), None)
    agree = disagree = all_fail = compile_err = confirmations = unconfirmed = 0
    nontrivial = set()
    collected_progs = 0
    outcomes = {}
    reported = 0
    samples = []
    for j, pr in enumerate(progs):
        sigs = [canon(results[i][j]) for i in range(len(cfgs))]
        first = sigs[0]
        same = all(s == first for s in sigs[1:]) or fail_alike(sigs)
        if same:
            agree += 1
            kind = first[1]
            outcomes[kind if kind != "err" else "err:" + first[2]] = outcomes.get(kind if kind != "err" else "err:" + first[2], 0) + 1
            if kind in ("panic", "crash", "none"):
                all_fail += 1      # every build fails the same way: C02's business, not reported here
                continue
            if kind == "err" and first[2] == "CompileError":
                compile_err += 1
            ncoll = collections(results[paced_ix][j]) if paced_ix is not None else -1
            if ncoll >= 1:
                collected_progs += 1
                if uses_fibers_or_exceptions(pr["src"]):
                    nontrivial.add(hashlib.sha256(pr["src"].encode()).hexdigest())
            if len(samples) < 3 and pr["name"].startswith("gen:") and ncoll >= 1:
                samples.append({"program": pr["src"][:1500], "kinds": pr.get("kinds"), "lines_printed": len(first[0]),
                                "outcome": first[1] + (":" + first[2] if first[1] == "err" else ""),
                                "collections_in_paced_build": ncoll,
                                "collections_in_dev_build": collections(results[0][j])})
            continue
        # confirmation: the machine may be overloaded (a slow dev build hitting the case timeout is not a finding) -
        # the program is run again in every binary, one process each, with a six times longer timeout
        if confirmations < 12:
            confirmations += 1
            again = [yvlib.run_harness(b, [pr["line"]], case_timeout_ms=6 * TIMEOUT_MS, shards=1)[0] for b in bins]
            sigs = [canon(r) for r in again]
            first = sigs[0]
            if all(s == first for s in sigs[1:]) or fail_alike(sigs):
                unconfirmed += 1
                agree += 1
                ctx.cov.setdefault("disagreements_not_confirmed_names", []).append(pr["name"])
                continue
        disagree += 1
        if reported >= 5:
            continue
        # which two configurations differ
        other = next(i for i in range(1, len(cfgs)) if sigs[i] != first)
        src = pr["src"]
        kc = known_class_of(src, cfgs, sigs)
        if reported == 0 and "snippets" in pr and kc is None:
            pair = [bins[0], bins[other]]

            def still(s):
                rr = [yvlib.run_harness(b, ["run stats=1 " + hx(s)], case_timeout_ms=TIMEOUT_MS, shards=1)[0] for b in pair]
                return canon(rr[0]) != canon(rr[1])
            small = shrink_snippets(pr["snippets"], still)
            src = join(small)
        groups = {}
        for i, s in enumerate(sigs):
            groups.setdefault(repr(s), []).append(cfg_name(*cfgs[i]))
        ctx.violation("builds disagree on a program (%s)" % pr["name"],
                      input={"program": src, "request": pr["line"] if src == pr["src"] else "run stats=1 " + hx(src),
                             "configurations": [cfg_name(*cfgs[0]), cfg_name(*cfgs[other])]},
                      expected={"build": cfg_name(*cfgs[0]), "out": first[0][-20:], "res": first[1], "detail": first[2], "msgs": first[3]},
                      actual={"build": cfg_name(*cfgs[other]), "out": sigs[other][0][-20:], "res": sigs[other][1],
                              "detail": sigs[other][2], "msgs": sigs[other][3]},
                      known_class=kc, groups={k[:200]: v for k, v in groups.items()} if len(groups) <= 4 else len(groups))
        reported += 1
    # evidence for the "identity of a dead object reused" family: did the builds really meet address reuse?
    ru = {}
    for i, cf in enumerate(cfgs):
        met = cls = 0
        for j, pr in enumerate(progs):
            if pr["line"].startswith("c10reuse "):
                t = results[i][j].tagged("RU")
                if t and int(t[-1][1]) > 0:
                    met += 1
                if t and int(t[-1][2]) > 0:
                    cls += 1
        ru[cfg_name(*cf)] = {"programs_with_address_reuse": met, "programs_with_class_address_reuse": cls}
    c = ctx.cov
    c["reuse_family_address_reuse"] = ru if len(ru) <= 4 else dict(list(ru.items())[:3])
    c["configurations"] = [cfg_name(*x) for x in cfgs]
    c["programs"] = c.get("programs", 0) + len(progs)
    c["programs_repo"] = len(repo)
    c["programs_generated"] = c.get("programs_generated", 0) + n_generated
    c["programs_directed"] = c.get("programs_directed", 0) + len(directed)
    c["repo_scripts_skipped"] = skipped
    c["evaluations"] = c.get("evaluations", 0) + len(progs) * len(cfgs)
    c["programs_all_builds_agree"] = c.get("programs_all_builds_agree", 0) + agree
    c["disagreements_checked"] = c.get("disagreements_checked", 0) + disagree
    c["programs_all_builds_fail_alike_not_reported"] = c.get("programs_all_builds_fail_alike_not_reported", 0) + all_fail
    c["programs_compile_error_everywhere"] = compile_err
    c["disagreements_not_confirmed_on_rerun"] = c.get("disagreements_not_confirmed_on_rerun", 0) + unconfirmed
    c["programs_paced_build_collected"] = c.get("programs_paced_build_collected", 0) + collected_progs
    c["distinct_nontrivial"] = c.get("distinct_nontrivial", 0) + len(nontrivial)
    c["outcome_histogram"] = outcomes
    c["generated_snippet_kinds"] = kind_hist
    c["run_s_" + label] = round(run_s, 1)
    c.setdefault("samples", []).extend(samples)
    if label != "search" or (aim and "churn" in aim):
        try:
            accounting_probe(ctx, cfgs, bins)
        except Exception as e:      # evidence only: never let the probe take the check down
            ctx.notes.append("accounting probe skipped: %s" % e)
    stream_differential(ctx, cfgs, bins)
    c["rule"] = ("programs = every script under yarel/tests/scripts (those with `import` through the harness' module "
                 "loader with all suite modules offered) + generated programs (2-8 independent snippets drawn from "
                 "closures/classes/fibers/exceptions/recursion(64-frame limit)/wide frames/strings/maps/iterators/heavy "
                 "allocation/class lookup of every value kind, half of them wrapped in a function or fiber); each runs in every listed configuration; "
                 "evaluations = programs x configurations; a program is non-trivial when the plain release binary "
                 "(paced GC) reports >= 1 collection in its S record for it (so the collection schedules of paced and "
                 "collect-always builds really differ) AND its source creates >= 2 fibers or uses try with throw/catch; "
                 "counted over distinct sources (sha256) on which all builds agree and none panics; in addition multi-snippet "
                 "streams on ONE interpreter (C02's generator: a failing snippet, garbage pressure, 3-6 snippets using the "
                 "survivors), each compared snippet by snippet across the configurations (counted in evaluations, not in "
                 "distinct_nontrivial)")


def split_snips(rec):
    """records of a multi-snippet request (`repl` / `c02repl`): one yvlib.Record per `SNIP <i>` section"""
    parts = []
    cur = None
    for l in rec.lines:
        if l.startswith("SNIP "):
            cur = []
            parts.append(cur)
        elif cur is not None:
            cur.append(l)
    return [yvlib.Record(p) for p in parts]


def canon_stream(rec):
    if rec.crashed:
        return ("crash", rec.crashed, [canon(x) for x in split_snips(rec)])
    return ("done", "", [canon(x) for x in split_snips(rec)])


def stream_differential(ctx, cfgs, bins):
    """Several runs on ONE interpreter: a failing snippet (uncaught error at top level / in nested calls / in a fiber /
    in a fiber called by a fiber / in iterator callbacks / constructor / import / class declaration, with closures over
    locals of every level stored in globals before the failure) followed by snippets that allocate and then use whatever
    survived.  Generator: C02's `gen_repl_cases` (REPL_SETUPS x REPL_FAIL x REPL_TOUCH), reused; oracle here: every
    configuration answers every snippet with the same lines, outcome and messages."""
    try:
        from props import C02
        cases = C02.gen_repl_cases(ctx, ctx.quick())
        mods = ",".join("%s=%s" % (hx(k), hx(v)) for k, v in C02.REPL_MODS.items())
    except Exception as e:      # another owner's file: degrade, say so
        ctx.notes.append("multi-snippet streams skipped: C02's generator is unavailable (%s)" % e)
        return
    # own additions: the failing snippet is followed by garbage pressure BEFORE the survivors are used
    pressure = "var gp = []; var gq = 0; while gq < 40 { gp.push([gq, (gq, \"p${gq}\")]); gq = gq + 1; } print(gp.len());"
    lines = []
    for name, snips in cases:
        snips = list(snips)
        snips.insert(2, pressure)
        lines.append("c02repl %s %s" % (mods, " ".join(hx(sn) for sn in snips)))
    t0 = time.time()
    results = run_everywhere(bins, lines)
    if not any(l.startswith("SNIP ") for l in results[0][0].lines):
        ctx.notes.append("multi-snippet streams skipped: harness command c02repl unavailable")
        return
    agree = disagree = all_fail = nsnip = reported = 0
    for j, (name, snips) in enumerate(cases):
        sigs = [canon_stream(results[i][j]) for i in range(len(cfgs))]
        if any(s != sigs[0] for s in sigs[1:]):
            again = [yvlib.run_harness(b, [lines[j]], case_timeout_ms=6 * TIMEOUT_MS, shards=1)[0] for b in bins]
            sigs = [canon_stream(r) for r in again]
        first = sigs[0]
        nsnip += len(first[2])
        if all(s == first for s in sigs[1:]):
            agree += 1
            if first[0] == "crash" or any(x[1] in ("panic", "crash", "none") for x in first[2]):
                all_fail += 1
            continue
        disagree += 1
        if reported >= 3:
            continue
        reported += 1
        other = next(i for i in range(1, len(cfgs)) if sigs[i] != first)
        # first snippet whose answer differs
        k = next((i for i, (a, b) in enumerate(zip(first[2], sigs[other][2])) if a != b), min(len(first[2]), len(sigs[other][2])))
        show = lambda sg: {"stream_end": sg[0] + (":" + sg[1] if sg[1] else ""), "snippet": k,
                           "answer": list(sg[2][k]) if k < len(sg[2]) else "no answer (the process died before)"}
        ctx.violation("builds disagree on a multi-snippet stream on one interpreter (%s)" % name,
                      input={"stream": [yvlib.unhx(x).decode() for x in lines[j].split(" ")[2:]],
                             "request": lines[j], "configurations": [cfg_name(*cfgs[0]), cfg_name(*cfgs[other])]},
                      expected=dict(show(first), build=cfg_name(*cfgs[0])), actual=dict(show(sigs[other]), build=cfg_name(*cfgs[other])),
                      known_class=None)
    c = ctx.cov
    c["streams"] = c.get("streams", 0) + len(cases)
    c["stream_snippets"] = c.get("stream_snippets", 0) + nsnip
    c["streams_all_builds_agree"] = c.get("streams_all_builds_agree", 0) + agree
    c["streams_all_builds_fail_alike_not_reported"] = c.get("streams_all_builds_fail_alike_not_reported", 0) + all_fail
    c["disagreements_checked"] = c.get("disagreements_checked", 0) + disagree
    c["evaluations"] = c.get("evaluations", 0) + len(cases) * len(cfgs)
    c["run_s_streams"] = round(c.get("run_s_streams", 0) + time.time() - t0, 1)
    if cases:
        c.setdefault("samples", []).append({"stream": cases[0][0], "snippets": [x[:300] for x in cases[0][1][:4]]})


def replay(ctx):
    rp = ctx.replay_only
    inp = rp.get("input", {})
    names = inp.get("configurations", [])
    cfgs = []
    for nm in names:
        parts = nm.split("+")
        cfgs.append((parts[0], tuple(parts[1:])))
    bins = build_all(ctx, cfgs)
    recs = [yvlib.run_harness(b, [inp["request"]], case_timeout_ms=TIMEOUT_MS, shards=1)[0] for b in bins]
    if "stream" in inp:
        ssig = [canon_stream(r) for r in recs]
        ctx.cov.update({"evaluations": len(bins), "distinct_nontrivial": 0, "rule": "replay of one multi-snippet stream in the two configurations",
                        "samples": [inp["stream"]]})
        if any(x != ssig[0] for x in ssig[1:]):
            ctx.violation("builds disagree on a multi-snippet stream on one interpreter (replay)", input=inp,
                          expected={"build": names[0], "answers": ssig[0]}, actual={"build": names[-1], "answers": ssig[-1]},
                          known_class=rp.get("known_class"))
        return
    sigs = [canon(r) for r in recs]
    ctx.cov.update({"evaluations": len(bins), "distinct_nontrivial": 0, "rule": "replay of one program in the two configurations",
                    "samples": [inp.get("program", "")[:500]]})
    if any(s != sigs[0] for s in sigs[1:]) and not fail_alike(sigs):
        ctx.violation("builds disagree on a program (replay)", input=inp,
                      expected={"build": names[0], "out": sigs[0][0][-20:], "res": sigs[0][1], "detail": sigs[0][2], "msgs": sigs[0][3]},
                      actual={"build": names[-1], "out": sigs[-1][0][-20:], "res": sigs[-1][1], "detail": sigs[-1][2], "msgs": sigs[-1][3]},
                      known_class=rp.get("known_class"))


def run(ctx):
    if ctx.replay_only:
        return replay(ctx)
    cfgs = configurations(ctx)
    differential(ctx, cfgs, 120 if ctx.quick() else 260, ctx.tier)
    man = {}
    try:
        import json
        with open(os.path.join(yvlib.COQ, "gen", "manifest.json")) as fh:
            man = json.load(fh)
    except Exception:
        pass
    ctx.cov["cfg_sites"] = man.get("cfg_sites")
    ctx.cov["fiber_sites"] = man.get("fiber_sites")
    ctx.cov["debug_sites"] = man.get("debug_sites")
    unknown = C10_r9.broken_debug_sites(yvlib.COQ)
    if unknown:
        ctx.cov["debug_sites_unknown"] = ["%s::%s  %s" % t for t in unknown]
        ctx.notes.append("debug-only constructs the model does not know (C10_debug_sites_known): " +
                         "; ".join("%s::%s `%s`" % t for t in unknown[:6]))


TRIPLE = re.compile(r'\("([^"]*)",\s*"([^"]*)",\s*"([^"]*)"')


def _triples(path, start, stop=None):
    with open(path) as fh:
        txt = yvlib.strip_coq_comments(fh.read())
    i = txt.find(start)
    if i < 0:
        return []
    j = txt.find(stop, i + len(start)) if stop else -1
    return TRIPLE.findall(txt[i:j if j > 0 else len(txt)])


def broken_fork_features():
    """features of the forks whose regenerated site tables differ from the reference tables of ConfigModel.v"""
    model = os.path.join(yvlib.COQ, "theories", "ConfigModel.v")
    feats = []
    try:
        ref = _triples(model, "Definition cfg_sites_ref", "Definition site_key")
        gen = _triples(os.path.join(yvlib.COQ, "gen", "CfgSites.v"), "Definition cfg_sites")
        rest = list(ref)
        diff = []
        for t in gen:
            if t in rest:
                rest.remove(t)
            else:
                diff.append(t)
        for _, _, cond in diff + rest:
            for f in FEATURES:
                if f in cond and f not in feats:
                    feats.append(f)
        fref = _triples(model, "Definition fiber_sites_ref", "Definition fiber_sites_match")
        fgen = _triples(os.path.join(yvlib.COQ, "gen", "FiberSites.v"), "Definition fiber_sites")
        if fref != fgen and "safe_active_fiber" not in feats:
            feats.insert(0, "safe_active_fiber")
    except Exception as e:      # the tables are only used to aim the search
        log("[C10] broken_fork_features: %s" % e)
    return feats


def search_configurations(feats):
    """quick set + at most 4 release mixes aimed at the broken forks: the switch alone (only this fork checked) and
    everything but the switch (only this fork raw)"""
    extra = []
    for f in feats:
        for m in ((f,), tuple(x for x in FEATURES if x != f)):
            if m not in extra:
                extra.append(m)
    for m in (("safe_active_fiber",), ("safe_stack",), ("debug_stress_gc",), ("safe_class_lookup", "safe_vm_opcodes")):
        if m not in extra:
            extra.append(m)
    base = [("debug", ()), ("release", ()), ("release", tuple(FEATURES))]
    return base + [("release", m) for m in extra[:4]]


def search(ctx):
    """an obligation broke (typically: a cfg site or a fiber site changed): bounded search (<= ~6 min): the quick
    configuration set plus 4 release mixes chosen from the broken site's fork, all repository scripts and a reduced set
    of generated programs (fresh ones: ctx.rng has advanced)"""
    if not ctx.quick():
        return     # run() has just compared dev + all 32 release mixes
    t0 = time.time()
    feats = broken_fork_features()
    cfgs = search_configurations(feats)
    ctx.notes.append("search: forks aimed at %s; configurations %s" % (feats or "(none identified)", [cfg_name(*c) for c in cfgs]))
    # a new / changed debug-only construct: aim the families at the function it sits in
    unknown = C10_r9.broken_debug_sites(yvlib.COQ)
    aim = C10_r9.aim_families(unknown)
    if any("accounting" in x for x in ctx.corr_broken):
        aim += [x for x in ("churn", "reuse", "ret_finally") if x not in aim]
    if aim:
        ctx.notes.append("search: aimed at %s -> families %s" % (
            "; ".join("%s::%s" % (a, b) for a, b, _ in unknown) or "the allocation accounting", aim))
    differential(ctx, cfgs, 60, "search", aim=aim or None)
    ctx.cov["search_s"] = round(time.time() - t0, 1)
