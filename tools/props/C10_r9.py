"""C10, round 9: generator families that are compared BETWEEN BUILDS ONLY (no single-build oracle), the churn (scale)
family, and the debug-only-site table that aims the search.

1. UnwindSwitch - the cross product  (how a `finally` block is entered) x (what happens inside it) x (context):
   entered normally / by an exception in flight (no catch; thrown in the try, in a callee frame, in a callee FIBER, a
   runtime error) / by an exception thrown from the catch block / by a pending return (from try, from catch) / by break
   or continue leaving the try in a loop;  inside: Fiber.yield, a call into another fiber and back, a new fiber that
   throws and catches, two yields, a fiber that is itself suspended in an unwinding finally, `return` / `throw` /
   `break` / `continue` lexically inside the finally, a nested try/catch, a nested try/finally, allocation + yield;
   context: outer catch in the same fiber / none (the exception leaves the fiber) / outer finally / through a function
   frame / at top level without a fiber.  The driver interleaves its own try/finally, catch and fiber calls between
   the resumptions (the VM-wide exception-in-flight state is shared), and a healthy tail runs afterwards.
   These shapes lie inside OPEN known classes of C08/C09 (finally_switch_shares_flag, abrupt_exit_from_finally,
   pending_return_survives_throw, ...): what ONE build prints may be wrong - that is their business.  C10's property is
   that the builds AGREE, whatever the single-build semantics, so nothing is excluded here.
2. Churn - scale family: every kind of heap object created and dropped n times in one run, n through a ladder; the
   printed result is a closed form of n (checked in the program itself: it prints `ok`), compared across builds.
3. accounting_probe - size-independent oracle for the allocation accounting: after the final full collection the
   heap's byte count must not depend on how much garbage the run produced (n = 40 vs n = 400): a drift of the
   freed-bytes figure shows at n = 40 already, in every build, long before bytes_allocated wraps / underflows.
4. debug-only sites: aim_families(broken sites) maps the function a new debug-only construct sits in to the families
   that exercise it."""
import re

from yvlib import hx

HELPERS = [
    "fn thrower(k) { if k == 0 { throw \"deep\"; } return thrower(k - 1); }",
    "var gen = Fiber.new(|| { var gi = 0; while true { gi += 1; Fiber.yield(\"gen ${gi}\"); } });",
    "fn catcher_fiber() { return Fiber.new(|| { try { throw \"inner\"; } catch ie { print(\"inner caught ${ie}\"); } return \"cf\"; }); }",
    "fn thrower_fiber() { return Fiber.new(|| { print(\"tf runs\"); throw \"from fiber\"; }); }",
    "fn unwinding_fiber() { return Fiber.new(|| { try { throw \"uw\"; } finally { print(\"uw fin\"); Fiber.yield(\"uw yielded\"); print(\"uw resumed\"); } return \"uw end\"; }); }",
    "fn quiet_fiber() { return Fiber.new(|| { try { print(\"q try\"); } finally { print(\"q fin\"); } return \"q end\"; }); }",
]

ENTRIES = ["normal", "throw", "throw_in_catch", "return_try", "return_catch", "break", "continue", "runtime", "callee",
           "callee_fiber", "caught_then_normal", "yield_then_throw"]
INSIDE = ["yield", "call_gen", "catcher_fiber", "return", "yield2", "unwinding_fiber", "throw", "break", "continue", "print",
          "nested_catch", "nested_finally", "alloc_yield", "quiet_fiber", "finish_other", "yield_in_loop"]
CONTEXTS = ["outer_catch", "none", "outer_finally", "frame", "frame_catch", "toplevel", "nested_fiber"]
INTERLEAVE = ["", "try { print(\"m try\"); } finally { print(\"m fin\"); }",
              "try { throw \"m\"; } catch me { print(\"m caught ${me}\"); }",
              "print(gen.call());",
              "try { try { throw \"m2\"; } finally { print(\"m fin2\"); } } catch me2 { print(\"m caught ${me2}\"); }",
              "print(quiet_fiber().call());",
              "var mj = []; for mi in 0..6 { mj.push([mi, (mi, \"g${mi}\")]); } print(mj.len());"]


class UnwindSwitch:
    def __init__(self, rng):
        self.rng = rng
        self.n = 0

    def inside(self, kind):
        r = self.rng
        self.n += 1
        u = self.n
        fresh = r.choice(["\"y%d\"" % u, "[%d, [%d]]" % (u, u + 1), "(%d, \"t\")" % u, "\"s\" + \"${%d}\"" % u])
        return {
            "yield": ["print(\"fin a\");", "var back%d = Fiber.yield(%s);" % (u, fresh), "print(\"fin b ${back%d}\");" % u],
            "call_gen": ["print(gen.call());", "print(\"fin b\");"],
            "catcher_fiber": ["print(catcher_fiber().call());", "print(\"fin b\");"],
            "return": ["print(\"fin a\");", "return \"ret-in-finally\";"],
            "yield2": ["Fiber.yield(%s);" % fresh, "print(\"mid\");", "Fiber.yield(\"second\");", "print(\"fin b\");"],
            "unwinding_fiber": ["var uw%d = unwinding_fiber();" % u, "print(uw%d.call());" % u, "print(\"fin mid\");",
                                "try { print(uw%d.call()); } catch ue { print(\"uw rethrown ${ue}\"); }" % u, "print(\"fin b\");"],
            "throw": ["print(\"fin a\");", "throw \"from finally\";"],
            "break": ["print(\"fin a\");", "break;"],
            "continue": ["print(\"fin a\");", "continue;"],
            "print": ["print(\"fin only\");"],
            "nested_catch": ["try { throw \"nested\"; } catch ne { print(\"nested caught ${ne}\"); }", "Fiber.yield(\"after nested\");",
                             "print(\"fin b\");"],
            "nested_finally": ["try { print(\"n try\"); } finally { print(\"n fin\"); Fiber.yield(\"nested fin yield\"); print(\"n fin b\"); }",
                               "print(\"fin b\");"],
            "alloc_yield": ["var junk%d = []; for ji in 0..5 { junk%d.push([ji, (ji, \"j${ji}\")]); }" % (u, u),
                            "Fiber.yield([junk%d.len(), %s]);" % (u, fresh), "print(junk%d);" % u],
            "quiet_fiber": ["print(quiet_fiber().call());", "print(\"fin b\");"],
            "finish_other": ["var fo%d = Fiber.new(|| { try { throw \"fo\"; } finally { print(\"fo fin\"); } });" % u,
                             "try { fo%d.call(); } catch fe { print(\"fo caught ${fe}\"); }" % u, "Fiber.yield(\"after fo\");", "print(\"fin b\");"],
            "yield_in_loop": ["for fi in 0..3 { Fiber.yield(\"loop yield ${fi}\"); }", "print(\"fin b\");"],
        }[kind]

    def core(self, entry, inside):
        """the try statement (list of lines); wrapped in a loop when break/continue are involved"""
        fin = " ".join(self.inside(inside))
        loop = entry in ("break", "continue") or inside in ("break", "continue")
        catch = None
        tr = {
            "normal": "print(\"t\");",
            "throw": "print(\"t\"); throw \"boom\";",
            "throw_in_catch": "throw \"first\";",
            "return_try": "return [\"ret-try\", 1];",
            "return_catch": "throw \"x\";",
            "break": "if i == 1 { break; } print(\"t ${i}\");",
            "continue": "if i == 1 { continue; } print(\"t ${i}\");",
            "runtime": "var z = [][3];",
            "callee": "thrower(%d);" % self.rng.randint(0, 4),
            "callee_fiber": "thrower_fiber().call();",
            "caught_then_normal": "throw \"handled\";",
            "yield_then_throw": "Fiber.yield(\"in try\"); throw \"after yield\";",
        }[entry]
        if entry == "throw_in_catch":
            catch = "print(\"c ${e}\"); throw \"from catch\";"
        elif entry == "return_catch":
            catch = "return [\"ret-catch\", e];"
        elif entry == "caught_then_normal":
            catch = "print(\"c ${e}\");"
        stmt = "try { %s }%s finally { %s }" % (tr, " catch e { %s }" % catch if catch else "", fin)
        if loop:
            return ["for i in 0..3 {", "  print(\"it ${i}\");", "  " + stmt, "  print(\"it end ${i}\");", "}"]
        return [stmt]

    def program(self, entry, inside, context):
        r = self.rng
        core = self.core(entry, inside)
        after = ["print(\"after core\");"]
        if context == "outer_catch":
            body = ["try {"] + ["  " + l for l in core + after] + ["} catch oe { print(\"outer caught ${oe}\"); }"]
        elif context == "outer_finally":
            of = r.choice(["print(\"outer finally\");", "print(\"outer finally\"); Fiber.yield(\"outer fin yield\"); print(\"outer fin b\");"])
            body = ["try {"] + ["  " + l for l in core + after] + ["} finally { %s }" % of]
        elif context in ("frame", "frame_catch"):
            body = ["fn work(p) {", "  var loc = [p, \"loc\"];"] + ["  " + l for l in core + after] + ["  return [\"work done\", loc];", "}"]
            body += ["try { print(work(1)); } catch we { print(\"frame caught ${we}\"); }"] if context == "frame_catch" else ["print(work(1));"]
        else:
            body = core + after
        tail = ["try { print(\"h1\"); } finally { print(\"h2\"); }", "print(\"h3\");",
                "fn healthy() { try { return [1]; } finally { print(\"hf\"); } }", "print(healthy());",
                "try { thrower(1); } catch he { print(\"h caught ${he}\"); }",
                "print(quiet_fiber().call());", "print(\"end of program\");"]
        if context == "toplevel":
            # no fiber of its own: `return` ends the script, Fiber.yield at the root is an error - same in every build
            return HELPERS + ["fn top() {"] + ["  " + l for l in body] + ["  return \"top end\";", "}",
                                                                         "try { print(top()); } catch te { print(\"top caught ${te}\"); }"] + tail
        fiber = ["var fb = Fiber.new(|| {"] + ["  " + l for l in body] + ["  return \"fiber end\";", "});"]
        if context == "nested_fiber":
            fiber = ["var fb = Fiber.new(|| {", "  var innerf = Fiber.new(|| {"] + ["    " + l for l in body] + \
                    ["    return \"inner fiber end\";", "  });",
                     "  var k = 0; while k < 4 && !innerf.has_finished() { k += 1; try { Fiber.yield(innerf.call()); } catch xe { print(\"mid caught ${xe}\"); } }",
                     "  return \"fiber end\";", "});"]
        inter = r.choice(INTERLEAVE)
        sendv = r.choice(["", "\"sent\"", "[n]"])
        driver = ["var n = 0;", "while n < %d {" % r.choice([4, 6, 7]), "  n += 1;",
                  "  try { if n == 1 { print(\"call 1: ${fb.call()}\"); } else { print(\"call ${n}: ${fb.call(%s)}\"); } } "
                  "catch de { print(\"driver caught ${de}\"); }" % sendv]
        if inter:
            driver.append("  " + inter)
        driver += ["  if fb.has_finished() { break; }", "}", "print(fb.has_finished());"]
        return HELPERS + fiber + driver + tail

    # ---- random trees: events at every position of nested try/catch/finally
    def rnd_event(self, in_loop, depth):
        r = self.rng
        self.n += 1
        ev = ["print(\"p%d\");" % self.n, "Fiber.yield(\"y%d\");" % self.n, "throw \"t%d\";" % self.n, "print(gen.call());",
              "return \"r%d\";" % self.n, "thrower(1);", "print(catcher_fiber().call());", "thrower_fiber().call();",
              "var q%d = nil.missing;" % self.n, "print(quiet_fiber().call());"]
        w = [4, 5, 4, 2, 2, 1, 2, 1, 1, 1]
        if in_loop:
            ev += ["if i == 1 { break; }", "if i == 0 { continue; }", "break;"]
            w += [2, 2, 1]
        return r.choices(ev, w)[0]

    def rnd_block(self, depth, in_loop):
        r = self.rng
        out = []
        for _ in range(r.randint(1, 3)):
            c = r.random()
            if depth > 0 and c < 0.45:
                out += self.rnd_try(depth - 1, in_loop)
            elif depth > 0 and c < 0.55 and not in_loop:
                out += ["for i in 0..3 {"] + ["  " + l for l in self.rnd_try(depth - 1, True)] + ["}"]
            else:
                out.append(self.rnd_event(in_loop, depth))
        return out

    def rnd_try(self, depth, in_loop):
        r = self.rng
        self.n += 1
        shape = r.choice(["finally", "finally", "catch_finally", "catch_finally", "catch"])
        out = ["try {"] + ["  " + l for l in self.rnd_block(depth, in_loop)] + ["}"]
        if "catch" in shape:
            out += ["catch e%d {" % self.n, "  print(\"caught ${e%d}\");" % self.n] + ["  " + l for l in self.rnd_block(depth, in_loop)] + ["}"]
        if "finally" in shape:
            out += ["finally {"] + ["  " + l for l in self.rnd_block(depth, in_loop)] + ["}"]
        return out

    def random_program(self):
        r = self.rng
        body = self.rnd_try(r.randint(1, 3), False) + ["print(\"after\");"]
        if r.random() < 0.4:
            body = ["try {"] + ["  " + l for l in body] + ["} catch oe { print(\"outer caught ${oe}\"); }"]
        fiber = ["var fb = Fiber.new(|| {"] + ["  " + l for l in body] + ["  return \"fiber end\";", "});"]
        inter = r.choice(INTERLEAVE)
        driver = ["var n = 0;", "while n < 7 {", "  n += 1;",
                  "  try { print(\"call ${n}: ${fb.call()}\"); } catch de { print(\"driver caught ${de}\"); }"] + \
                 (["  " + inter] if inter else []) + ["  if fb.has_finished() { break; }", "}", "print(fb.has_finished());",
                                                       "try { print(\"h1\"); } finally { print(\"h2\"); }", "print(\"h3\");",
                                                       "print(quiet_fiber().call());", "print(\"end of program\");"]
        return HELPERS + fiber + driver

    def programs(self, n_random, half=False):
        """every (entry, inside) pair once per run (half=True: a checkerboard half of the pairs chosen by the seed - every
        entry still meets 8 insides, every inside 6 entries), contexts cycled from a random offset; + n_random random trees"""
        r = self.rng
        out = []
        off = r.randrange(len(CONTEXTS))
        par = r.randrange(2)
        i = 0
        for ei, e in enumerate(ENTRIES):
            for si, s in enumerate(INSIDE):
                c = CONTEXTS[(i + off + i // len(CONTEXTS)) % len(CONTEXTS)]
                i += 1
                if half and (ei + si) % 2 != par:
                    continue
                src = "\n".join(self.program(e, s, c)) + "\n"
                out.append({"name": "dir:unwind_switch:%s/%s/%s" % (e, s, c), "line": "run stats=1 " + hx(src), "src": src,
                            "kinds": ["unwind_switch"]})
        for j in range(n_random):
            src = "\n".join(self.random_program()) + "\n"
            out.append({"name": "dir:unwind_random:%d" % j, "line": "run stats=1 " + hx(src), "src": src, "kinds": ["unwind_random"]})
        return out


# ---------------------------------------------------------------------------------------------------------------
# re-admitted shapes of formerly open C01 classes (both fixed since): a bound method stored in a field of its own
# receiver under garbage pressure; tuples reachable only as map keys are already in Directed.arith.


def readmitted(rng):
    out = []
    for j in range(4):
        k = rng.randint(3, 40)
        src = "\n".join([
            "class Cyc { #[constructor] fn new(self, v) { self.v = [v]; self.m = nil; } fn get(self) { return self.v; } }",
            "var keep = [];",
            "for i in 0..%d { var x = Cyc.new(i); x.m = x.get; if i %% %d == 0 { keep.push(x); } var junk = [i, (i, \"j${i}\")]; }" % (k * 10, rng.randint(2, 9)),
            "var t = 0; for x in keep { t += x.m()[0]; } print(t); print(keep.len());",
            "var only = {}; for i in 0..%d { only.insert((i, [i].len(), \"k${i}\"), [i]); var junk = [i, [i]]; }" % k,
            "var s = 0; for kv in only.items() { s += kv[0][0] + kv[1][0]; } print(s); print(only.keys().len());"]) + "\n"
        out.append({"name": "dir:readmitted:%d" % j, "line": "run stats=1 " + hx(src), "src": src, "kinds": ["readmitted"]})
    return out


# ---------------------------------------------------------------------------------------------------------------
# Churn: n objects of ONE kind created and dropped in one run; closed-form result checked by the program itself.

CHURN_KINDS = {
    # kind: (prelude, loop body using i and accumulating into t, closed form of t as a python function of n)
    "instance": ("class P { #[constructor] fn new(self, i) { self.i = i; } fn get(self) { return self.i; } }",
                 "var p = P.new(i); t = t + p.i;", lambda n: n * (n - 1) // 2),
    "bound_method": ("class P { #[constructor] fn new(self, i) { self.i = i; } fn get(self) { return self.i; } } var one = P.new(1);",
                     "var m = one.get; t = t + m();", lambda n: n),
    "closure": ("", "var j = i; var f = || j + 1; t = t + f();", lambda n: n * (n + 1) // 2),
    "vec": ("", "var v = [i, i]; t = t + v.len();", lambda n: 2 * n),
    "tuple": ("", "var v = (i, 1); t = t + v[1];", lambda n: n),
    "map": ("", "var m = {1: i}; t = t + m.len();", lambda n: n),
    "range": ("", "var r = 0..i; t = t + 1;", lambda n: n),
    "range_iter": ("", "for q in 0..2 { t = t + 1; }", lambda n: 2 * n),
    "vec_iter": ("var base = [1, 2];", "for q in base { t = t + q; }", lambda n: 3 * n),
    "fiber": ("", "var f = Fiber.new(|x| x + 1); t = t + f.call(0);", lambda n: n),
    "fiber_suspended": ("", "var f = Fiber.new(|| { Fiber.yield(1); return 2; }); t = t + f.call();", lambda n: n),
    "class": ("", "class L { fn m(self) { return 1; } } t = t + 1;", lambda n: n),
    "native_bound": ("var base = [1, 2, 3];", "var m = base.len; t = t + m();", lambda n: 3 * n),
    "upvalue_closed": ("fn mk(k) { var x = k; return || x; }", "t = t + mk(i)();", lambda n: n * (n - 1) // 2),
    "exception": ("", "try { throw [i]; } catch e { t = t + e[0]; }", lambda n: n * (n - 1) // 2),
    "error_instance": ("", "try { var z = [][1]; } catch e { t = t + 1; }", lambda n: n),
    "mixed": ("class P { #[constructor] fn new(self, i) { self.i = [i, (i,)]; } }",
              "var p = P.new(i); var g = || p; t = t + g().i[1][0];", lambda n: n * (n - 1) // 2),
}
# dev collects at every allocation (slow but fine up to a few thousand objects); release is paced
CHURN_LADDER = [700, 1100, 1700, 3000, 5000, 8000]


def churn_source(kind, n, in_fn):
    pre, body, closed = CHURN_KINDS[kind]
    lines = ([pre] if pre else []) + ["var t = 0;", "for i in 0..%d { %s }" % (n, body),
                                    "print(t); print(t == %d);" % closed(n)]
    if in_fn:
        lines = ([pre] if pre else []) + ["fn churn() {", "  var t = 0;", "  for i in 0..%d { %s }" % (n, body), "  return t;", "}",
                                        "var t = churn(); print(t); print(t == %d);" % closed(n)]
    return "\n".join(lines) + "\n"


def churn_programs(rng, quick):
    """every kind once per run at a size drawn from the ladder (thorough: every kind at two sizes)"""
    out = []
    for kind in CHURN_KINDS:
        # quick: one size of 1100 / 1700 (>= 700 freed objects in every build; the paced build collects for most kinds);
        # thorough / aimed search: 3000 and one of 5000, 8000
        sizes = [rng.choice(CHURN_LADDER[1:3])] if quick else [CHURN_LADDER[3], rng.choice(CHURN_LADDER[4:])]
        if kind == "class":
            sizes = [min(s, 1100) for s in sizes]
        for n in sizes:
            src = churn_source(kind, n, rng.random() < 0.3 and kind != "class")
            out.append({"name": "dir:churn:%s:%d" % (kind, n), "line": "run stats=1 " + hx(src), "src": src, "kinds": ["churn"],
                        "churn": (kind, n)})
    return out


def accounting_lines():
    """pairs of requests (n = 40, n = 400) per kind, run with a final full collection: the S record's byte count after it
    must be the same for both sizes (the garbage is gone; nothing of it may remain in the accounting)"""
    lines, meta = [], []
    for kind in CHURN_KINDS:
        if kind in ("class", "error_instance", "exception"):
            continue        # these legitimately leave interned names / grow tables: not size-independent
        for n in (40, 400):
            lines.append("run gc=default,stats=1,collect_end=1 " + hx(churn_source(kind, n, True)))
            meta.append((kind, n))
    return lines, meta


# ---------------------------------------------------------------------------------------------------------------
# debug-only sites -> families

TRIPLE = re.compile(r'\("([^"]*)",\s*"([^"]*)",\s*"([^"]*)"\)')

AIM = [
    (r"fiber|yield|resume|call_value|call_fiber|execute", ["unwind_switch", "unwind_random", "fiber_held", "ret_finally"]),
    (r"unwind|finally|throw|runtime_error|exception|handler|catch|try", ["unwind_switch", "unwind_random", "loop_try_exit", "ret_finally"]),
    (r"alloc|collect|sweep|mark|blacken|trace|free|heap|root", ["churn", "ret_finally", "fiber_held", "reuse"]),
    (r"push|pop|peek|truncate|frame|call|return|stack", ["unwind_switch", "loop_try_exit", "churn"]),
    (r"hash|index|range|num|str|slice|iter", ["arith", "iterating", "churn"]),
    (r"class|method|invoke|bind|upvalue|closure|capture", ["class_building", "bound_receiver", "reuse", "churn"]),
]
FILE_AIM = {"memory.rs": ["churn", "ret_finally", "reuse"], "stack.rs": ["unwind_switch", "loop_try_exit"],
            "vm.rs": ["unwind_switch", "unwind_random"], "object.rs": ["arith", "churn"], "value.rs": ["arith"],
            "compiler.rs": ["unwind_random", "loop_try_exit"]}


def table(path, name, stop=None):
    import yvlib
    with open(path) as fh:
        txt = yvlib.strip_coq_comments(fh.read())
    i = txt.find("Definition " + name)
    if i < 0:
        return None
    j = txt.find("Definition ", i + 12)
    return TRIPLE.findall(txt[i:j if j > 0 else len(txt)])


def broken_debug_sites(coq_dir):
    """regenerated debug-only sites that the reference table does not have (multiset difference), as (file, fn, what)"""
    import os
    try:
        ref = table(os.path.join(coq_dir, "theories", "ConfigModel.v"), "debug_sites_ref")
        gen = table(os.path.join(coq_dir, "gen", "FiberSites.v"), "debug_sites")
        if ref is None or gen is None:
            return []
        rest = list(ref)
        new = []
        for t in gen:
            if t in rest:
                rest.remove(t)
            else:
                new.append(t)
        return new + [(a, b, "REMOVED: " + c) for a, b, c in rest]
    except Exception:
        return []


def aim_families(sites):
    fams = []
    for f, fn, _ in sites:
        for pat, fs in AIM:
            if re.search(pat, fn):
                fams += [x for x in fs if x not in fams]
        fams += [x for x in FILE_AIM.get(f, []) if x not in fams]
    return fams
