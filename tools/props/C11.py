"""C11 - strings are equal exactly when their contents are equal.

Theorems (coq/props/C11.v over Intern.v): invariant of the open-addressing intern table, termination of
the probe loop, refinement of `intern` to a byte-keyed map for EVERY hash function.
Tie: (a) translator: INIT_CAPACITY / MAX_LOAD regenerated, side conditions re-checked by coqc;
(b) correspondence impl == M: hook H3 drives the real ObjStringStore with generated (hash,text) histories,
results and final table layout compared with Intern.v evaluated by vm_compute;
(c) property level impl == S: op results against the association-list Spec, Vm::new_gc_obj_string
identities against spec_intern_all, and yarel programs comparing strings built by different routes;
(d) round 9: EVERY construction site of an ObjString in yarel/src is regenerated into gen/StrSites.v and
props/C11.v demands that the only ones are ObjString::new itself, Vm::new_gc_obj_string (get, construct, insert, all
unconditional) and the hook; strings created by the VM itself (error messages of every kind, texts of every value
kind, iteration keys, compiler reports of every length) are probed by tools/props/C11_routes.py."""
import json
import os

import yvlib
from yvlib import hx, log
try:
    from props import C11_routes
except ImportError:   # loaded as a top-level module
    import C11_routes

LEVEL = "proof"
TRUSTED = [
    "Coq 8.16.1 kernel (coqc), vm_compute; no native_compute, no extraction",
    "translator/translate.py (constants INIT_CAPACITY, MAX_LOAD read from vm.rs)",
    "hook H3 (vm.rs verif_intern, feature verif_hooks) and the harness `yv` (Rust), tools/*.py (Python)",
    "modelled, not verified: Rust Vec/Option/String semantics, u64 `&` as N.land",
]
ASSUMPTIONS = ["identity of an interned string = address of its ObjString (hook H3)",
               "the harness keeps freed memory quarantined while a table is driven, so identities are never reused"]

POOL = [b"", b"a", b"b", b"ab", b"ba", b"abc", "é".encode(), "€x".encode(), "😀".encode(), b"a\x00b", b"key", b"Key",
        b"0", b"00", b"next", b"context", b"x" * 40]


def gen_history(rng, maxlen):
    """one op history: list of (is_insert, hash, bytes)"""
    style = rng.choice(["lowbits", "samehash", "random", "lastslot", "natural", "grow"])
    n = rng.randint(1, maxlen)
    pool = POOL + [bytes([rng.randint(97, 122)]) * rng.randint(1, 3) for _ in range(rng.randint(0, 12))]
    if style == "grow":
        n = maxlen
        pool = [("s%d" % i).encode() for i in range(maxlen)]
    hashes = {}

    def hash_for(s):
        if style == "lowbits":
            return (rng.getrandbits(20) << 6) | 5
        if style == "samehash":
            return 0xDEADBEEF if rng.random() < 0.8 else 0xDEADBEEF + 64
        if style == "lastslot":
            return (rng.getrandbits(16) << 14) | 0x3FFF
        if style == "natural" or style == "grow":
            return fnv(s)
        return rng.getrandbits(64)

    ops = []
    for _ in range(n):
        s = rng.choice(pool)
        if style in ("natural", "grow") or rng.random() < 0.7:
            h = hashes.setdefault(s, hash_for(s))
        else:
            h = hash_for(s)   # same text under another hash: a different key
        if style in ("natural", "grow"):
            # what Vm::new_gc_obj_string does: get, insert only on a miss
            ops.append((False, h, s))
            if not any(o[0] and o[1] == h and o[2] == s for o in ops):
                ops.append((True, h, s))
        else:
            ops.append((rng.random() < 0.6, h, s))
    return ops


def fnv(s):
    h = 2166136261
    for c in s + b"\xff":
        h ^= c
        h = (h * 16777619) & (2 ** 64 - 1)
    return h


def hist_line(ops):
    return "intern " + " ".join("%s%d:%s" % ("i" if i else "g", h, hx(s)) for i, h, s in ops)


def hist_coq(ops):
    """compact wire format parsed by YV.Wire.parse_nss (one group per op: ins hash byte*)"""
    return '"%s"%%string' % ";".join(" ".join([str(int(i)), str(h)] + [str(c) for c in s]) for i, h, s in ops)


def impl_render(rec):
    """render the harness record in the model's format"""
    if rec.crashed:
        return "CRASH:" + rec.crashed, None
    if rec.result[0] == "panic":
        return "PANIC:" + rec.result[1], None
    parts = []
    layout = []
    head = ""
    for l in rec.lines:
        f = l.split(" ")
        if f[0] == "G":
            parts.append("G" + f[1])
        elif f[0] == "I":
            parts.append("I%s%s" % (f[1], "r" if f[2] == "1" else "n"))
        elif f[0] == "L":
            head = "L%s,%s,%s;" % (f[1], f[2], f[3])
        elif f[0] == "E":
            layout.append("E%s:%s:%s:%s;" % (f[1], f[2], "" if f[3] == "-" else f[3], f[4]))
    return ",".join(parts), head + "".join(layout)


def nontrivial(model_str):
    """a history is non-trivial when the table grew and some entry sits away from its home slot"""
    try:
        _, tab = model_str.split("|")
        head, *ents = [x for x in tab.split(";") if x]
        size, mask, cap = [int(x) for x in head[1:].split(",")]
        displaced = any(int(e.split(":")[0][1:]) != (int(e.split(":")[1]) & mask) for e in ents)
        return cap > 4 and displaced
    except Exception:
        return False


def consts():
    with open(os.path.join(yvlib.COQ, "gen", "manifest.json")) as fh:
        return json.load(fh).get("consts", {})


def shrink(ops, fails):
    """delta debugging on the op list"""
    cur = list(ops)
    n = 2
    while len(cur) >= 2:
        size = max(1, len(cur) // n)
        reduced = False
        for i in range(0, len(cur), size):
            cand = cur[:i] + cur[i + size:]
            if cand and fails(cand):
                cur = cand
                n = max(n - 1, 2)
                reduced = True
                break
        if not reduced:
            if size == 1:
                break
            n = min(n * 2, len(cur))
    return cur


def check_histories(ctx, hists, tag):
    binary = ctx.harness("debug")
    small = [i for i, h in enumerate(hists) if len(h) <= 2000]
    big = [i for i, h in enumerate(hists) if len(h) > 2000]
    recs = [None] * len(hists)
    for i, r in zip(small, yvlib.run_harness(binary, [hist_line(hists[i]) for i in small], quarantine=True, case_timeout_ms=3000)):
        recs[i] = r
    for i in big:   # long growth histories: alone, with a generous time-out (a loaded machine is not a hang)
        recs[i] = yvlib.run_harness(binary, [hist_line(hists[i])], quarantine=True, shards=1, case_timeout_ms=180000)[0]
    reruns = 0
    for i, r in enumerate(recs):
        if r.crashed and i in small and reruns < 8:
            reruns += 1
            # a time-out under load is not a crash of the table: run the history once more, alone, with more time
            recs[i] = yvlib.run_harness(binary, [hist_line(hists[i])], quarantine=True, shards=1, case_timeout_ms=20000)[0]
    c = consts()
    cap, ln, ld = c.get("INIT_CAPACITY", 4), c.get("MAX_LOAD_NUM", 3), c.get("MAX_LOAD_DEN", 4)
    terms = []
    for h in hists:
        terms.append("run_intern_case_w %d%%N %d%%N %d%%N %s" % (cap, ln, ld, hist_coq(h)))
        terms.append("run_intern_spec_w %s" % hist_coq(h))
    vals = yvlib.coq_eval(["YV:InternRun"], terms, shard_size=120, tag="C11" + tag)
    nontriv = set()
    for i, h in enumerate(hists):
        m, s = vals[2 * i], vals[2 * i + 1]
        iops, ilayout = impl_render(recs[i])
        if m is None or s is None:
            ctx.corr_broken.append("model evaluation failed for a history (coq_eval)")
            continue
        mops, mlayout = m.split("|")
        if nontrivial(m):
            nontriv.add(m)
        if iops != s:
            ctx.violation("intern table op results differ from the byte-keyed map (Spec)", input=hist_line(h),
                          expected=s, actual=iops, model=mops, ops=[[i_, h_, hx(s_)] for i_, h_, s_ in h])
        elif iops != mops or ilayout != mlayout:
            ctx.corr_broken.append("impl != M (Intern.v) on history: %s | impl %s %s | model %s %s" % (
                hist_line(h)[:300], iops[:200], ilayout, mops[:200], mlayout))
        if mops != s and "STUCK" not in mops:
            ctx.broken.append("model != spec on a history (contradicts run_ops refinement): " + hist_line(h)[:300])
    return len(hists), nontriv, recs


ROUTES = [
    ("literal", lambda t: '"%s"' % t),
    ("concat", lambda t: '("%s" + "%s")' % (t[:len(t) // 2], t[len(t) // 2:])),
    ("interp", lambda t: '"${"%s"}%s"' % (t[:1], t[1:])),
    ("slice", lambda t: '("<%s>"[1..%d])' % (t, len(t.encode()) + 1)),
    ("split", lambda t: '("%s,zz".split(",")[0])' % t),
    ("replace", lambda t: '("%s".replace("#", "%s"))' % ("#" + t[1:], t[:1])),
    ("from", lambda t: 'String.from("%s")' % t),
    ("utf8", lambda t: "String.from_utf8([%s])" % ", ".join(str(c) for c in t.encode())),
    ("cps", lambda t: "String.from_code_points([%s])" % ", ".join(str(ord(c)) for c in t)),
    ("iter", lambda t: '(|| { var r = ""; for c in "%s" { r = r + c; } return r; })()' % t),
]
TEXTS = ["ab", "abc", "né", "€uro", "x😀y", "next", "context", "len", "Key", "key",
         # long texts (>= 32 bytes, the sizes at which a hasher might switch to word-at-a-time mixing), cut out of
         # longer strings at every offset mod 8 by the slice/split/replace routes below
         "customer_account_identifier_primary", "a_rather_long_field_name_of_40_bytes_xxxx",
         "0123456789abcdef0123456789abcdef", "0123456789abcdef0123456789abcdef0", "длинное_имя_поля_в_кодировке_utf8",
         "k" * 64, "k" * 63 + "j", "the quick brown fox jumps over the lazy dog; twice: " * 2]
PADS = ["", "#", "<>", "abc", "[__]", "12345", "sixsix", "seven77", "eightate", "ninenine9"]


def _slice_pad(t, pad):
    n0 = len(pad.encode())
    return '("%s%s>"[%d..%d])' % (pad, t, n0, n0 + len(t.encode()))


def _split_pad(t, pad):
    return '("%s,%s,zz".split(",")[1])' % (pad, t)


for _p in PADS:
    ROUTES.append(("slice@%d" % len(_p), (lambda t, _p=_p: _slice_pad(t, _p))))
    ROUTES.append(("split@%d" % (len(_p) + 1), (lambda t, _p=_p: _split_pad(t, _p))))
ROUTES.append(("replace_long", lambda t: '("%s@@".replace("@@", "%s"))' % (t[:len(t) // 3], t[len(t) // 3:])))
ROUTES.append(("concat3", lambda t: '("%s" + "%s" + "%s")' % (t[:1], t[1:len(t) // 2], t[len(t) // 2:])))


# pairs of different texts whose full 64-bit FNV-1a hashes (as ObjString computes them) coincide; found once with a
# distinguished-point search.  If the hash function of /repo changes they stop colliding and are simply two texts.
COLLIDING = [("kmowifkepwyjjh", "k2hhduid1cdvyc"), ("k1tcqjc2ichppm", "klpjgyvqcj0cmo"), ("kx34asobqzewlj", "kwdswiiyi5supi")]
LONG = ["ab" * 2500, "x" * 4096, "x" * 4097, "y" * 8192, ("0123456789" * 410) + "é"]


def collision_program(pair):
    """different texts with the same 64-bit hash used as values, constants, globals, methods, fields and keys"""
    a, b = pair
    src = "\n".join([
        "var %s = 1; var %s = 2; print(%s); print(%s);" % (a, b, a, b),
        'fn f() { return "%s" + "|" + "%s"; } print(f());' % (a, b),
        '#[constructor(new)] class K { fn %s(self) { return "ma"; } fn %s(self) { return "mb"; } }' % (a, b),
        "var k = K.new(); print(k.%s()); print(k.%s());" % (a, b),
        "#[constructor(new)] class P {} var p = P.new(); p.%s = 10; p.%s = 20; print(p.%s); print(p.%s);" % (a, b, a, b),
        'var x = "%s" + "%s"; var y = "%s" + "%s";' % (a[:5], a[5:], b[:7], b[7:]),
        "print(x == y); print(x != y); print([x] == [y]); print((x, 1) == (y, 1));",
        'var m = {x: 1}; print(m.has_key(y)); m.insert(y, 2); print(m.len()); print(m.get(x)); print(m.get("%s"));' % b,
        "fn g() { %s = 5; return %s; } print(g()); print(%s);" % (a, b, a),
    ])
    expect = ["1", "2", a + "|" + b, "ma", "mb", "10", "20", "false", "true", "false", "false", "false", "2", "1", "2", "2", "5"]
    return src, expect, ("collision", "collision", False, 0)


def long_program(rng, t):
    """the same long text (around and beyond 4096 bytes) produced by two routes"""
    routes = [r for r in ROUTES if r[0] in ("literal", "concat", "interp", "from", "concat3", "replace_long") or r[0].startswith(("slice@", "split@"))]
    r1, r2 = rng.choice(routes), rng.choice(routes)
    src = "\n".join(["var a = %s;" % r1[1](t), "var b = %s;" % r2[1](t),
                     "print(a == b); print(a.len()); var m = {a: 1}; print(m.has_key(b)); m.insert(b, 2); print(m.len());",
                     'var c = b + "!"; print(a == c); print(m.has_key(c));'])
    return src, ["true", str(len(t.encode())), "true", "1", "false", "false"], (r1[0], r2[0], True, len(t))


SPECIAL = ["row1\r\nrow2", "\r\n", "a\rb", "a\nb", "\n\r", "tab\there", "nul\0byte", "bell\x07!", 'quote"q', "back\\slash",
           "dollar$x", "\r\n\r\n", "x\r", "\ny", "é\r\nü", " lead", "trail ", "\x0b\x0c", "a\r\n", "\r\nb", "{brace}", "#hash"]
_ESC = {"\r": "\\r", "\n": "\\n", "\t": "\\t", "\0": "\\0", "\x07": "\\a", "\x0b": "\\v", "\x0c": "\\f", '"': '\\"', "\\": "\\\\", "$": "\\$"}


def esc(t):
    return '"' + "".join(_ESC.get(c, c) for c in t) + '"'


def special_program(rng, t):
    """texts with control characters, quotes, backslashes, CR LF pairs ... produced by several routes"""
    k = rng.randint(0, len(t))
    routes = [
        ("literal", esc(t)),
        ("concat@%d" % k, "(%s + %s)" % (esc(t[:k]), esc(t[k:]))),
        ("utf8", "String.from_utf8([%s])" % ", ".join(str(c) for c in t.encode())),
        ("cps", "String.from_code_points([%s])" % ", ".join(str(ord(c)) for c in t)),
        ("interp@%d" % k, '(|| { var h = %s; return "${h}" + %s; })()' % (esc(t[:k]), esc(t[k:]))),
        ("interp2@%d" % k, '(|| { var h = %s; var u = %s; return "${h}${u}"; })()' % (esc(t[:k]), esc(t[k:]))),
        ("iter", '(|| { var r = ""; for c in %s { r = r + c; } return r; })()' % esc(t)),
        ("slice", "(%s[1..%d])" % (esc("<" + t + ">"), len(t.encode()) + 1)),
        ("from", "String.from(%s)" % esc(t)),
    ]
    if ";" not in t and t:
        routes.append(("replace", "(%s.replace(\";\", %s))" % (esc(";" + t[1:]), esc(t[:1]))))
    if "|" not in t:
        routes.append(("split", '((%s + "|zz").split("|")[0])' % esc(t)))
    (n1, e1), (n2, e2), (n3, e3) = rng.choice(routes), rng.choice(routes), rng.choice(routes)
    src = "\n".join(["var a = %s;" % e1, "var b = %s;" % e2, "var c = %s;" % e3,
                     "print(a == b); print(b == c); print(a.len());",
                     "var m = {}; m.insert(a, 1); m.insert(b, 2); m.insert(c, 3); print(m.len()); print(m.get(a));",
                     'print(m.has_key(a + "")); print(a.to_bytes() == c.to_bytes()); print((a, b) == (c, c));'])
    return src, ["true", "true", str(len(t.encode())), "1", "3", "true", "true", "true"], ("special:" + n1, "special:" + n2, True, 0)


NUMTEXT = [("42", "42"), ("3.5", "3.5"), ("7", "7"), ("true", "true"), ("false", "false"), ("nil", "nil"), ("1000000", "1000000"),
           ("(40 + 2)", "42"), ("(7 / 2)", "3.5"), ("-3", "-3")]


def numtext_program(rng, vt):
    """the text of a non-string value produced by interpolation alone, interpolation with text, String.from, a literal"""
    v, t = vt
    routes = [("interp_alone", '(|| { var n = %s; return "${n}"; })()' % v), ("interp_lit", '"${%s}"' % v),
              ("literal", '"%s"' % t), ("from", "String.from(%s)" % v), ("interp_plus", '("${%s}" + "")' % v),
              ("interp_slice", '("x${%s}"[1..%d])' % (v, len(t) + 1)), ("concat", '("%s" + "%s")' % (t[:1], t[1:]))]
    (n1, e1), (n2, e2) = rng.choice(routes), rng.choice(routes)
    src = "\n".join(["var a = %s;" % e1, "var b = %s;" % e2, "print(a == b); print(a);",
                     'var m = {"%s": "found"}; print(m.get(a)); print(m.has_key(b)); m.insert(a, 1); m.insert(b, 2); print(m.len());' % t,
                     "print([a] == [b]); print(a.len());"])
    return src, ["true", t, "found", "true", "1", "true", str(len(t))], ("num:" + n1, "num:" + n2, True, 0)


def gen_program(rng):
    """a yarel program comparing strings produced by two routes; expected lines known by construction"""
    lines = []
    expect = []
    filler = rng.choice([0, 0, 3, 40, 400])
    t1 = rng.choice(TEXTS)
    t2 = t1 if rng.random() < 0.6 else rng.choice(TEXTS)
    r1, r2 = rng.choice(ROUTES), rng.choice(ROUTES)
    lines.append("var a = %s;" % r1[1](t1))
    if filler:
        lines.append('var junk = []; var i = 0; while i < %d { junk.push("f${i}" + "_"); i = i + 1; }' % filler)
    lines.append("var b = %s;" % r2[1](t2))
    lines.append("print(a == b);")
    expect.append("true" if t1 == t2 else "false")
    lines.append('var m = {a: 1}; print(m.has_key(b));')
    expect.append("true" if t1 == t2 else "false")
    lines.append("m.insert(b, 2); print(m.len());")
    expect.append("1" if t1 == t2 else "2")
    # field and method names are strings: a field set under the name in source is found through a map of names
    lines.append('#[constructor(new)] class C { fn %s(self) { return "m"; } }' % ("k" + str(len(t1))))
    lines.append("print(a.len() == b.len());")
    expect.append("true" if len(t1.encode()) == len(t2.encode()) else "false")
    lines.append("print((a, 1) == (b, 1));")
    expect.append("true" if t1 == t2 else "false")
    # the same text selects the same map entry / global however it was produced (hash AND equality)
    lines.append("var m2 = {b: 7}; print(m2.get(a));")
    expect.append("7" if t1 == t2 else "nil")
    lines.append("var s2 = {(a, 0): 1}; print(s2.has_key((b, 0)));")
    expect.append("true" if t1 == t2 else "false")
    return "\n".join(lines), expect, (r1[0], r2[0], t1 == t2, filler)


def run(ctx):
    quick = ctx.quick()
    rng = ctx.rng
    # corpus first
    corpus = []
    cdir = os.path.join(yvlib.VERIF, "corpus", "C11")
    if os.path.isdir(cdir):
        for f in sorted(os.listdir(cdir)):
            with open(os.path.join(cdir, f)) as fh:
                corpus.append([(bool(i), int(h), yvlib.unhx(s)) for i, h, s in json.load(fh)["ops"]])
    if ctx.replay_only and "harness_line" in ctx.replay_only:
        rp = ctx.replay_only
        r = yvlib.run_harness(ctx.harness(rp.get("build", "debug")), [rp["harness_line"]], shards=1, case_timeout_ms=120000)[0]
        if r.result[0] != "ok" or r.output != rp["expected"]:
            ctx.violation(rp.get("what", "replayed program prints something else"), input=rp.get("input"), expected=rp["expected"],
                          actual=r.output + [str(r.result)], harness_line=rp["harness_line"], build=rp.get("build", "debug"))
        return
    if ctx.replay_only:
        hists = [[(bool(i), int(h), yvlib.unhx(s)) for i, h, s in ctx.replay_only["ops"]]]
        check_histories(ctx, hists, "replay")
        return
    nh = 300 if quick else 2500
    hists = corpus + [gen_history(rng, (120 if rng.random() < 0.97 else 700) if quick else (200 if rng.random() < 0.9 else 1500)) for _ in range(nh)]
    if not quick:
        hists += [gen_history(rng, 6000) for _ in range(2)]
    n, nontriv, _ = check_histories(ctx, hists, "hist")
    # shrink the first violation found on histories (bounded effort), recompute its expected/actual
    binary = ctx.harness("debug")
    hv = [v for v in ctx.violations if "ops" in v]
    for v in hv[:1]:
        ops0 = [(bool(i), int(h), yvlib.unhx(s)) for i, h, s in v["ops"]]
        budget = [30]

        def observe(ops):
            rec = yvlib.run_harness(binary, [hist_line(ops)], quarantine=True, shards=1, case_timeout_ms=3000)[0]
            sp = yvlib.coq_eval(["YV:InternRun"], ["run_intern_spec_w %s" % hist_coq(ops)], tag="C11shrink")[0]
            return impl_render(rec)[0], sp

        def fails(ops):
            if budget[0] <= 0:
                return False
            budget[0] -= 1
            a, b = observe(ops)
            return a != b
        small = shrink(ops0[:400], fails) if fails(ops0[:400]) else ops0
        a, b = observe(small)
        if a == b:
            # the disagreement does not reproduce when the history is run alone (a harness time-out under machine
            # load): re-observe every reported history once and keep only those that still disagree
            keep = []
            for w in hv:
                opsw = [(bool(i), int(h), yvlib.unhx(s)) for i, h, s in w["ops"]]
                aw, bw = observe(opsw)
                if aw != bw:
                    w.update({"actual": aw, "expected": bw})
                    keep.append(w)
            ctx.notes.append("%d history disagreement(s) did not reproduce when re-run alone (transient); dropped" % (len(hv) - len(keep)))
            for w in hv:
                if w not in keep:
                    ctx.violations.remove(w)
            hv[:] = keep
            break
        v.update({"ops": [[int(i), h, hx(s)] for i, h, s in small], "input": hist_line(small), "actual": a, "expected": b})
        v.pop("model", None)
        os.makedirs(os.path.join(yvlib.VERIF, "build", "new_corpus", "C11"), exist_ok=True)
    # keep the report short: one shrunk witness plus at most four more
    others = [v for v in ctx.violations if "ops" not in v]
    ctx.violations[:] = hv[:5] + others[:5]
    # Vm::new_gc_obj_string: identities vs Spec, cached hash vs FNV model
    texts = [rng.choice(POOL + [("t%d" % rng.randint(0, 300)).encode() for _ in range(50)]) for _ in range(300 if quick else 5000)]
    rec = yvlib.run_harness(binary, ["vmintern " + " ".join(hx(t) for t in texts)], quarantine=True, shards=1)[0]
    got = rec.tagged("V")
    spec = yvlib.coq_eval(["YV:InternRun"], ['run_spec_ids_w "%s"%%string' % ";".join(" ".join(str(c) for c in t) for t in texts)], tag="C11ids")[0]
    # the VM interned strings of its own before ours: compare up to renaming = equality pattern
    ids_impl = [int(g[1]) for g in got]
    ids_spec = [int(x) for x in spec.split(",")] if spec else []
    pat = lambda ids: [ids.index(x) for x in ids]
    if rec.crashed or len(ids_impl) != len(texts):
        ctx.violation("Vm::new_gc_obj_string crashed", input="vmintern …", actual=str(rec.result))
    elif pat(ids_impl) != pat(ids_spec):
        bad = next(i for i, (a, b) in enumerate(zip(pat(ids_impl), pat(ids_spec))) if a != b)
        ctx.violation("identity of interned strings differs from byte equality", input="vmintern " + " ".join(hx(t) for t in texts[:bad + 1]),
                      expected=ids_spec[:bad + 1], actual=ids_impl[:bad + 1])
    hash_bad = [t for t, g in zip(texts, got) if int(g[0]) != fnv(t)]
    if hash_bad:
        ctx.corr_broken.append("ObjString.hash != FNV-1a(bytes ++ 0xff) for %r" % hash_bad[0])
    # programs: strings by different routes
    progs = [gen_program(rng) for _ in range(150 if quick else 2500)]
    progs += [collision_program(pr) for pr in COLLIDING] + [collision_program((b, a)) for a, b in COLLIDING]
    progs += [long_program(rng, t) for t in LONG for _ in range(2 if quick else 12)]
    progs += [special_program(rng, t) for t in SPECIAL for _ in range(3 if quick else 20)]
    progs += [numtext_program(rng, vt) for vt in NUMTEXT for _ in range(4 if quick else 25)]
    precs = yvlib.run_harness(binary, ["run - " + hx(p[0]) for p in progs])
    routes = set()
    retried = 0
    for (src, expect, meta), r in zip(progs, precs):
        routes.add(meta[:3])
        if r.result[0] == "crash" and "timeout" in str(r.result) and retried < 12:
            # the collecting debug build is quadratic on long texts; a time-out under load is not a verdict:
            # run the program once more, alone, on the release build with a long time-out
            retried += 1
            r = yvlib.run_harness(ctx.harness("release"), ["run - " + hx(src)], shards=1, case_timeout_ms=120000)[0]
        if r.result[0] != "ok" or r.output != expect:
            ctx.violation("strings built by routes %s/%s compare/hash differently from their bytes" % meta[:2],
                          input=src, expected=expect, actual=r.output + [str(r.result)])
    vm_routes = vm_created(ctx, quick)
    # volume: identity must not depend on how many strings were created before (release build: the debug build
    # collects at every allocation and would take minutes); 60000 distinct pairs cross any table-size threshold < 2^17
    nvol = 60000 if quick else 200000
    vol_src = "\n".join([
        'fn check(n) { var a = "user:${n}"; var b = "user:" + String.from(n); var m = {a: 7}; return [a == b, m.has_key(b), m.get(b)]; }',
        "print(check(1));",
        'var bad = 0; var first = nil; var i = 0;',
        'while i < %d { var x = "line ${i}"; var y = "line " + String.from(i); if x != y { bad = bad + 1; if first == nil { first = i; } } i = i + 1; }' % nvol,
        "print(bad); print(first); print(check(2));",
        'var k = "k" + String.from(%d); var mm = {k: 1}; print(mm.has_key("k%d")); print(("k%d", 1) == (k, 1));' % (nvol, nvol, nvol)])
    vol_expect = ["[true, true, 7]", "0", "nil", "[true, true, 7]", "true", "true"]
    rbin = ctx.harness("release")
    vrec = yvlib.run_harness(rbin, ["run - " + hx(vol_src.encode())], shards=1, case_timeout_ms=120000)[0]
    if vrec.result[0] != "ok" or vrec.output != vol_expect:
        ctx.violation("after %d distinct strings were created, equal texts built by two routes are no longer the same string" % (2 * nvol),
                      input=vol_src, expected=vol_expect, actual=vrec.output + [str(vrec.result)], build="release")
    # a string held by the host across Vm::reset() keeps its identity (harness command c01seq reset, owned by C01)
    reset_cases = 0
    for t in ["session-token", "x" * 40, "né€", "a\\nb"]:
        lit = esc(t) if "\\" not in t else '"a\\nb"'
        half = len(t) // 2
        s1 = "var token = %s + %s; print(token == %s);" % (esc(t[:half]) if "\\" not in t else '"a"', esc(t[half:]) if "\\" not in t else '"\\nb"', lit)
        s2 = "\n".join(["print(token == %s);" % lit, "var m = {token: 1}; print(m.has_key(%s)); print(m.get(%s + \"\"));" % (lit, lit),
                         "var m2 = {%s: 2}; print(m2.get(token)); print((token, 0) == (%s, 0));" % (lit, lit)])
        rr = yvlib.run_harness(binary, ["c01seq - reset %s %s %s" % (hx(b"token"), hx(s1.encode()), hx(s2.encode()))], quarantine=True, shards=1)[0]
        reset_cases += 1
        want = ["true", "true", "true", "1", "2", "true"]
        if "KEPT" not in " ".join(rr.lines) and rr.result[0] not in ("panic", "crash") and not rr.uaf:
            ctx.notes.append("c01seq reset not available: host-held string across reset not checked")
            break
        if rr.result[0] != "ok" or rr.output != want or rr.uaf:
            ctx.violation("a string held by the host across Vm::reset() is no longer the same string as an equal text created afterwards",
                          input="c01seq reset token | " + s1 + " | " + s2, expected=want, actual=rr.output + [str(rr.result), "uaf=%s" % rr.uaf])
    ctx.cov.update({"vm_created_routes": vm_routes})
    ctx.cov.update({"volume_strings": 2 * nvol, "reset_cases": reset_cases, "program_timeouts_retried_on_release": retried})
    ctx.cov.update({
        "evaluations": n + len(texts) + len(progs),
        "distinct_nontrivial": len(nontriv) + len(routes),
        "rule": "op histories over a text pool with hash styles {colliding low bits, identical hashes, last slot, random, FNV natural, growth}; "
                "non-trivial = the table grew beyond INIT_CAPACITY and at least one entry ends away from its home slot (distinct final model states counted); "
                "plus distinct (route, route, equal?) triples exercised by programs",
        "traces_validated_against_impl": n,
        "samples": [hist_line(hists[-1])[:400], progs[0][0]],
        "histories": n, "vm_intern_texts": len(texts), "programs": len(progs),
    })


def vm_created(ctx, quick):
    """round 9: strings created by the VM itself (tools/props/C11_routes.py); text-independent oracle"""
    progs = C11_routes.programs(quick)
    line = lambda src, mods: ("mods - %s %s" % (hx(src.encode()), " ".join("%s=%s" % (hx(k.encode()), hx(v.encode())) for k, v in sorted(mods.items())))).rstrip()
    jobs = [("debug", p) for p in progs]
    # SCALE: compiler reports of many lines on the release build (the collecting debug build is quadratic)
    for n in ([65, 300] if quick else [33, 65, 129, 300, 1100, 3000]):
        jobs.append(("release", ("error", "ImportError:compile@%d" % n, C11_routes._prog("", 'return ctx(|| { import "broken"; });'),
                                 {"broken": C11_routes.broken_module(n)})))
    recs = {}
    for build in ("debug", "release"):
        idx = [i for i, j in enumerate(jobs) if j[0] == build]
        if idx:
            out = yvlib.run_harness(ctx.harness(build), [line(jobs[i][1][2], jobs[i][1][3]) for i in idx], case_timeout_ms=60000)
            recs.update(zip(idx, out))
    retried = 0
    nviol = 0
    for i, (build, (kind, name, src, mods)) in enumerate(jobs):
        r = recs[i]
        if r.result[0] == "crash" and retried < 40:
            retried += 1    # a time-out under machine load is not a verdict: once more, alone, release build
            build = "release"
            r = yvlib.run_harness(ctx.harness("release"), [line(src, mods)], shards=1, case_timeout_ms=180000)[0]
        if r.result[0] != "ok" or r.output != C11_routes.EXPECT:
            nviol += 1
            if nviol <= 5:
                ctx.violation("a string created by the VM itself (%s route %s) is not THE string with those bytes: obtained twice and "
                              "rebuilt by concatenation/slicing/conversion it compares or hashes differently" % (kind, name),
                              input=src, modules=mods, expected=C11_routes.EXPECT, actual=r.output + [str(r.result)] + r.messages[:3],
                              harness_line=line(src, mods), build=build)
    return {"programs": len(jobs), "kinds": sorted(set(j[1][0] for j in jobs)), "retried": retried, "failing": nviol}


def search(ctx):
    """obligations broken: look for a failing input with the thorough generators (Spec oracle)"""
    old = ctx.tier
    ctx.tier = "thorough"
    try:
        run(ctx)
    finally:
        ctx.tier = old
