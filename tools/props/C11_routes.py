"""C11 round 9 - strings created BY THE VM ITSELF (not by a string operation of the program).

Every route by which a string object comes into existence must go through the intern table.  The routes of
C11.py (literal, escape, concatenation, interpolation, slicing, splitting, replacing, iteration, conversions,
host-created) are all string OPERATIONS; this family adds the strings the VM, the natives and the compiler make
on their own account: the message (`e.context`) of every error kind however it was raised (VM, native, compiler
through import, inside a fiber, inside a catch / finally block), the texts of non-string values (String.from and
interpolation of every value kind: numbers, classes, metaclasses, functions, natives, bound methods, modules,
fibers, iterators, containers), keys handed out by iterating maps / strings, and multi-line compiler reports of
every length (SCALE ladder over the number of diagnostics).

ORACLE (text- and size-independent, nothing about the message texts is assumed): obtain the string twice by the
route under test (s1, s2) and rebuild the same bytes by other routes (concatenation with "", full slice, slice out
of a padded interpolation, from_utf8(to_bytes), from_code_points(to_code_points), character iteration); then
s1 == s2 == every rebuilt copy, as values, inside tuples and vectors, and as HashMap keys (has_key / get / insert
does not add an entry).  The expected output is the same for every route."""

CHECKS = "\n".join([
    "var s1 = mk(); var s2 = mk();",
    "print(type(s1) == String); print(s1.to_bytes() == s2.to_bytes());",
    'var r1 = s1 + ""; var r2 = s1[0..s1.len()]; var r3 = String.from_utf8(s1.to_bytes());',
    'var n1 = s1.len() + 1; var r4 = "<${s1}>"[1..n1]; var r5 = String.from_code_points(s1.to_code_points());',
    'var r6 = ""; for c in s1 { r6 = r6 + c; }',
    "print(s1 == s2); print(s1 == r1); print(s1 == r2); print(s1 == r3); print(s2 == r4); print(s1 == r5); print(s2 == r6);",
    "print(s1 != s2); print(r1 == r3);",
    "var m = {s1: 1}; print(m.has_key(s2)); print(m.has_key(r1)); print(m.has_key(r4));",
    "m.insert(s2, 2); m.insert(r3, 3); m.insert(r6, 4); print(m.len()); print(m.get(s1)); print(m.get(s2));",
    "var m2 = {r2: 5}; print(m2.get(s1)); print(m2.get(s2)); print(m2.has_key(mk()));",
    "print((s1, 0) == (r2, 0)); print([s2] == [r3]); print((s1, s2) == (s2, s1));",
    'var k = {(s1, 1): "t"}; print(k.get((s2, 1))); print(k.get((r5, 1)));',
    'print(s1 + "!" == s2); print(m.has_key(s1 + "!"));',
])
EXPECT = ["true", "true"] + ["true"] * 7 + ["false", "true"] + ["true"] * 3 + ["1", "4", "4"] + ["5", "5", "true"] + \
         ["true"] * 3 + ["t", "t"] + ["false", "false"]

PRELUDE = "\n".join([
    'fn ctx(f) { try { f(); } catch e { if type(e) == String { return e; } return e.context; } return "no error"; }',
    "#[constructor(new)] class P { fn m(self) { return 1; } }",
    "#[constructor(new), derive(P)] class Q { fn n(self) { return 2; } }",
    "var p = P.new(); var q = Q.new();",
])

# --- error messages: (name, lambda raising the error) - the message is taken from e.context by ctx() -------------
ERRORS = [
    ("TypeError:binary", '|| 1 + "a"'), ("TypeError:call_nil", "|| nil()"), ("TypeError:arity", "|| (|x| x)(1, 2)"),
    ("TypeError:negate", '|| -"a"'), ("TypeError:compare", '|| 1 < "a"'), ("TypeError:native_arity", '|| "a".len(1)'),
    ("TypeError:ctor_arity", "|| P.new(1, 2, 3)"), ("TypeError:index_type", '|| [1]["a"]'),
    ("ValueError:to_num", '|| "abc".to_num()'), ("ValueError:find_empty", '|| "abc".find("")'),
    ("ValueError:split_empty", '|| "a".split("")'), ("ValueError:replace_empty", '|| "a".replace("", "b")'),
    ("ValueError:from_utf8", "|| String.from_utf8([255])"), ("ValueError:from_ascii", "|| String.from_ascii([300])"),
    ("ValueError:code_point", "|| String.from_code_points([55296])"),
    ("IndexError:vec", "|| [1][5]"), ("IndexError:slice", '|| "abc"[0..10]'), ("IndexError:boundary", '|| "é"[1..2]'),
    ("IndexError:pop", "|| [].pop()"), ("IndexError:tuple", "|| (1, 2)[7]"),
    ("AttributeError:nil", "|| nil.foo"), ("AttributeError:num_invoke", "|| (1).foo()"), ("AttributeError:instance", "|| p.missing"),
    ("AttributeError:invoke", "|| p.missing()"), ("AttributeError:inherited", "|| q.other()"), ("AttributeError:class", "|| P.nothing"),
    ("AttributeError:set", "|| { var n = 1; n.x = 2; }"),
    ("NameError:get", "|| undefined_zzz"), ("NameError:set", "|| { undefined_yyy = 1; }"),
    ("NameError:long", "|| " + "undefined_" + "q" * 140),
    ("RuntimeError:fiber_finished", "|| { var f = Fiber.new(|| 1); f.call(); f.call(); }"),
    ("RuntimeError:unhashable", "|| { var h = {}; h.insert([1], 2); }"),
    ("RuntimeError:yield_top", "|| Fiber.yield(1)"),
    ("ImportError:missing", '|| { import "no_such_module_anywhere"; }'),
    # an error raised while another one is being handled / cleaned up; an error crossing a fiber boundary
    ("nested:in_catch", '|| { try { 1 + "a"; } catch e { nil.foo; } }'),
    ("nested:in_finally", '|| { try { 1 + "a"; } catch e { } finally { [1][9]; } }'),
    ("nested:rethrown_context", '|| { try { "x".to_num(); } catch e { throw e; } }'),
    # a fiber handling its own error and handing the message out (return value / yield); an uncaught error inside a
    # fiber is not catchable by the caller (it ends the program), so it cannot be a route
    ("fiber:thrown_string", '|| { throw "first line\\nsecond line\\nthird"; }'),
]

# --- texts of non-string values: (name, definitions, expression giving ONE value) --------------------------------
VALUES = [
    ("num", "", "1.5"), ("int", "", "1000000"), ("neg_zero", "", "(-0.0)"), ("big", "", "(10000000000.0 * 10000000000.0 * 12345.0)"), ("bool", "", "true"), ("nil", "", "nil"),
    ("vec", "", '[1, "a", nil]'), ("tuple", "", '(1, "a")'), ("range", "", "(1..3)"), ("map", "", '{"k": 1}'), ("nested", "", '[(1, [2]), {"a": (3, 4)}]'),
    ("class", "", "P"), ("subclass", "", "Q"), ("metaclass", "", "type(P)"), ("metametaclass", "", "type(type(P))"),
    ("type_num", "", "type(1)"), ("type_str", "", 'type("s")'), ("type_nil", "", "type(nil)"), ("type_vec", "", "type([])"),
    ("type_fn", "", "type(ctx)"), ("type_map", "", "type({})"), ("type_range", "", "type(1..2)"), ("type_fiber", "", "type(Fiber.new(|| 1))"),
    ("instance", "", "p"), ("function", "", "ctx"), ("native", "", "print"), ("native_type", "", "type"),
    ("bound_method", "var bm = p.m;", "bm"), ("bound_native", 'var bn = "abc".len;', "bn"),
    ("lambda", "var lam = || 1;", "lam"), ("lambda2", "var l1 = |x| x; var l2 = |x| x;", "l2"),
    ("fiber", "var fib = Fiber.new(|| 1);", "fib"), ("str_iter", 'var si = "abc".iter();', "si"), ("vec_iter", "var vi = [1].iter();", "vi"),
    ("range_iter", "var ri = (1..3).iter();", "ri"), ("string_class", "", "String"), ("fiber_class", "", "Fiber"),
    ("error_object", 'var eo = nil; try { 1 + "a"; } catch e { eo = e; }', "eo"),
    ("error_class", 'var ec = nil; try { [1][3]; } catch e { ec = type(e); }', "ec"),
]
CONVERSIONS = [("from", "String.from(%s)"), ("interp", '"${%s}"'), ("interp_pad", '"[${%s}]"'), ("concat_from", '("" + String.from(%s))')]

# --- keys / pieces handed out by the VM while iterating ----------------------------------------------------------
ITERATION = [
    ("map_keys", 'var src = {"alpha_key": 1};', "for k in src.keys() { return k; }"),
    ("map_items", 'var src = {"beta_key": 1};', "for kv in src.items() { return kv[0]; }"),
    ("map_values", 'var src = {1: "gamma" + "_value"};', "for v in src.values() { return v; }"),
    ("string_chars", 'var src = "héllo";', 'var last = ""; for c in src { last = c; } return last;'),
    ("string_iter_next", 'var src = "€uro";', "var it = src.iter(); return it.next();"),
    ("split_piece", 'var src = "a,bb,ccc";', 'return src.split(",")[2];'),
    ("map_key_computed", 'var src = {}; src.insert("k" + String.from(12), 1);', "for k in src.keys() { return k; }"),
]


def broken_module(n):
    """a module whose compilation reports n diagnostics (one per broken statement)"""
    return "\n".join("var v%d = ;" % i for i in range(n)) + "\n"


def _prog(defs, body):
    return "\n".join([PRELUDE, defs, "fn mk() { %s }" % body, CHECKS])


def programs(quick):
    """[(kind, name, main source, {module name: source})] - the expected output is EXPECT for every one of them"""
    res = []
    for name, lam in ERRORS:
        res.append(("error", name, _prog("", "return ctx(%s);" % lam), {}))
    # compiler reports through import: SCALE ladder over the number of diagnostics (1 line + n lines)
    for n in ([1, 2, 3, 5, 17] if quick else [1, 2, 3, 4, 5, 9, 17, 33, 65, 129, 300]):
        res.append(("error", "ImportError:compile@%d" % n, _prog("", 'return ctx(|| { import "broken"; });'), {"broken": broken_module(n)}))
    res.append(("error", "ImportError:compile_in_submodule",
                _prog("", 'return ctx(|| { import "outer"; });'), {"outer": 'import "inner";\n', "inner": broken_module(2)}))
    res.append(("error", "ImportError:circular", _prog("", 'return ctx(|| { import "ca"; });'), {"ca": 'import "cb";\n', "cb": 'import "ca";\n'}))
    res.append(("error", "ImportError:runtime_error_in_module", _prog("", 'return ctx(|| { import "rt"; });'), {"rt": 'var x = 1 + "a";\n'}))
    res.append(("error", "ImportError:throw_lines_in_module", _prog("", 'return ctx(|| { import "tl"; });'), {"tl": 'throw "l1\\nl2\\nl3";\n'}))
    res.append(("error", "nested:import_broken_in_catch",
                _prog("", 'return ctx(|| { try { nil.foo; } catch e { import "broken"; } });'), {"broken": broken_module(2)}))
    res.append(("error", "fiber:caught_in_fiber", _prog("", 'var f = Fiber.new(|| ctx(|| 1 + "a")); return f.call();'), {}))
    res.append(("error", "fiber:yielded", _prog("", "var f = Fiber.new(|| { Fiber.yield(ctx(|| p.missing)); }); return f.call();"), {}))
    res.append(("error", "fiber:import_broken_caught_in_fiber",
                _prog("", 'var f = Fiber.new(|| ctx(|| { import "broken"; })); return f.call();'), {"broken": broken_module(3)}))
    for vname, defs, expr in VALUES:
        for cname, conv in CONVERSIONS:
            res.append(("value", "%s:%s" % (cname, vname), _prog(defs, "return %s;" % (conv % expr)), {}))
    res.append(("value", "from:module", _prog('import "okmod" as okmod;', "return String.from(okmod);"), {"okmod": "var z = 1;\n"}))
    res.append(("value", "interp:module", _prog('import "dir/okmod" as okmod;', 'return "${okmod}";'), {"dir/okmod": "var z = 1;\n"}))
    res.append(("value", "from:module_fn", _prog('import "okmod" as okmod;', "return String.from(okmod.g);"), {"okmod": "fn g() { return 1; }\n"}))
    res.append(("value", "from:module_class", _prog('import "okmod" as okmod;', "return String.from(type(okmod.K.new()));"),
                {"okmod": "#[constructor(new)] class K {}\n"}))
    for name, defs, body in ITERATION:
        res.append(("iteration", name, _prog(defs, body), {}))
    return res
